"""
Reference models of the disparity filters (C10), written from the property statement and
docs/source/userguide/step_by_step/filtering.rst - per pixel, no processing blocks, no strided views.

  "Invalid pixels are not filtered. If a valid pixel contains an invalid pixel in its filter, the invalid pixel
   is ignored for the calculation"

median    : every valid pixel at least `radius` away from the four image sides becomes the median of the valid
            values of its filter_size x filter_size window (mean of the two middle values for an even count)
bilateral : ... becomes  sum(w * v) / sum(w)  over the valid values v of its window,
            w = exp(-dist^2 / (2 sigma_space^2)) * exp(-(v - v_centre)^2 / (2 sigma_color^2))
            (the Gaussian normalisation constants cancel)
Pixels that are invalid (NaN here) and pixels closer to a side than the radius keep their value.

Two independent implementations of each: an obvious per-pixel loop (`*_loop`) and a whole-image one that
accumulates over window offsets (`*_fast`); the property modules cross-check them on the small cases.
"""
from __future__ import annotations

import numpy as np


def mask_invalid(values, invalid):
    """float64 copy with NaN at the invalid pixels"""
    v = np.array(values, dtype=np.float64)
    v[np.asarray(invalid, dtype=bool)] = np.nan
    return v


# ----------------------------------------------------------------------------------------------
# median
# ----------------------------------------------------------------------------------------------
def median_loop(v, size):
    """v: float array, NaN = invalid. Returns (expected float64 map, boolean map of filtered pixels)"""
    v = np.asarray(v, dtype=np.float64)
    ny, nx = v.shape
    rad = size // 2
    out = v.copy()
    touched = np.zeros(v.shape, dtype=bool)
    for r in range(rad, ny - rad):
        for c in range(rad, nx - rad):
            if np.isnan(v[r, c]):
                continue
            w = v[r - rad: r + rad + 1, c - rad: c + rad + 1].ravel()
            vals = sorted(float(x) for x in w if not np.isnan(x))
            n = len(vals)
            out[r, c] = vals[n // 2] if n % 2 else (vals[n // 2 - 1] + vals[n // 2]) / 2.0
            touched[r, c] = True
    return out, touched


def _shifted_stack(v, size):
    """(size*size, ny-2rad, nx-2rad) stack of the window samples of every interior pixel (plain slices)"""
    ny, nx = v.shape
    rad = size // 2
    h, w = ny - 2 * rad, nx - 2 * rad
    return np.stack([v[dy: dy + h, dx: dx + w] for dy in range(size) for dx in range(size)], axis=0)


def median_fast(v, size):
    v = np.asarray(v, dtype=np.float64)
    ny, nx = v.shape
    rad = size // 2
    out = v.copy()
    touched = np.zeros(v.shape, dtype=bool)
    if ny < size or nx < size:
        return out, touched
    st = np.sort(_shifted_stack(v, size), axis=0)  # NaN sorted last
    n = (~np.isnan(st)).sum(axis=0)
    centre = v[rad: ny - rad, rad: nx - rad]
    ok = ~np.isnan(centre)
    nn = np.where(ok, n, 1)
    hi = np.take_along_axis(st, (nn // 2)[None], axis=0)[0]
    lo = np.take_along_axis(st, ((nn - 1) // 2)[None], axis=0)[0]
    med = (lo + hi) / 2.0
    out[rad: ny - rad, rad: nx - rad] = np.where(ok, med, centre)
    touched[rad: ny - rad, rad: nx - rad] = ok
    return out, touched


def window_minmax(v, size):
    """min and max of the valid values of every interior pixel's window (NaN elsewhere)"""
    v = np.asarray(v, dtype=np.float64)
    ny, nx = v.shape
    rad = size // 2
    lo = np.full(v.shape, np.nan)
    hi = np.full(v.shape, np.nan)
    if ny < size or nx < size:
        return lo, hi
    h, w = ny - 2 * rad, nx - 2 * rad
    cur_lo = np.full((h, w), np.inf)
    cur_hi = np.full((h, w), -np.inf)
    for dy in range(size):
        for dx in range(size):
            s = v[dy: dy + h, dx: dx + w]
            cur_lo = np.where(np.isnan(s), cur_lo, np.minimum(cur_lo, s))
            cur_hi = np.where(np.isnan(s), cur_hi, np.maximum(cur_hi, s))
    lo[rad: ny - rad, rad: nx - rad] = cur_lo
    hi[rad: ny - rad, rad: nx - rad] = cur_hi
    return lo, hi


# ----------------------------------------------------------------------------------------------
# bilateral
# ----------------------------------------------------------------------------------------------
def bilateral_width(ny, nx, sigma_space):
    """window width documented in the code comments: int(3 sigma_space + 1), limited by the image sides"""
    return min(ny, nx, int(3 * sigma_space + 1))


def bilateral_loop(v, sigma_space, sigma_color, width):
    v = np.asarray(v, dtype=np.float64)
    assert width % 2 == 1, "the reference is defined for windows with a centre only"
    ny, nx = v.shape
    rad = width // 2
    out = v.copy()
    touched = np.zeros(v.shape, dtype=bool)
    for r in range(rad, ny - rad):
        for c in range(rad, nx - rad):
            if np.isnan(v[r, c]):
                continue
            num = 0.0
            den = 0.0
            for dy in range(-rad, rad + 1):
                for dx in range(-rad, rad + 1):
                    x = v[r + dy, c + dx]
                    if np.isnan(x):
                        continue
                    w = np.exp(-(dy * dy + dx * dx) / (2.0 * sigma_space ** 2)) * np.exp(
                        -((x - v[r, c]) ** 2) / (2.0 * sigma_color ** 2)
                    )
                    num += w * x
                    den += w
            out[r, c] = num / den
            touched[r, c] = True
    return out, touched


def bilateral_even(v, sigma_space, sigma_color, width, low_side):
    """
    even window widths have no centre pixel: the window of a pixel is either [p - w/2, p + w/2 - 1] (`low_side`
    True) or [p - w/2 + 1, p + w/2] (False) in each direction; in both readings the spatial weight is the Gaussian
    of the distance to the pixel itself and the range weight is taken against the pixel's own value.
    Returns (expected float64, touched) like bilateral_fast; untouched pixels keep their value.
    """
    v = np.asarray(v, dtype=np.float64)
    assert width % 2 == 0 and width >= 2
    ny, nx = v.shape
    half = width // 2
    lo, hi = (-half, half - 1) if low_side else (-half + 1, half)
    out = v.copy()
    touched = np.zeros(v.shape, dtype=bool)
    if ny < width or nx < width:
        return out, touched
    h, w = ny - width + 1, nx - width + 1
    r0, c0 = -lo, -lo
    centre = v[r0: r0 + h, c0: c0 + w]
    num = np.zeros((h, w))
    den = np.zeros((h, w))
    with np.errstate(invalid="ignore"):
        for dy in range(lo, hi + 1):
            for dx in range(lo, hi + 1):
                s = v[r0 + dy: r0 + dy + h, c0 + dx: c0 + dx + w]
                wgt = np.exp(-(dy * dy + dx * dx) / (2.0 * sigma_space ** 2)) * np.exp(
                    -((s - centre) ** 2) / (2.0 * sigma_color ** 2)
                )
                good = ~np.isnan(s) & ~np.isnan(centre)
                num += np.where(good, wgt * s, 0.0)
                den += np.where(good, wgt, 0.0)
    ok = ~np.isnan(centre)
    with np.errstate(invalid="ignore", divide="ignore"):
        res = num / den
    out[r0: r0 + h, c0: c0 + w] = np.where(ok, res, centre)
    touched[r0: r0 + h, c0: c0 + w] = ok
    return out, touched


def bilateral_fast(v, sigma_space, sigma_color, width):
    v = np.asarray(v, dtype=np.float64)
    assert width % 2 == 1
    ny, nx = v.shape
    rad = width // 2
    out = v.copy()
    touched = np.zeros(v.shape, dtype=bool)
    if ny < width or nx < width:
        return out, touched
    h, w = ny - 2 * rad, nx - 2 * rad
    centre = v[rad: ny - rad, rad: nx - rad]
    num = np.zeros((h, w))
    den = np.zeros((h, w))
    with np.errstate(invalid="ignore"):
        for dy in range(-rad, rad + 1):
            for dx in range(-rad, rad + 1):
                s = v[rad + dy: rad + dy + h, rad + dx: rad + dx + w]
                wgt = np.exp(-(dy * dy + dx * dx) / (2.0 * sigma_space ** 2)) * np.exp(
                    -((s - centre) ** 2) / (2.0 * sigma_color ** 2)
                )
                good = ~np.isnan(s) & ~np.isnan(centre)
                num += np.where(good, wgt * s, 0.0)
                den += np.where(good, wgt, 0.0)
    ok = ~np.isnan(centre)
    with np.errstate(invalid="ignore", divide="ignore"):
        res = num / den
    out[rad: ny - rad, rad: nx - rad] = np.where(ok, res, centre)
    touched[rad: ny - rad, rad: nx - rad] = ok
    return out, touched
