"""
C15 - a multiscale step really processes num_scales scales, coarse to fine (DESIGN.md section 3, C15).

Every case is one real `pandora.run` observed step by step (instance-level callback wrappers).  Enumerated:
image shapes (odd/even, not multiples of the factor) x num_scales x scale_factor x user interval at level 0, and
at levels 1 and 2 every single / pair of departures from the default environment (marge, 2-band images, one
masked pixel, window size, extra steps before / after the multiscale step, validation).

Oracle (reference model below, written from the statement and docs/.../multiscale.rst):
  * the steps before the multiscale step run once per scale, coarsest first, on images of ceil(n / f^k) pixels;
    the steps after it run once, at full resolution; outputs have the input size;
  * the coarsest level samples exactly the integers inside [min, max] / f^(S-1);
  * at each finer level the interval searched at a pixel is f x [m - marge, M + marge] of the valid coarser
    disparities in the matching window around a coarse pixel at most one pixel from the geometric parent, or
    the level's whole user interval when that coarse pixel was invalid or on the border;
  * the input datasets are deep-equal to their pre-run copies.
"""
from __future__ import annotations

import copy
import itertools
import math

import numpy as np

ID = "C15"
LEVEL = "exploration"
BUDGET = {"quick": 300, "thorough": 3600}
CHUNK = 4
RULE = (
    "cases = product of shapes x num_scales x scale_factor x interval (level 0) and single/paired departures "
    "(levels 1, 2); a case is non-trivial when at least one finer-level pixel received a narrowed interval "
    "(valid parent) AND at least one received the whole user interval; distinct = distinct (parameters, digest of "
    "all per-level interval grids and of the final disparity map)"
)
ASSUMPTIONS = [
    "cases whose coarsest image is smaller than window_size + 2 in a dimension are skipped as degenerate (counted trivial)",
    "for user intervals not divisible by f^(S-1) the 'whole user interval of the level' is accepted either exact or "
    "as f x trunc(coarser user interval) (the statement does not fix the rounding)",
    "'valid' = no bit of PANDORA_MSK_PIXEL_INVALID in the coarser validity mask",
    "subpix = 1 at every scale (multiscale works on integer disparities)",
    "cases whose widened finer-level interval could reach the image width of that level are skipped as degenerate "
    "(the matching cost raises there: open finding A8 of C02)",
    "cbca is combined with monoband images only (it does not accept multiband images, with or without multiscale)",
    "'searched' disparities of the coarsest level = sampled planes with at least one computable cost",
]

INVALID_BITS = 0b01111000011


# ----------------------------------------------------------------------------------------------
# spaces
# ----------------------------------------------------------------------------------------------
DEFAULT = {"marge": 1, "bands": 1, "mask": None, "window": 3, "pre": [], "post": [], "validation": None, "method": "sad"}

DEVIATIONS = [
    ("marge", 0), ("marge", 2), ("bands", 2), ("window", 1), ("window", 5), ("method", "zncc"), ("method", "census"),
    ("mask", ["L", "invalid", 0.5, 0.5]), ("mask", ["L", "nodata", 0.3, 0.6]), ("mask", ["R", "invalid", 0.6, 0.4]),
    ("mask", ["R", "nodata", 0.0, 0.0]),
    ("pre", ["refinement"]), ("pre", ["filter"]), ("pre", ["confidence"]), ("pre", ["cbca"]),
    ("post", ["refinement"]), ("post", ["filter"]), ("post", ["filter", "refinement"]),
    ("validation", "pre"), ("validation", "post"), ("validation", "pre-fill"),
    # pandora.run called on the user's own pipeline (not completed by a check), the multiscale parameters that equal
    # their documented defaults (num_scales 2, scale_factor 2, marge 1) left out
    ("unchecked", True),
]

INTERVALS = [(-3, 3), (1, 5), (-4, 0), (0, 0), (-4, 4)]


def geometry(S, f):
    """
    image sizes and user intervals that keep every level of an S-level factor-f pyramid meaningful: the coarsest
    image must hold a full window plus interior pixels (7 pixels allow window 5), all residues of the size modulo the
    factor occur, and the user interval is scaled so that the coarsest level still searches several disparities
    """
    k = f ** (S - 1)
    dims = list(range(7 * k, 7 * k + 6))
    mult = max(1, k // 2)
    intervals = [(a * mult, b * mult) for a, b in INTERVALS]
    return dims, intervals


def spaces(tier, seed):
    lvl0 = []
    for (S, f) in [(2, 2), (3, 2), (2, 3), (3, 3)]:
        dims, intervals = geometry(S, f)
        if tier == "quick":
            # all row sizes x all col sizes, the interval rotating with the shape so that each shape is seen and
            # each interval is seen with each residue class
            if (S, f) == (3, 3):
                dims = dims[:3]
            for r in dims:
                for c in dims:
                    iv = intervals[(r * 7 + c + S + f + seed) % len(intervals)]
                    lvl0.append(dict(DEFAULT, rows=r, cols=c, S=S, f=f, interval=list(iv), seed=seed))
        else:
            for r in dims:
                for c in dims:
                    for iv in intervals:
                        lvl0.append(dict(DEFAULT, rows=r, cols=c, S=S, f=f, interval=list(iv), seed=seed))
    # landscape / portrait strips whose coarse level is wider (taller) than two 100-pixel processing blocks
    lvl0.append(dict(DEFAULT, rows=20, cols=520, S=2, f=2, interval=[0, 4], seed=seed))
    lvl0.append(dict(DEFAULT, rows=430, cols=24, S=2, f=2, interval=[-3, 1], seed=seed))
    lvl1 = []
    for (S, f) in [(2, 2), (3, 2), (2, 3)]:
        dims, intervals = geometry(S, f)
        b = dims[0]
        shapes1 = [(b, b + 1), (b + 1, b + 4), (b + 5, b + 2), (b + 3, b + 3)]
        if tier != "quick":
            shapes1 += [(b + 4, b), (b + 2, b + 5)]
        for (r, c) in shapes1:
            for k, v in DEVIATIONS:
                for iv in (intervals[:2] if tier == "quick" else intervals):
                    lvl1.append(dict(DEFAULT, rows=r, cols=c, S=S, f=f, interval=list(iv), seed=seed, **{k: v}))
    lvl2 = []
    for (S, f) in ([(2, 2), (3, 2)] if tier == "quick" else [(2, 2), (3, 2), (2, 3)]):
        dims, intervals = geometry(S, f)
        b = dims[0]
        shapes2 = [(b + 1, b + 4), (b + 5, b + 2)] if (tier != "quick" or S == 2) else [(b + 1, b + 4)]
        for (r, c) in shapes2:
            for (k1, v1), (k2, v2) in itertools.combinations(DEVIATIONS, 2):
                if k1 == k2 or {(k1, str(v1)), (k2, str(v2))} == {("bands", "2"), ("pre", "['cbca']")}:
                    continue  # cbca does not support multiband images (outside this property)
                if S == 3 and tier == "quick" and "validation" not in (k1, k2):
                    continue  # quick: three scales only paired with a validation step (the right pass)
                lvl2.append(dict(DEFAULT, rows=r, cols=c, S=S, f=f, interval=list(intervals[0]), seed=seed,
                                 **{k1: v1, k2: v2}))
    # machine reuse: job B on a machine that already checked and ran job A (every ordered pair of a small set of
    # configurations that differ in marge / factor / scales / window / validation), with and without re-checking
    base = dict(DEFAULT, rows=29, cols=32, interval=[-6, 6], seed=seed)
    variants = [dict(base, S=2, f=2), dict(base, S=2, f=2, marge=0), dict(base, S=2, f=2, marge=2),
                dict(base, S=3, f=2), dict(base, S=2, f=3), dict(base, S=2, f=2, window=5),
                dict(base, S=2, f=2, interval=[2, 10]), dict(base, S=3, f=2, marge=2, interval=[-8, 8]),
                dict(base, S=3, f=2, validation="post", interval=[-12, 0]),
                dict(base, S=2, f=2, validation="post"), dict(base, S=2, f=2, pre=["refinement"])]
    reuse = []
    for a in variants:
        for b in variants:
            if a is b:
                continue
            for recheck in (True, False):
                reuse.append(dict(b, prior=a, recheck=recheck))
    return [
        {"name": "default environment: shapes x scales x factors x intervals", "level": 0, "cases": lvl0},
        {"name": "machine reuse: job B after job A on one machine object", "level": 2, "cases": reuse},
        {"name": "one departure (marge, bands, mask, window, measure, steps around, validation)", "level": 1,
         "cases": lvl1},
        {"name": "two departures", "level": 2, "cases": lvl2},
    ]


# ----------------------------------------------------------------------------------------------
# case -> inputs
# ----------------------------------------------------------------------------------------------
def build(case):
    from mc.drivers import datasets as D  # pylint: disable=import-outside-toplevel
    from mc.drivers import pipeline as P  # pylint: disable=import-outside-toplevel

    ny, nx = case["rows"], case["cols"]
    left, right = D.stereo_pair(ny, nx, shift=1, seed=case["seed"] + 11)
    lm = rm = None
    if case["mask"]:
        side, what, fr, fc = case["mask"]
        msk = np.zeros((ny, nx), dtype=np.int16)
        msk[min(ny - 1, int(fr * ny)), min(nx - 1, int(fc * nx))] = 1 if what == "nodata" else 2
        if side == "L":
            lm = msk
        else:
            rm = msk
    band = None
    if case["bands"] == 2:
        l2, r2 = D.stereo_pair(ny, nx, shift=1, seed=case["seed"] + 23)
        left = np.stack([l2, left])
        right = np.stack([r2, right])
        band = "g"
    iv = tuple(case["interval"])
    L = D.image(left, disp=iv, msk=lm, bands=["r", "g"] if band else None)
    R = D.image(right, disp=None, msk=rm, bands=["r", "g"] if band else None)
    steps = [("matching_cost", P.mc(case["method"], case["window"] if case["method"] != "census" or case["window"] in (3, 5)
                                    else 3, 1, band))]
    if "cbca" in case["pre"]:
        steps.append(("aggregation", P.CBCA))
    if "confidence" in case["pre"]:
        steps.append(("cost_volume_confidence", {"confidence_method": "std_intensity"}))
    steps.append(("disparity", P.WTA))
    val = case["validation"]
    if val in ("pre", "pre-fill"):
        steps.append(("validation", P.CROSS if val == "pre" else P.CROSS_MCCNN))
    for s in case["pre"]:
        if s == "refinement":
            steps.append(("refinement", P.VFIT))
        if s == "filter":
            steps.append(("filter", P.MEDIAN))
    ms = {"multiscale_method": "fixed_zoom_pyramid", "num_scales": case["S"], "scale_factor": case["f"],
          "marge": case["marge"]}
    if case.get("unchecked"):
        for k, dflt in (("num_scales", 2), ("scale_factor", 2), ("marge", 1)):
            if ms[k] == dflt:
                del ms[k]
    steps.append(("multiscale", ms))
    for s in case["post"]:
        if s == "refinement":
            steps.append(("refinement", P.VFIT))
        if s == "filter":
            steps.append(("filter", P.MEDIAN))
    if val == "post":
        steps.append(("validation", P.CROSS))
    return L, R, P.name_steps(steps)


# ----------------------------------------------------------------------------------------------
# reference model
# ----------------------------------------------------------------------------------------------
def level_shape(n, f, k):
    """size of level k (0 = full resolution)"""
    for _ in range(k):
        n = math.ceil(n / f)
    return n


def acceptable_intervals(coarse_disp, coarse_valid, window, marge, f, user_lo, user_hi, r, c):
    """
    set of (lo, hi) the statement allows at fine pixel (r, c): one per candidate coarse pixel at most one
    pixel away from the geometric parent (r // f, c // f)
    """
    ny, nx = coarse_disp.shape
    off = (window - 1) // 2
    out = set()
    pr, pc = r // f, c // f
    for qr in (pr - 1, pr, pr + 1):
        for qc in (pc - 1, pc, pc + 1):
            if not (0 <= qr < ny and 0 <= qc < nx):
                continue
            border = qr < off or qr >= ny - off or qc < off or qc >= nx - off
            if border or not coarse_valid[qr, qc]:
                for lo, hi in zip(user_lo, user_hi):
                    out.add((float(lo), float(hi)))
                continue
            win = coarse_disp[qr - off: qr + off + 1, qc - off: qc + off + 1]
            wv = coarse_valid[qr - off: qr + off + 1, qc - off: qc + off + 1]
            vals = win[wv]
            out.add((float(f * (vals.min() - marge)), float(f * (vals.max() + marge))))
    return out


# ----------------------------------------------------------------------------------------------
def run_case(case):
    from mc.drivers import datasets as D  # pylint: disable=import-outside-toplevel
    from mc.drivers import pipeline as P  # pylint: disable=import-outside-toplevel

    S, f, w = case["S"], case["f"], case["window"]
    ny, nx = case["rows"], case["cols"]
    if case["method"] == "census" and w not in (3, 5):
        w = 3
    if min(level_shape(ny, f, S - 1), level_shape(nx, f, S - 1)) < w + 2:
        return {"n": 1, "sigs": [], "viol": [], "trivial": 1}
    # the interval searched at a finer level can grow to f x (coarser + marge): when it can reach the width of that
    # level's image the matching cost itself raises (open finding A8 of C02), which says nothing about multiscale
    worst = max(abs(case["interval"][0]), abs(case["interval"][1])) / f ** (S - 1)
    for lev in range(S - 2, -1, -1):
        worst = f * (worst + case["marge"])
        if worst >= level_shape(nx, f, lev) - (w - 1) - 1:
            return {"n": 1, "sigs": [], "viol": [], "trivial": 1}
    L, R, pipe = build(case)
    L0, R0 = L.copy(deep=True), R.copy(deep=True)
    viol = []

    reuse = "" if not case.get("prior") else ("/machine-reused" + ("" if case.get("recheck", True) else "-without-recheck"))

    def bad(clause, cls, detail):
        viol.append({"clause": clause, "key": f"C15/{clause}/{cls}{reuse}", "detail": f"{detail} | case={case}"})

    machine = None
    do_check = not case.get("unchecked")
    if case.get("prior"):
        # machine reuse: the same PandoraMachine object first checked and ran another multiscale job
        from pandora.state_machine import PandoraMachine  # pylint: disable=import-outside-toplevel

        machine = PandoraMachine()
        pa = dict(case["prior"])
        La, Ra, pipea = build(pa)
        prior = P.run_observed(La, Ra, pipea, machine=machine, observe=False)
        if prior.error:
            return {"n": 1, "sigs": [], "viol": [], "trivial": 1}  # the prior job is judged by its own case
        if not case.get("recheck", True):
            checked = P.check(PandoraMachine(), L, R, pipe)  # configuration completed by another machine
            pipe = checked["pipeline"]
            do_check = False
    obs = P.run_observed(L, R, pipe, machine=machine, do_check=do_check, snapshot=("cv", "disp"))
    bandcls = "multiband" if case["bands"] == 2 else "monoband"
    if obs.error:
        bad("runs", f"{obs.error[0]}/{type(obs.error[1]).__name__}/{bandcls}", f"{obs.error[0]} raised {obs.error[1]!r}")
        return {"n": 1, "sigs": [], "viol": viol}
    names = list(pipe)
    has_val = case["validation"] is not None
    ms_index = names.index("multiscale")
    # ---- (1) execution log: before multiscale once per scale coarse->fine, after once at scale 0 -------------
    exp = []
    for s in range(S - 1, -1, -1):
        for i, nme in enumerate(names):
            if nme == "multiscale":
                if s > 0:
                    exp.append((nme, s))
                    break
                continue
            exp.append((nme, s))
    got = [(st["step"], st["scale"]) for st in obs.steps]
    if got != exp:
        k = 0
        while k < min(len(got), len(exp)) and got[k] == exp[k]:
            k += 1
        bad("once-per-scale-coarse-to-fine", "log", f"step log differs at entry {k}: expected {exp[k:k + 2]}, observed "
            f"{got[k:k + 2]} (expected {len(exp)} executions, observed {len(got)})")
        return {"n": 1, "sigs": [], "viol": viol}
    # ---- (2) image sizes per level ---------------------------------------------------------------------------
    for st in obs.steps:
        es = (level_shape(ny, f, st["scale"]), level_shape(nx, f, st["scale"]))
        if tuple(st["img_shape"]) != es:
            bad("image-size-per-level", "shape", f"step {st['step']} at scale {st['scale']} ran on an image of "
                f"{st['img_shape']} pixels, expected {es}")
            break
    # ---- (3) outputs have the input size -----------------------------------------------------------------------
    for side, ds in (("left", obs.left), ("right", obs.right)):
        if side == "right" and not has_val:
            continue
        if "disparity_map" not in ds or ds["disparity_map"].shape != (ny, nx):
            bad("output-size", side, f"{side} disparity map shape "
                f"{ds['disparity_map'].shape if 'disparity_map' in ds else None} != {(ny, nx)}")
    # ---- (4) coarsest level samples the integers inside [min, max] / f^(S-1) ----------------------------------
    dmin, dmax = case["interval"]
    mcs = [st for st in obs.steps if st["step"] == "matching_cost"]
    first = mcs[0]
    lo, hi = dmin / f ** (S - 1), dmax / f ** (S - 1)
    want = [d for d in range(int(math.floor(lo)) - 1, int(math.ceil(hi)) + 2) if lo <= d <= hi]

    def searched(cv):
        """sampled disparities that have at least one computable cost + all sampled disparities"""
        dd = [float(x) for x in cv.coords["disp"].data]
        fin = np.isfinite(cv["cost_volume"].data).any(axis=(0, 1))
        return dd, [d for d, k in zip(dd, fin) if k]

    for side, cvname, wnt in (("left", "left_cv", want), ("right", "right_cv", [-d for d in reversed(want)])):
        if side == "right" and not has_val:
            continue
        sampled, live = searched(first[cvname])
        if not set(float(x) for x in wnt) <= set(sampled) or any(d != int(d) for d in sampled):
            bad("coarsest-interval", f"{side}/missing", f"coarsest level ({side}) sampled disparities {sampled}, expected "
                f"at least the integers inside [{lo}, {hi}] (left geometry) = {wnt}")
        outside = [d for d in live if d not in [float(x) for x in wnt]]
        if outside:
            bad("coarsest-interval", f"{side}/outside", f"coarsest level ({side}) has computable costs at disparities "
                f"{outside} outside the user interval / f^(S-1) (integers allowed: {wnt})")
    # ---- (5) per-pixel intervals at each finer level -----------------------------------------------------------
    narrowed = whole = 0
    digests = []
    for side in (["left", "right"] if has_val else ["left"]):
        for lev in range(S - 2, -1, -1):  # the level being searched; its parent is lev + 1
            parent_steps = [st for st in obs.steps if st["scale"] == lev + 1]
            # disparity map handed to the multiscale step = state after the last step before it on that scale
            pd = parent_steps[-2][f"{side}_disp"] if parent_steps[-1]["step"] == "multiscale" else None
            if pd is None:
                raise AssertionError("harness: multiscale step not last on a coarse scale")
            cdisp = pd["disparity_map"].data.astype(np.float64)
            cvalid = (pd["validity_mask"].data.astype(np.int64) & INVALID_BITS) == 0
            mc_step = [st for st in mcs if st["scale"] == lev][0]
            gmin = np.asarray(mc_step["disp_min" if side == "left" else "right_disp_min"], dtype=np.float64)
            gmax = np.asarray(mc_step["disp_max" if side == "left" else "right_disp_max"], dtype=np.float64)
            sy, sx = level_shape(ny, f, lev), level_shape(nx, f, lev)
            if gmin.shape[0] < sy or gmin.shape[1] < sx:
                bad("interval-grid-size", side, f"level {lev}: interval grid {gmin.shape} smaller than image {(sy, sx)}")
                continue
            umin, umax = (dmin, dmax) if side == "left" else (-dmax, -dmin)
            exact = (umin / f ** lev, umax / f ** lev)
            trunc = (f * int(umin / f ** (lev + 1)), f * int(umax / f ** (lev + 1)))
            user_lo, user_hi = [exact[0], trunc[0]], [exact[1], trunc[1]]
            digests.append(np.round(gmin[:sy, :sx], 3).tobytes() + np.round(gmax[:sy, :sx], 3).tobytes())
            done = False
            for r in range(sy):
                for c in range(sx):
                    ok = acceptable_intervals(cdisp, cvalid, w, case["marge"], f, user_lo, user_hi, r, c)
                    g = (float(gmin[r, c]), float(gmax[r, c]))
                    if g in {(a, b) for a, b in zip(user_lo, user_hi)}:
                        whole += 1
                    else:
                        narrowed += 1
                    if not any(abs(g[0] - a) <= 1e-4 * max(1.0, abs(a)) and abs(g[1] - b) <= 1e-4 * max(1.0, abs(b))
                               for a, b in ok):
                        pr, pc = r // f, c // f
                        cls = "parent-invalid-or-border" if (not cvalid[min(pr, cvalid.shape[0] - 1),
                                                                         min(pc, cvalid.shape[1] - 1)]) else "valid-parent"
                        bad("finer-level-interval", f"{side}/{cls}", f"level {lev} pixel ({r},{c}): searched interval "
                            f"{g}, allowed by the statement {sorted(ok)} (parent ({pr},{pc}), marge {case['marge']}, "
                            f"factor {f}, window {w})")
                        done = True
                        break
                if done:
                    break
    # ---- (6) inputs untouched ------------------------------------------------------------------------------------
    for side, a, b in (("left", L0, L), ("right", R0, R)):
        diff = D.same_dataset(a, b)
        if diff:
            what = diff.split(" ")[0]
            bad("inputs-unmodified", f"{side}/{bandcls}/{'masked' if case['mask'] else 'unmasked'}/{what}",
                f"{side} input dataset modified by the run: {diff}")
    nontrivial = narrowed > 0 and whole > 0
    import hashlib  # pylint: disable=import-outside-toplevel

    h = hashlib.sha1(b"".join(digests) + P.digest(obs.left).encode()).hexdigest()[:12]
    key = {k: case[k] for k in ("rows", "cols", "S", "f", "interval", "marge", "bands", "window", "method", "validation")}
    sig = f"{key}|{case['mask']}|{case['pre']}|{case['post']}|{h}"
    return {"n": 1, "sigs": [sig] if nontrivial else [], "viol": viol[:6], "trivial": 0 if nontrivial else 1}


def init_worker():
    case = dict(DEFAULT, rows=14, cols=15, S=2, f=2, interval=[-3, 3], seed=0)
    run_case(case)
