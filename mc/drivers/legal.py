"""
Legal-pipeline generator (DESIGN.md section 2.5).

Walks the documented automaton

    begin --matching_cost--> cost_volume --(aggregation | cost_volume_confidence)*--> cost_volume
          --disparity--> disp_map --(filter | refinement | validation)*--> disp_map

and instantiates every step kind from a menu of concrete built-in methods.  `optimization` and
`semantic_segmentation` have no built-in method in this image and `multiscale` is handled elsewhere (A1): the
three are not generated here.

A pipeline is a list of *step names* (short strings, JSON-able, readable in replay files):

    "sad:3:2"        matching cost  method:window:subpix[:band]
    "cbca", "cbca1", "cbca2"   aggregation (cbca_distance 3 / 1 / 2)
    "std", "amb", "ambn", "risk", "ib", "ibr"    cost-volume confidences
    "wta", "wta_nan", "wta0"   disparity (invalid_disparity -9999 / NaN / 0)
    "median", "median5", "bilateral", "bilateral5", "mfi", "mfir"   filters
    "vfit", "quad"   refinements
    "cross", "cross_mccnn", "cross_sgm", "cross0"   validation (threshold 1 / fills / threshold 0)

`build(names)` gives the ordered {"step[.k]": cfg} dict that `check_pipeline_section` / `pandora.run` take.
`walk(...)` enumerates *all* sequences of the automaton over the given menus up to a length, in a deterministic
order (shorter first, then lexicographic in menu order).
"""
from __future__ import annotations

import copy
from typing import Callable, Iterable, Iterator, List, Optional, Sequence

# ----------------------------------------------------------------------------------------------
# menus
# ----------------------------------------------------------------------------------------------
CV_STEPS = {
    # name: (kind, cfg)
    "cbca": ("aggregation", {"aggregation_method": "cbca", "cbca_intensity": 30.0, "cbca_distance": 3}),
    "cbca1": ("aggregation", {"aggregation_method": "cbca", "cbca_intensity": 30.0, "cbca_distance": 1}),
    "cbca2": ("aggregation", {"aggregation_method": "cbca", "cbca_intensity": 6.0, "cbca_distance": 2}),
    "cbca4": ("aggregation", {"aggregation_method": "cbca", "cbca_intensity": 12.0, "cbca_distance": 4}),
    # arms of 1 or 2 pixels depending on the image (with distance 2 every arm is 1, with intensity 30 every arm of a
    # 0..15 image has its full length)
    "cbca3i": ("aggregation", {"aggregation_method": "cbca", "cbca_intensity": 6.0, "cbca_distance": 3}),
    "std": ("cost_volume_confidence", {"confidence_method": "std_intensity"}),
    "amb": ("cost_volume_confidence", {"confidence_method": "ambiguity", "eta_max": 0.7, "eta_step": 0.1}),
    "ambn": ("cost_volume_confidence", {"confidence_method": "ambiguity", "eta_max": 0.5, "eta_step": 0.25,
                                        "normalization": False}),
    "risk": ("cost_volume_confidence", {"confidence_method": "risk", "eta_max": 0.7, "eta_step": 0.1}),
    "ib": ("cost_volume_confidence", {"confidence_method": "interval_bounds", "possibility_threshold": 0.9}),
    "ibr": ("cost_volume_confidence", {"confidence_method": "interval_bounds", "possibility_threshold": 0.7,
                                       "regularization": True, "ambiguity_threshold": 0.6,
                                       "ambiguity_kernel_size": 3}),
}
DISP_STEPS = {
    "wta": ("disparity", {"disparity_method": "wta", "invalid_disparity": -9999}),
    "wta_nan": ("disparity", {"disparity_method": "wta", "invalid_disparity": "NaN"}),
    "wta0": ("disparity", {"disparity_method": "wta", "invalid_disparity": 0}),
}
DM_STEPS = {
    "median": ("filter", {"filter_method": "median", "filter_size": 3}),
    "median5": ("filter", {"filter_method": "median", "filter_size": 5}),
    "bilateral": ("filter", {"filter_method": "bilateral", "sigma_color": 2.0, "sigma_space": 0.7}),
    "bilateral5": ("filter", {"filter_method": "bilateral", "sigma_color": 1.0, "sigma_space": 1.4}),
    "mfi": ("filter", {"filter_method": "median_for_intervals", "filter_size": 3}),
    "mfir": ("filter", {"filter_method": "median_for_intervals", "filter_size": 3, "regularization": True,
                        "ambiguity_kernel_size": 3}),
    "vfit": ("refinement", {"refinement_method": "vfit"}),
    "quad": ("refinement", {"refinement_method": "quadratic"}),
    "cross": ("validation", {"validation_method": "cross_checking_accurate", "cross_checking_threshold": 1.0}),
    "cross0": ("validation", {"validation_method": "cross_checking_accurate", "cross_checking_threshold": 0}),
    "cross_mccnn": ("validation", {"validation_method": "cross_checking_accurate", "cross_checking_threshold": 1.0,
                                   "interpolated_disparity": "mc-cnn"}),
    "cross_sgm": ("validation", {"validation_method": "cross_checking_accurate", "cross_checking_threshold": 1.0,
                                 "interpolated_disparity": "sgm"}),
    # multiscale entries are not part of walk()/shapes() menus by default (integer scalar intervals only);
    # property modules that want them build the tails by hand
    "ms2": ("multiscale", {"multiscale_method": "fixed_zoom_pyramid", "num_scales": 2, "scale_factor": 2, "marge": 1}),
    "ms3": ("multiscale", {"multiscale_method": "fixed_zoom_pyramid", "num_scales": 3, "scale_factor": 2, "marge": 0}),
}

# steps that read a confidence band produced by an earlier step: alternatives, each a list of needed step names
REQUIRES = {
    "ibr": [["amb"]],
    "mfi": [["ib"], ["ibr"]],
    "mfir": [["ib", "amb"], ["ibr", "amb"]],
}

MC_METHODS = ("sad", "ssd", "census", "zncc")


def mc_name(method: str, window: int = 3, subpix: int = 1, band: Optional[str] = None) -> str:
    return f"{method}:{window}:{subpix}" + (f":{band}" if band else "")


def mc_names(methods: Iterable[str] = MC_METHODS, windows: Iterable[int] = (1, 3, 5),
             subpixes: Iterable[int] = (1, 2, 4), band: Optional[str] = None) -> List[str]:
    """all accepted matching-cost configurations of the product (census only takes windows 3 and 5)"""
    out = []
    for m in methods:
        for w in windows:
            if m == "census" and w not in (3, 5):
                continue
            for s in subpixes:
                out.append(mc_name(m, w, s, band))
    return out


def is_mc(name: str) -> bool:
    return name.split(":")[0] in MC_METHODS


def parse_mc(name: str) -> dict:
    parts = name.split(":")
    cfg = {"matching_cost_method": parts[0], "window_size": int(parts[1]), "subpix": int(parts[2])}
    if len(parts) > 3:
        cfg["band"] = parts[3]
    return cfg


def step_of(name: str):
    """(kind, cfg) of one step name"""
    if is_mc(name):
        return "matching_cost", parse_mc(name)
    for menu in (CV_STEPS, DISP_STEPS, DM_STEPS):
        if name in menu:
            kind, cfg = menu[name]
            return kind, copy.deepcopy(cfg)
    raise KeyError(f"unknown step name {name!r}")


def kind_of(name: str) -> str:
    return step_of(name)[0]


def build(names: Sequence[str]) -> dict:
    """
    ordered pipeline dict with '.k' suffixes for repeated kinds (the documented naming).  A confidence step
    that is the k-th (k >= 1) `cost_volume_confidence` step names its bands "<band>.k"; the steps that read a
    band (`ibr`, `mfi`, `mfir`) are pointed at the right one through their *_indicator parameters.
    """
    out = {}
    seen = {}
    suffix = {}  # step name -> "" | "k" of the confidence step that produced its band
    for n in names:
        kind, cfg = step_of(n)
        k = seen.get(kind, 0)
        seen[kind] = k + 1
        if kind == "cost_volume_confidence" and n not in suffix:
            suffix[n] = "" if k == 0 else str(k)
        if n in ("ibr", "mfir"):
            cfg["ambiguity_indicator"] = suffix.get("amb", "")
        if n in ("mfi", "mfir"):
            cfg["interval_indicator"] = suffix.get("ib", suffix.get("ibr", ""))
        out[kind if k == 0 else f"{kind}.{k}"] = cfg
    return out


def has_validation(names: Sequence[str]) -> bool:
    return any(kind_of(n) == "validation" for n in names)


# ----------------------------------------------------------------------------------------------
# automaton walk
# ----------------------------------------------------------------------------------------------
def _requirements_met(name: str, prefix: Sequence[str]) -> bool:
    req = REQUIRES.get(name)
    if not req:
        return True
    return any(all(x in prefix for x in alt) for alt in req)


def walk(max_len: int, mc: Sequence[str], cv: Sequence[str] = (), disp: Sequence[str] = ("wta",),
         dm: Sequence[str] = (), max_validation: int = 1, repeat_cv: bool = False, max_cv: int = 99,
         max_dm: int = 99, accept: Optional[Callable[[List[str]], bool]] = None) -> Iterator[List[str]]:
    """
    Every complete pipeline (one that reaches the disp_map state) of the automaton over the menus, of
    length <= max_len; ordered by length, then by menu order.

    :param max_validation: number of validation steps allowed (the machine derives the right pass from the
        step literally called "validation", i.e. the first one)
    :param repeat_cv: allow the same cost-volume step name twice (bands get a ".1" suffix)
    """
    results = []

    def rec(prefix, state, ncv, ndm, nval):
        if state == "disp_map":
            if accept is None or accept(prefix):
                results.append(list(prefix))
        if len(prefix) >= max_len:
            return
        if state == "cost_volume":
            if ncv < max_cv:
                for n in cv:
                    if not repeat_cv and n in prefix:
                        continue
                    if not _requirements_met(n, prefix):
                        continue
                    rec(prefix + [n], "cost_volume", ncv + 1, ndm, nval)
            for n in disp:
                rec(prefix + [n], "disp_map", ncv, ndm, nval)
        elif state == "disp_map":
            if ndm < max_dm:
                for n in dm:
                    isval = DM_STEPS[n][0] == "validation"
                    if isval and nval >= max_validation:
                        continue
                    if not _requirements_met(n, prefix):
                        continue
                    rec(prefix + [n], "disp_map", ncv, ndm + 1, nval + (1 if isval else 0))

    for m in mc:
        rec([m], "cost_volume", 0, 0, 0)
    results.sort(key=len)  # stable: menu order inside one length
    return iter(results)


def shapes(max_extra: int, cv: Sequence[str], dm: Sequence[str], disp: Sequence[str] = ("wta",), **kw) -> List[List[str]]:
    """pipelines *without* their matching-cost step (prefix "@"), with at most `max_extra` steps besides
    matching cost and disparity: the caller combines each shape with matching-cost configurations"""
    out = []
    for p in walk(max_extra + 2, ["sad:3:1"], cv, disp, dm, **kw):
        out.append(p[1:])
    return out


def describe(names: Sequence[str]) -> str:
    return ">".join(names)
