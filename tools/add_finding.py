#!/usr/bin/env python3
"""tools/add_finding.py <replay.json> "<what fails>"  -- record an OPEN known finding (lead decision, never at check time)"""
import hashlib
import json
import os
import sys

rep = json.load(open(sys.argv[1]))
what = sys.argv[2]
p = "/verif/known_findings.json"
d = json.load(open(p))
key = rep["key"]
if any(f["key"] == key and f["property"] == rep["property"] for f in d["findings"]):
    sys.exit("already listed")
wit = f"findings/{rep['property']}_{hashlib.sha1(key.encode()).hexdigest()[:10]}.json"
os.makedirs("/verif/findings", exist_ok=True)
json.dump({"property": rep["property"], "key": key, "clause": rep.get("clause"), "detail": rep.get("detail"),
           "case": rep["case"]}, open(os.path.join("/verif", wit), "w"), indent=1)
d["findings"].append({"property": rep["property"], "key": key, "status": "open", "what": what,
                      "witness": wit, "replay": f"cd /verif && ./check {rep['property']} --replay {wit}"})
json.dump(d, open(p, "w"), indent=1)
print("added", key)
