"""
Reference invariants for the occlusion / mismatch filling methods (property C14).  Not a re-implementation: the
functions below only enumerate the *candidates* the statement allows and test the observed output against them.

Statement (C14): only pixels flagged occlusion (bit 8) or mismatch (bit 9) can change; a filled pixel gets bit 8
replaced by bit 4 or bit 9 by bit 5 (sgm may first turn a mismatch touching an occlusion into an occlusion) and a
finite disparity taken from, or the median of, valid pixels found along the documented scan directions (hence within
[min, max] of the valid disparities of the map); a flagged pixel for which no valid pixel can be found stays flagged
invalid; border pixels end with bit 0 only.

Documented directions (docs/source/userguide/step_by_step/validation.rst + figures, docstrings of
pandora/validation/interpolated_disparity.py, Zbontar & LeCun 2016, Hirschmuller 2007):
  mc-cnn  occlusion : along the row, to the left until a correct pixel is found (the code then looks to the right)
          mismatch  : nearest correct pixel in 16 directions (8 principal + 8 of slope 1/2), median
  sgm     mismatch  : nearest valid pixel in the 8 principal directions, median; direct neighbours of occlusions are
                      treated as occlusions
          occlusion : one of the valid pixels found in the 8 principal directions

Open corners, all accepted:
  * WHICH candidate an occlusion takes (left/right; lowest / second lowest) is not asserted;
  * "valid" is read on the input flags, or - for the method's second pass - on the flags after its first pass
    (first-pass pixels that were filled count as valid with their new value);
  * how a direction of slope 1/2 is rasterised (truncation, floor, nearest with ties away / to even);
  * a flagged pixel may stay flagged even when a valid pixel could be found (the statement only forbids the converse);
  * the disparity of a pixel that stays flagged is not asserted.
"""
from __future__ import annotations

import functools
import math

import numpy as np

INVALID = 0b01111000011
OCC = 1 << 8
MIS = 1 << 9
FOCC = 1 << 4
FMIS = 1 << 5
BORDER = 1

# (d_row, d_col)
DIRS8 = ((0, 1), (-1, 1), (-1, 0), (-1, -1), (0, -1), (1, -1), (1, 0), (1, 1))
DIRS16 = DIRS8 + ((-0.5, 1), (-1, 0.5), (-1, -0.5), (-0.5, -1), (0.5, -1), (1, -0.5), (1, 0.5), (0.5, 1))
VARIANTS = ("trunc", "away", "floor", "even")


def _step(x: float, variant: str) -> int:
    if x == int(x):
        return int(x)
    if variant == "trunc":
        return int(x)
    if variant == "floor":
        return math.floor(x)
    if variant == "away":
        return int(math.copysign(math.floor(abs(x) + 0.5), x))
    if variant == "even":
        return int(np.rint(x))
    raise ValueError(variant)


@functools.lru_cache(maxsize=None)
def paths(shape, dirs, variant):
    """paths[(r, c)] = one list of cells per direction, from the nearest cell outwards, until the image is left"""
    nrow, ncol = shape
    out = {}
    for r in range(nrow):
        for c in range(ncol):
            plist = []
            for dr, dc in dirs:
                cells = []
                i = 1
                while True:
                    rr = r + _step(dr * i, variant)
                    cc = c + _step(dc * i, variant)
                    if rr < 0 or rr >= nrow or cc < 0 or cc >= ncol:
                        break
                    if (rr, cc) != (r, c):
                        cells.append((rr, cc))
                    i += 1
                plist.append(tuple(cells))
            out[(r, c)] = tuple(plist)
    return out


def first_valid(path_list, valid, disp):
    """value of the first valid pixel along each direction (None where the image is left first)"""
    res = []
    for cells in path_list:
        val = None
        for (rr, cc) in cells:
            if valid[rr][cc]:
                val = disp[rr][cc]
                break
        res.append(val)
    return res


def _finite(vals):
    return [float(v) for v in vals if v is not None and math.isfinite(v)]


def _median(vals):
    s = sorted(vals)
    n = len(s)
    return s[n // 2] if n % 2 else 0.5 * (s[n // 2 - 1] + s[n // 2])


def _close(a, b):
    return abs(a - b) <= 1e-6 * max(1.0, abs(a), abs(b))


def check_fill(method, din, fin, dout, fout, offset=0, trace=None, skip=None):
    """
    :param trace: optional list receiving one short outcome code per flagged pixel (behaviour signature)
    :param skip: optional set of (clause, cls) already reported by the caller (their details are not rebuilt)
    :return: list of dict(clause, cls, pixel, detail); empty when the output satisfies the statement
    """
    din = np.asarray(din)
    dout = np.asarray(dout)
    fin = np.asarray(fin).astype(np.int64)
    fout = np.asarray(fout).astype(np.int64)
    nrow, ncol = din.shape
    shape = (nrow, ncol)
    out = []

    def bad(clause, cls, pix, detail):
        if skip is not None and (clause, cls) in skip:
            out.append({"clause": clause, "cls": cls, "pixel": pix, "detail": ""})
            return
        out.append({"clause": clause, "cls": cls, "pixel": pix, "detail": detail() if callable(detail) else detail})

    if dout.shape != din.shape or fout.shape != fin.shape:
        bad("shape", "output shape", None, f"{dout.shape} / {fout.shape} for input {din.shape}")
        return out
    if dout.dtype != np.float32 or np.asarray(fout).dtype.kind not in "iu":
        bad("dtype", "output dtype", None, f"disparity {dout.dtype}")
    border = np.zeros(shape, dtype=bool)
    if offset > 0:
        border[:offset, :] = True
        border[-offset:, :] = True
        border[:, :offset] = True
        border[:, -offset:] = True
    flagged = (fin & (OCC | MIS)) != 0
    if ((fin & OCC != 0) & (fin & MIS != 0)).any():
        raise ValueError("input with both bit 8 and bit 9 on a pixel is outside the property's domain")

    # ---- pixels that may not change
    same_d = (din == dout) | (np.isnan(din) & np.isnan(dout))
    m = ~flagged & ~same_d
    if m.any():
        r, c = np.argwhere(m)[0]
        bad("untouched", "disparity of an unflagged pixel changed/" + ("valid" if fin[r, c] & INVALID == 0 else "invalid")
            + " pixel", (int(r), int(c)), f"disparity {din[r, c]} -> {dout[r, c]} with flags {fin[r, c]}")
    m = ~flagged & ~border & (fin != fout)
    if m.any():
        r, c = np.argwhere(m)[0]
        bad("untouched", "flags of an unflagged pixel changed/" + ("valid" if fin[r, c] & INVALID == 0 else "invalid")
            + " pixel", (int(r), int(c)), f"flags {fin[r, c]} -> {fout[r, c]}")
    if offset > 0:
        m = border & (fout != BORDER)
        if m.any():
            r, c = np.argwhere(m)[0]
            bad("border", "border pixel not at bit 0 only", (int(r), int(c)), f"flags {fin[r, c]} -> {fout[r, c]}")
    todo = flagged & ~border
    if not todo.any():
        return out

    # ---- validity readings
    valid_a = ((fin & INVALID) == 0)
    disp_a = din.astype(np.float64)
    first_bit, first_fill = (OCC, FOCC) if method == "mc-cnn" else (MIS, FMIS)
    filled_first = (fin & first_bit != 0) & (fout & first_fill != 0) & ((fout & INVALID) == 0) & ~border
    va, da = valid_a.tolist(), disp_a.tolist()
    states_first = [("input flags", va, da)]
    states_second = [("input flags", va, da)]
    if filled_first.any():
        valid_b = valid_a | filled_first
        disp_b = np.where(filled_first, dout.astype(np.float64), disp_a)
        states_second.append(("flags after the first pass", valid_b.tolist(), disp_b.tolist()))
        # a pixel flagged again after an earlier fill may still carry the "filled" bit of the first pass although
        # this step resolved it in the SECOND pass (sgm: a mismatch next to an occlusion becomes an occlusion):
        # when its output also carries the other "filled" bit, the pass that filled it cannot be told from the
        # flags, and the reading in which it was still invalid during the second pass is accepted too
        other_fill = FMIS if first_fill == FOCC else FOCC
        unsure = filled_first & ((fout & other_fill) != 0)
        if unsure.any():
            sure = filled_first & ~unsure
            valid_c = valid_a | sure
            disp_c = np.where(sure, dout.astype(np.float64), disp_a)
            states_second.append(("flags after the first pass, re-flagged pixels resolved in the second pass",
                                  valid_c.tolist(), disp_c.tolist()))
    vals = disp_a[valid_a]
    vals = vals[np.isfinite(vals)]
    lo, hi = (float(vals.min()), float(vals.max())) if vals.size else (None, None)
    occ_in = ((fin & OCC) != 0)
    fin_l, fout_l, dout_l = fin.tolist(), fout.tolist(), dout.astype(np.float64).tolist()

    def occlusion_candidates(r, c, states):
        """list over readings of the per-direction candidate lists"""
        if method == "mc-cnn":
            pl = (tuple((r, cc) for cc in range(c - 1, -1, -1)), tuple((r, cc) for cc in range(c + 1, ncol)))
        else:
            pl = paths(shape, DIRS8, "trunc")[(r, c)]
        return [(name, first_valid(pl, v, d)) for name, v, d in states]

    def mismatch_candidates(r, c, states):
        if method == "mc-cnn":
            return [(f"{name}, slope-1/2 steps {variant}", first_valid(paths(shape, DIRS16, variant)[(r, c)], v, d))
                    for name, v, d in states for variant in VARIANTS]
        pl = paths(shape, DIRS8, "trunc")[(r, c)]
        return [(name, first_valid(pl, v, d)) for name, v, d in states]

    def in_range(v):
        return lo is not None and lo <= v <= hi

    def zero_slots_explain(v, r, c, states):
        longest = max(nrow, ncol) - 1
        for variant in VARIANTS:
            pl = paths(shape, DIRS16, variant)[(r, c)]
            for _, valid, disp in states:
                cl = first_valid(pl, valid, disp)
                k = sum(1 for cells, x in zip(pl, cl) if x is None and len(cells) >= longest)
                if k and _close(_median(_finite(cl) + [0.0] * k), v):
                    return True
        return False

    for r, c in np.argwhere(todo).tolist():
        f0, f1, v = fin_l[r][c], fout_l[r][c], dout_l[r][c]
        kind = "occlusion" if f0 & OCC else "mismatch"
        bit = OCC if f0 & OCC else MIS
        # which treatment the observed flags correspond to
        treat = None
        if f1 == f0:
            treat = "unfilled"
        # a flag is a set of bits: "bit 8 replaced by 4" clears 8 and sets 4, whether or not 4 was already there
        # (a pixel filled by an earlier validation step and flagged again)
        elif kind == "occlusion" and f1 == (f0 & ~OCC) | FOCC:
            treat = "occ-fill"
        elif kind == "mismatch" and f1 == (f0 & ~MIS) | FMIS:
            treat = "mis-fill"
        elif kind == "mismatch" and method == "sgm" and occ_in[max(0, r - 1): r + 2, max(0, c - 1): c + 2].any():
            if f1 == (f0 & ~MIS) | OCC:
                treat = "unfilled"
            elif f1 == (f0 & ~MIS) | FOCC:
                treat = "occ-fill"
        where = (r, c, kind, f0, f1)
        if treat is None:
            bad("flags", f"{kind}/flag {bit} became {_describe(f0, f1)}", (r, c),
                f"pixel ({r},{c}) {kind} flags {f0} -> {f1}, disparity {din[r, c]} -> {dout[r, c]}")
            continue
        if treat == "unfilled":
            if trace is not None:
                trace.append(f"{kind[0]}u" + ("c" if f1 != f0 else ""))
            continue
        pass_is_first = (method == "mc-cnn") == (treat == "occ-fill")
        states = states_first if pass_is_first else states_second
        what = "occlusion" if treat == "occ-fill" else "mismatch"
        cands = occlusion_candidates(r, c, states) if treat == "occ-fill" else mismatch_candidates(r, c, states)
        fins = [_finite(cl) for _, cl in cands]
        nmax = max(len(x) for x in fins)
        if trace is not None:
            trace.append(f"{kind[0]}{what[0]}{min(nmax, 3)}")
        finite_v = math.isfinite(v)
        if finite_v and treat == "occ-fill":
            v32 = np.float32(v)
            ok = any(np.float32(x) == v32 for fl in fins for x in fl)
        elif finite_v:
            ok = any(fl and _close(_median(fl), v) for fl in fins)
        else:
            ok = False
        if ok:
            continue
        def ctx(tail="", cands=cands, where=where):
            shown = cands if len(cands) <= 2 else [cands[0], cands[len(cands) // 2]]
            return (f"pixel ({where[0]},{where[1]}) {where[2]} flags {where[3]} -> {where[4]}, disparity "
                    f"{din[where[0], where[1]]} -> {dout[where[0], where[1]]}; candidates = first valid pixel per direction (None: image left first): " + "; ".join(
                f"[{n}] {cl}" for n, cl in shown) + f"; valid disparities of the map span [{lo},{hi}]" + tail)

        several = "single valid neighbour" if nmax == 1 else "several valid neighbours"
        if not finite_v:
            if nmax == 0:
                bad("unfillable-filled", f"{what}/filled with NaN", (r, c),
                    lambda: ctx(" - no valid pixel on any direction, yet the pixel is marked filled"))
            else:
                bad("fill-finite", f"{what}/{several}", (r, c),
                    lambda: ctx(" - marked filled with a non-finite disparity"))
            continue
        if treat == "mis-fill" and method == "mc-cnn" and zero_slots_explain(v, r, c, states):
            # diagnostic of an established violation: the value is the median of the candidates plus one 0.0 for
            # every direction that reaches the last pixel of the image after max(rows, cols) - 1 steps without
            # meeting a valid pixel (slot of the 16-vector left at its initial value)
            bad("fill-value", "mismatch/median includes 0.0 entries that are no pixel's disparity", (r, c),
                lambda: ctx(" - the value is the median of the candidates and of one or more extra 0.0"))
        elif nmax == 0:
            bad("unfillable-filled", f"{what}/filled with a finite value", (r, c),
                lambda: ctx(" - no valid pixel on any direction, yet the pixel is marked filled"))
        elif treat == "occ-fill":
            bad("fill-value", "occlusion/" + ("not a candidate" if in_range(v) else "outside [min,max] of valid"),
                (r, c), ctx)
        else:
            bad("fill-value", "mismatch/" + ("not the median" if in_range(v) else "outside [min,max] of valid"),
                (r, c), lambda: ctx(f" - medians {sorted({_median(fl) for fl in fins if fl})}"))
    return out


def _describe(f0, f1):
    removed = f0 & ~f1
    added = f1 & ~f0
    return f"-{removed}+{added}"
