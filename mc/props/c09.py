"""
C09 - the requested disparity interval is honoured and does not leak into costs (DESIGN.md section 3, C09).

Differential, on the real classes (matching cost driven like the machine does, cbca through AbstractAggregation)
and on the real machine (pandora.run with per-step observers):
  nested   for one configuration the cost volume of *every* interval J inside [-lim, lim] is computed and every
           nested pair I <= J is compared: cv(I) == cv(J) restricted to I's disparities (exact, NaN-aware), after
           the matching cost and after cbca; the constant float grid of every J against the scalar J;
  grid     every single / pair of per-pixel interval deviations from a constant grid: equal to the scalar run of the
           global interval inside each pixel's own interval, NaN outside (after the matching cost);
  refine   the refinement step alone on every cost vector over {1,2,3} x every input disparity on the disparity axis
           or at a quarter position between two samples (as filters produce): refined disparity inside the interval;
  pipe     single-scale pipelines (matching cost [cbca] wta + every sequence of post-disparity steps from the menu):
           after every step every valid pixel's disparity is inside the global interval; right after the disparity
           step and after refinements also inside its own interval; disparity_interval = the interval searched.
"""
from __future__ import annotations

import hashlib
import itertools

import numpy as np

from mc.drivers import mcost as M
from mc.ref import cost as RC

ID = "C09"
LEVEL = "exploration"
BUDGET = {"quick": 300, "thorough": 3600}
CHUNK = 4
RULE = (
    "nested: one case = one configuration (measure, window, subpix, shape, mask cell, +-cbca), all intervals inside "
    "[-lim, lim] computed, one evaluation per nested pair (I, J) and per constant-grid/scalar pair; grid: one case = "
    "one grid deviation set; pipe: one case = one observed pipeline run, one evaluation per observed step and side; "
    "non-trivial = the compared volumes hold NaN and finite costs / the map holds valid and invalid pixels; "
    "distinct = distinct (configuration, volume or map digest)"
)
ASSUMPTIONS = [
    "intervals inside the image width ([-3, 3] on images at least window+2 wide); wider ones belong to C02",
    "integer-valued radiometry; monoband images; at least two rows (cbca raises 'negative dimensions' on one-row "
    "images, a degenerate shape that belongs to C11)",
    "per-pixel grids after cbca are only compared for constant grids: aggregation mixes neighbouring pixels, whose "
    "own intervals differ, so 'same costs inside the pixel's interval' is claimed for the matching cost only",
    "a pixel is valid when its validity mask has none of the PANDORA_MSK_PIXEL_INVALID bits (0,1,6,7,8,9)",
    "own-interval clause checked after the disparity step and after refinement steps that directly follow it",
    "quick tier rotates with VERIF_SEED: the measure and the mask layout over the post-disparity sequences, the "
    "(cbca, subpix) combination over the mask cells (every sequence / mask cell is run for every seed); the thorough "
    "tier runs the full products",
    "pipelines contain at most one validation step",
]

MW = [("sad", 1), ("sad", 3), ("ssd", 1), ("ssd", 3), ("census", 3), ("zncc", 1), ("zncc", 3)]
SUBPIX = [1, 2, 4]
INVALID_BITS = 0b01111000011
CBCA = {"aggregation_method": "cbca", "cbca_intensity": 30.0, "cbca_distance": 3}


# ----------------------------------------------------------------------------------------------
# spaces
# ----------------------------------------------------------------------------------------------
def _mask_options(ny, nx):
    return [(side, r, c, v) for side in ("lm", "rm") for r in range(ny) for c in range(nx) for v in (1, 2)]


GRID_DEVS = [(-1, 0), (0, 1), (0, 0), (-1, -1), (1, 1), (-2, 1), (-1, 2)]
# bounds that are no multiple of the sampling step (grids are float32 rasters: a prediction +/- a margin): off every
# axis / off the subpix 1 and 2 axes only / an interval that holds no sample at all
FRAC_DEVS = [(-0.3, 0.6), (-0.75, 0.75), (0.3, 0.4)]


def post_menu():
    from mc.drivers import pipeline as P  # pylint: disable=import-outside-toplevel

    return [("refinement", P.VFIT), ("refinement", P.QUAD), ("filter", P.MEDIAN), ("filter", P.BILATERAL),
            ("validation", P.CROSS), ("validation", P.CROSS_MCCNN), ("validation", P.CROSS_SGM)]


def post_sequences(maxlen):
    n = 7
    out = [()]
    for ln in range(1, maxlen + 1):
        for seq in itertools.product(range(n), repeat=ln):
            if sum(1 for i in seq if i >= 4) <= 1:
                out.append(seq)
    return out


def spaces(tier, seed):
    thorough = tier == "thorough"
    nested0, nested1, grid1, grid2, pipes = [], [], [], [], []
    for (m, w), s in itertools.product(MW, SUBPIX):
        for ny, nx in [(max(w, 2), w + 2), (w + 1, w + 3)]:
            for cbca in (0, 1):
                nested0.append({"kind": "nested", "m": m, "w": w, "s": s, "cbca": cbca, "lim": 3, "const": 1 - cbca,
                                "spec": {"ny": ny, "nx": nx, "seed": seed}})
                if s == 1 or thorough:
                    # a cost_volume_confidence step between the matching cost and the aggregation must leave the costs
                    # alone (its normalisation uses the global extrema of the volume, which depend on the interval)
                    for conf in ("ambiguity", "risk"):
                        nested0.append({"kind": "nested", "m": m, "w": w, "s": s, "cbca": cbca, "lim": 3, "const": 0,
                                        "conf": conf, "spec": {"ny": ny, "nx": nx, "seed": seed}})
    k = seed
    for m, w in MW:
        ny, nx = max(w, 2), w + 2
        for opt in _mask_options(ny, nx):
            k += 1
            # thorough: the full product; quick: one (cbca, subpix) combination per mask cell, rotated with the seed
            for cbca, s in (itertools.product((0, 1), SUBPIX) if thorough else [(k % 2, SUBPIX[(k // 2) % 3])]):
                sp = {"ny": ny, "nx": nx, "seed": seed, opt[0]: [[opt[1], opt[2], opt[3]]]}
                nested1.append({"kind": "nested", "m": m, "w": w, "s": s, "cbca": cbca,
                                "lim": 3 if thorough else 2, "const": 0, "spec": sp})
    for (m, w), s in itertools.product(MW, SUBPIX):
        ny, nx = max(w, 2), w + 2
        cells = [(r, c) for r in range(ny) for c in range(nx)]
        for (r, c), (mn, mx) in itertools.product(cells, GRID_DEVS + FRAC_DEVS):
            grid1.append({"kind": "grid", "m": m, "w": w, "s": s,
                          "spec": {"ny": ny, "nx": nx, "seed": seed, "dmin": -1, "dmax": 1, "grid": [[r, c, mn, mx]]}})
    pair_cfgs = list(itertools.product(MW, SUBPIX)) if thorough else [(("sad", 3), 2), (("zncc", 1), 4),
                                                                      (("census", 3), 1)]
    for (m, w), s in pair_cfgs:
        ny, nx = max(w, 2), w + 2
        cells = [(r, c) for r in range(ny) for c in range(nx)]
        devs = GRID_DEVS if (thorough and w == 1) else [(-1, 0), (0, 1), (0, 0), (-2, 1)]
        for (c1, c2) in itertools.combinations(cells, 2):
            for d1, d2 in itertools.product(devs, repeat=2):
                grid2.append({"kind": "grid", "m": m, "w": w, "s": s,
                              "spec": {"ny": ny, "nx": nx, "seed": seed, "dmin": -1, "dmax": 1,
                                       "grid": [[c1[0], c1[1], d1[0], d1[1]], [c2[0], c2[1], d2[0], d2[1]]]}})
    # tall images (more rows than an internal strip may hold) with deviations on both sides of row 512
    for (m, w), s in (((("sad", 1), 1), (("census", 3), 2), (("zncc", 3), 1)) if not thorough else
                      list(itertools.product(MW, (1, 2)))):
        grid2.append({"kind": "grid", "m": m, "w": w, "s": s,
                      "spec": {"ny": 530, "nx": w + 3, "seed": seed, "dmin": -1, "dmax": 1,
                               "grid": [[520, 2, 0, 0], [3, 1, -1, 0], [515, 1, 1, 1], [511, 2, 0, 1]]}})
    # disparity axes of more than 256 samples: the slice [30, 33] of the volume of [-33, 33] at subpix 4
    wide = [{"kind": "widepair", "m": m, "w": w, "s": 4, "outer": [-33, 33], "inner": inner,
             "spec": {"ny": w + 1, "nx": 70, "seed": seed}}
            for (m, w) in (("sad", 3), ("ssd", 1), ("census", 3), ("zncc", 3)) for inner in ([30, 33], [-33, -31], [-1, 2])]
    seqs = post_sequences(3 if thorough else 2)
    k = seed
    for seq in seqs:
        for s in (1, 2):
            for form in ("scalar", "grid"):
                for pair in ("shift", "indep"):
                    for cbca in (0, 1):
                        k += 1
                        for m, w in (MW if thorough and len(seq) <= 2 else [MW[k % len(MW)]]):
                            for lay in (("cell", "ring") if thorough else [("cell", "ring")[(k // 7) % 2]]):
                                pipes.append({"kind": "pipe", "m": m, "w": w, "s": s, "cbca": cbca, "seq": list(seq),
                                              "form": form, "pair": pair, "seed": seed, "lay": lay,
                                              "bandorder": ["minmax", "maxmin"][(k // 3) % 2],
                                              "dmin": -2 + (k % 2), "dmax": 1 + (k % 2)})
    # strips (2 or 3 rows, 14 columns) whose requested interval lies on one side of 0 and which hold a run of
    # rejected pixels much longer than the short side: a fill that invents a value (0, a stale buffer) instead of
    # taking it from a valid pixel leaves the interval
    for seq in seqs:
        if not any(i >= 5 for i in seq):
            continue  # only sequences with a filling validation
        for (a, b) in ((2, 4), (-4, -2)):
            for ny in (2, 3):
                for pair in ("shift", "indep"):
                    k += 1
                    pipes.append({"kind": "pipe", "m": "sad", "w": 1, "s": 1 + (k % 2), "cbca": 0, "seq": list(seq),
                                  "form": "scalar", "pair": pair, "seed": seed, "lay": "strip", "strip_rows": ny,
                                  "dmin": a, "dmax": b})
    pipes.sort(key=lambda c: len(c["seq"]))
    refine = [{"kind": "refine", "method": meth, "s": s, "tm": tm}
              for meth in ("vfit", "quadratic") for s in ((1, 2, 4) if thorough else (1, 2)) for tm in ("min", "max")]
    return [
        {"name": "nested intervals of [-3,3], no mask, +-cbca, constant grid vs scalar", "level": 0, "cases": nested0,
         "chunk": 1},
        {"name": "nested intervals with every single mask cell, +-cbca", "level": 1, "cases": nested1, "chunk": 2},
        {"name": "every single per-pixel interval deviation vs the scalar run", "level": 1, "cases": grid1,
         "chunk": 16},
        {"name": "refinement step alone: every cost vector x every on-grid / filtered (off-grid) input disparity",
         "level": 1, "cases": refine, "chunk": 1},
        {"name": "single-scale pipelines: every post-disparity sequence, final disparity inside the interval",
         "level": 1, "cases": pipes, "chunk": 4},
        {"name": "slices of a disparity axis longer than 256 samples ([-33, 33] at subpix 4)", "level": 1,
         "cases": wide, "chunk": 1},
        {"name": "every pair of per-pixel interval deviations vs the scalar run", "level": 2, "cases": grid2,
         "chunk": 16},
    ]


# ----------------------------------------------------------------------------------------------
# helpers
# ----------------------------------------------------------------------------------------------
def _digest(*arrays):
    h = hashlib.sha1()
    for a in arrays:
        a = np.asarray(a)
        if a.dtype.kind == "f":
            h.update(np.packbits(np.isnan(a)).tobytes())
            a = np.nan_to_num(a, nan=0.0)
        h.update(np.ascontiguousarray(a).tobytes())
    return h.hexdigest()[:12]


def compute(spec, m, w, s, cbca, conf=None):
    """-> (cv after matching cost (deep copy), cv after cbca or None) ; raises are returned as ('stage', exc)"""
    left, right, _ = M.build(spec)
    cv, err = M.class_api_staged(left, right, M.mc_cfg(m, w, s))
    if err is not None:
        return None, None, err
    if conf:
        import xarray as xr  # pylint: disable=import-outside-toplevel
        from pandora import cost_volume_confidence  # pylint: disable=import-outside-toplevel

        try:
            step = cost_volume_confidence.AbstractCostVolumeConfidence(
                **{"confidence_method": conf, "eta_max": 0.7, "eta_step": 0.1, "indicator": ""})
            _, cv = step.confidence_prediction(xr.Dataset(), left, right, cv)
        except Exception as e:  # pylint: disable=broad-except
            return cv, None, ("confidence-" + conf, e)
    after = None
    if cbca:
        from pandora import aggregation  # pylint: disable=import-outside-toplevel

        after = cv.copy(deep=True)
        try:
            aggregation.AbstractAggregation(**dict(CBCA)).cost_volume_aggregation(left, right, after)
        except Exception as e:  # pylint: disable=broad-except
            return cv, None, ("cbca", e)
    return cv, after, None


def _cmp(a, b):
    """exact NaN-aware comparison -> None | 'nan-pattern' | 'value'"""
    na, nb = np.isnan(a), np.isnan(b)
    if (na != nb).any():
        return "nan-pattern"
    if not np.array_equal(a[~na], b[~nb]):
        return "value"
    return None


def _first_diff(a, b):
    bad = ~((a == b) | (np.isnan(a) & np.isnan(b)))
    idx = np.argwhere(bad)
    return (tuple(int(x) for x in idx[0]), int(bad.sum())) if len(idx) else (None, 0)


# ----------------------------------------------------------------------------------------------
# nested intervals
# ----------------------------------------------------------------------------------------------
def run_nested(case):
    m, w, s, cbca, lim = case["m"], case["w"], case["s"], case["cbca"], case["lim"]
    viol, sigs = [], []
    n = 0
    intervals = [(a, b) for a in range(-lim, lim + 1) for b in range(a, lim + 1)]
    vols = {}
    tag = f"{m} w={w} subpix={s} cbca={cbca} spec={case['spec']}"
    for a, b in intervals:
        spec = dict(case["spec"], dmin=a, dmax=b)
        cv, agg, err = compute(spec, m, w, s, cbca, case.get("conf"))
        if err is not None:
            viol.append({"clause": "raises", "key": f"C09/raises/{err[0]}/{type(err[1]).__name__}",
                         "detail": f"{tag} interval [{a},{b}]: {err[0]} raised {err[1]!r}"})
            continue
        axis = [float(x) for x in cv.coords["disp"].data]
        if axis != RC.sampled_disparities(a, b, s):
            viol.append({"clause": "axis", "key": f"C09/axis/matching_cost/subpix{s}",
                         "detail": f"{tag} interval [{a},{b}]: disp axis {axis}"})
            continue
        vols[(a, b)] = (axis, cv["cost_volume"].data, None if agg is None else agg["cost_volume"].data,
                        cv["validity_mask"].data)
        if case.get("const"):
            # constant float32 grids must be equivalent to the scalar interval
            cvg, _, errg = compute(dict(spec, form="grid"), m, w, s, 0)
            n += 1
            if errg is not None:
                viol.append({"clause": "raises", "key": f"C09/raises/{errg[0]}/constant-grid/{type(errg[1]).__name__}",
                             "detail": f"{tag} constant grid [{a},{b}]: {errg[0]} raised {errg[1]!r}"})
            else:
                axg = [float(x) for x in cvg.coords["disp"].data]
                what = None
                if axg != axis:
                    what = "axis"
                else:
                    what = _cmp(cvg["cost_volume"].data, cv["cost_volume"].data)
                    if what is None and not np.array_equal(cvg["validity_mask"].data, cv["validity_mask"].data):
                        what = "validity-mask"
                if what:
                    viol.append({"clause": "constant-grid", "key": f"C09/constant-grid/matching_cost/{what}",
                                 "detail": f"{tag}: constant grid [{a},{b}] differs from the scalar interval ({what})"})
    for (ia, ib), (ja, jb) in itertools.product(vols, vols):
        if not (ja <= ia and ib <= jb):
            continue
        n += 1
        axis_i, cv_i, agg_i, _ = vols[(ia, ib)]
        axis_j, cv_j, agg_j, _ = vols[(ja, jb)]
        k0 = axis_j.index(axis_i[0])
        if axis_j[k0:k0 + len(axis_i)] != axis_i:
            raise AssertionError("axis of the smaller interval is not a slice of the larger one")
        for site, small, big in (("matching_cost", cv_i, cv_j), ("cbca", agg_i, agg_j)):
            if small is None:
                continue
            sl = big[:, :, k0:k0 + len(axis_i)]
            what = _cmp(small, sl)
            if what:
                cls = "different-dmin" if ia != ja else "same-dmin-different-dmax"
                pos, cnt = _first_diff(small, sl)
                viol.append({
                    "clause": "slice", "key": f"C09/slice/{site}/{what}/{cls}",
                    "detail": f"{tag}: volume of [{ia},{ib}] != slice of the volume of [{ja},{jb}] after {site}: "
                              f"(row,col,k)={pos} d={axis_i[pos[2]]}: {small[pos]} vs {sl[pos]} [{cnt} cells]"})
    full = vols.get((-lim, lim))
    if full is not None:
        vol = full[2] if cbca else full[1]
        if np.isnan(vol).any() and np.isfinite(vol).any():
            sigs.append(f"nested|{m}|{w}|{s}|{cbca}|{_digest(vol)}")
    return {"n": n, "sigs": sigs, "viol": _dedupe(viol), "trivial": 0 if sigs else 1}


def _dedupe(viol):
    seen, out = set(), []
    for v in viol:
        if v["key"] not in seen:
            seen.add(v["key"])
            out.append(v)
    return out


def run_widepair(case):
    """the volume of the inner interval equals the corresponding slice of the volume of the outer interval"""
    m, w, s = case["m"], case["w"], case["s"]
    viol = []
    vols = {}
    tag = f"{m} w={w} subpix={s} spec={case['spec']}"
    for name in ("outer", "inner"):
        a, b = case[name]
        cv, _, err = compute(dict(case["spec"], dmin=a, dmax=b), m, w, s, 0)
        if err is not None:
            viol.append({"clause": "raises", "key": f"C09/raises/{err[0]}/{type(err[1]).__name__}",
                         "detail": f"{tag} interval [{a},{b}]: {err[0]} raised {err[1]!r}"})
            return {"n": 1, "sigs": [], "viol": viol}
        vols[name] = ([float(x) for x in cv.coords["disp"].data], cv["cost_volume"].data)
    axo, vo = vols["outer"]
    axi, vi = vols["inner"]
    if any(d not in axo for d in axi):
        viol.append({"clause": "axis", "key": f"C09/axis/matching_cost/subpix{s}",
                     "detail": f"{tag}: axis of {case['inner']} not contained in the axis of {case['outer']}"})
        return {"n": 1, "sigs": [], "viol": viol}
    k0 = axo.index(axi[0])
    what = _cmp(vo[:, :, k0:k0 + len(axi)], vi)
    if what:
        pos, nbad = _first_diff(vo[:, :, k0:k0 + len(axi)], vi)
        viol.append({"clause": "slice", "key": f"C09/slice/matching_cost/{what}/long-axis",
                     "detail": f"{tag}: volume of {case['inner']} differs from the slice of the volume of "
                               f"{case['outer']} ({len(axo)} samples) at {pos} [{nbad} cells]"})
    return {"n": 1, "sigs": [f"wide|{m}|{w}|{case['inner']}|{_digest(vi)}"], "viol": viol}


# ----------------------------------------------------------------------------------------------
# per-pixel grids
# ----------------------------------------------------------------------------------------------
_SCALAR_CACHE = {}


def run_grid(case):
    m, w, s, spec = case["m"], case["w"], case["s"], case["spec"]
    viol = []
    tag = f"{m} w={w} subpix={s} spec={spec}"
    gmin, gmax, _ = M.grids(spec)
    ga, gb = int(gmin.min()), int(gmax.max())
    cvg, _, err = compute(spec, m, w, s, 0)
    if err is not None:
        viol.append({"clause": "raises", "key": f"C09/raises/{err[0]}/grid/{type(err[1]).__name__}",
                     "detail": f"{tag}: {err[0]} raised {err[1]!r}"})
        return {"n": 1, "sigs": [], "viol": viol}
    key = (m, w, s, spec["ny"], spec["nx"], spec["seed"], ga, gb)
    if key not in _SCALAR_CACHE:
        if len(_SCALAR_CACHE) > 64:
            _SCALAR_CACHE.clear()
        sspec = {"ny": spec["ny"], "nx": spec["nx"], "seed": spec["seed"], "dmin": ga, "dmax": gb}
        cvs, _, errs = compute(sspec, m, w, s, 0)
        if errs is not None:
            raise AssertionError(f"scalar run raised {errs!r}")  # interval inside the image: belongs to C02
        _SCALAR_CACHE[key] = ([float(x) for x in cvs.coords["disp"].data], cvs["cost_volume"].data.copy())
    axis, scal = _SCALAR_CACHE[key]
    axg = [float(x) for x in cvg.coords["disp"].data]
    if axg != axis:
        viol.append({"clause": "grid", "key": "C09/grid/matching_cost/axis",
                     "detail": f"{tag}: disp axis {axg} != axis of the scalar run of [{ga},{gb}] {axis}"})
        return {"n": 1, "sigs": [], "viol": viol}
    dd = np.asarray(axis)[None, None, :]
    inside = (dd >= gmin[:, :, None]) & (dd <= gmax[:, :, None])
    got = cvg["cost_volume"].data
    exp = np.where(inside, scal, np.nan)
    bad_out = ~inside & ~np.isnan(got)
    if bad_out.any():
        r, c, k = np.argwhere(bad_out)[0]
        viol.append({"clause": "grid", "key": "C09/grid/matching_cost/finite-outside-own-interval",
                     "detail": f"{tag}: pixel ({r},{c}) d={axis[k]} outside its [{gmin[r, c]},{gmax[r, c]}] has cost "
                               f"{got[r, c, k]}"})
    bad_in = inside & ~((got == exp) | (np.isnan(got) & np.isnan(exp)))
    if bad_in.any():
        r, c, k = np.argwhere(bad_in)[0]
        own = any([r, c] == cell[:2] for cell in spec["grid"])
        viol.append({"clause": "grid",
                     "key": f"C09/grid/matching_cost/differs-inside-own-interval/"
                            f"{'deviating' if own else 'other'}-pixel",
                     "detail": f"{tag}: pixel ({r},{c}) d={axis[k]} inside its interval: grid run {got[r, c, k]} scalar run "
                               f"{scal[r, c, k]} [{int(bad_in.sum())} cells]"})
    nontrivial = bool(np.isnan(got).any() and np.isfinite(got).any())
    sigs = [f"grid|{m}|{w}|{s}|{_digest(got)}"] if nontrivial else []
    return {"n": 1, "sigs": sigs, "viol": viol, "trivial": 0 if nontrivial else 1}


# ----------------------------------------------------------------------------------------------
# pipelines
# ----------------------------------------------------------------------------------------------
def build_pipe_inputs(case):
    from mc.drivers import datasets as D  # pylint: disable=import-outside-toplevel

    w = case["w"]
    ny, nx = w + 3, w + 6
    strip = case.get("lay") == "strip"
    if strip:
        ny, nx = case["strip_rows"], 14
    if strip:
        # one scene seen with a disparity of 3 columns, with a textureless band of 7 columns: the matches inside the
        # band are ambiguous, cross-checking rejects them and the filling has to fetch values from beyond the band
        scene = D.generic_image(ny, nx + 6, 0, case["seed"], 0, M.HI)
        if case["pair"] == "indep":
            scene = scene[::-1].copy()
        scene[:, 7:14] = 50
        limg, rimg = scene[:, 3:3 + nx].copy(), scene[:, 0:nx].copy()
        if case["dmin"] < 0:
            limg, rimg = rimg, limg  # the scene's disparity changes sign with the roles
    elif case["pair"] == "shift":
        limg, rimg = D.stereo_pair(ny, nx, shift=1, seed=case["seed"])
        limg, rimg = limg % 100, np.abs(rimg) % 100
    else:
        limg = D.generic_image(ny, nx, 0, case["seed"], 0, M.HI)
        rimg = D.generic_image(ny, nx, 1, case["seed"], 0, M.HI)
    a, b = case["dmin"], case["dmax"]
    lmsk = np.zeros((ny, nx), dtype=np.int16)
    rmsk = np.zeros((ny, nx), dtype=np.int16)
    # a ring of invalid left pixels around one valid pixel (a filter that lets invalid neighbours vote would move
    # that pixel to the invalid disparity) and one right nodata pixel
    if strip:
        pass  # no mask: the long runs of rejected pixels come from the textureless band
    elif case.get("lay", "ring") == "ring":
        r0, c0 = ny // 2, nx // 2 - 1
        lmsk[r0 - 1:r0 + 2, c0 - 1:c0 + 2] = 2
        lmsk[r0, c0] = 0
        rmsk[ny // 2 - 1, nx - 2 - w // 2] = 1
    else:  # "cell": one invalid left pixel, one right nodata pixel
        lmsk[ny // 2, nx // 2] = 2
        rmsk[ny // 2 - 1, nx // 2 + 1] = 1
    if case["form"] == "scalar":
        left = D.image(limg, disp=(a, b), msk=lmsk)
        right = D.image(rimg, disp=None, msk=rmsk)
        gmin = np.full((ny, nx), float(a))
        gmax = np.full((ny, nx), float(b))
    else:
        gmin = np.full((ny, nx), float(a), dtype=np.float32)
        gmax = np.full((ny, nx), float(b), dtype=np.float32)
        # deterministic per-pixel deviations (min <= max everywhere), a few pixels keep the full interval
        for r in range(ny):
            for c in range(nx):
                t = (3 * r + 5 * c + case["seed"]) % 7
                if t == 0:
                    gmin[r, c] = a + 1
                elif t == 1:
                    gmax[r, c] = b - 1
                elif t == 2:
                    gmin[r, c] = gmax[r, c] = a + 1
                elif t == 3:
                    gmin[r, c] = gmax[r, c] = b
        left = D.image(limg, disp=(gmin, gmax), msk=lmsk)
        # right grids are mandatory for cross-checking with left grids: the constant mirrored interval
        right = D.image(rimg, disp=(np.full((ny, nx), -b, dtype=np.float32), np.full((ny, nx), -a, dtype=np.float32)),
                        msk=rmsk)
    if case.get("bandorder") == "maxmin":
        # the same intervals with the two planes of the disparity variable stored as (max, min): the planes are
        # labelled by the band_disp coordinate, not by their position
        left = left.isel(band_disp=[1, 0])
        if "disparity" in right:
            right = right.isel(band_disp=[1, 0])
    return left, right, np.asarray(gmin, dtype=np.float64), np.asarray(gmax, dtype=np.float64)


def run_pipe(case):
    from mc.drivers import pipeline as P  # pylint: disable=import-outside-toplevel

    m, w, s = case["m"], case["w"], case["s"]
    menu = post_menu()
    steps = [("matching_cost", M.mc_cfg(m, w, s))]
    if case["cbca"]:
        steps.append(("aggregation", dict(CBCA)))
    steps.append(("disparity", dict(P.WTA)))
    post = [menu[i] for i in case["seq"]]
    steps += post
    pipe = P.name_steps(steps)
    left, right, gmin, gmax = build_pipe_inputs(case)
    a, b = int(gmin.min()), int(gmax.max())
    viol, sigs = [], []
    names = "+".join(f"{k}:{(c.get('refinement_method') or c.get('filter_method') or c.get('interpolated_disparity') or 'cross')}"
                     for k, c in post) or "none"
    tag = (f"{m} w={w} subpix={s} cbca={case['cbca']} {case['form']} [{a},{b}] {case['pair']}/{case.get('lay', 'ring')} "
           f"post={names}")
    obs = P.run_observed(left, right, pipe, snapshot=("disp",))
    n = 0
    prev = {}
    own_ok = True  # only disparity / refinement steps so far
    has_right = any(k == "validation" for k, _ in post)
    for rec in obs.steps:
        kind = rec["step"].split(".")[0]
        if kind in ("matching_cost", "aggregation"):
            continue
        if kind not in ("disparity", "refinement"):
            own_ok = False
        site = _site(rec["step"], pipe[rec["step"]])
        found = len(viol)
        sides = [("left", rec.get("left_disp"), a, b, gmin, gmax)]
        if has_right:
            sides.append(("right", rec.get("right_disp"), -b, -a, None, None))
        for side, ds, lo, hi, g0, g1 in sides:
            if ds is None or "disparity_map" not in ds:
                if side == "left":
                    viol.append({"clause": "final-disparity", "key": f"C09/final-disparity/{site}/no-map",
                                 "detail": f"{tag}: no {side} disparity map after {rec['step']}"})
                continue
            n += 1
            dm = ds["disparity_map"].data
            vm = ds["validity_mask"].data
            valid = (vm & INVALID_BITS) == 0
            di = [float(x) for x in ds["disparity_interval"].data]
            if di != [float(lo), float(hi)]:
                viol.append({"clause": "disparity-interval", "key": f"C09/disparity-interval/{site}",
                             "detail": f"{tag}: {side} disparity_interval {di} after {rec['step']}, searched [{lo},{hi}]"})
            nanv = valid & np.isnan(dm)
            with np.errstate(invalid="ignore"):
                outv = valid & ~np.isnan(dm) & ((dm < lo) | (dm > hi))
            for cls, msk in (("nan", nanv), ("outside", outv)):
                if msk.any():
                    r, c = np.argwhere(msk)[0]
                    fl = int(vm[r, c])
                    how = ("filled-occlusion" if fl & 16 else "filled-mismatch" if fl & 32 else "plain")
                    if kind == "refinement" and side in prev:
                        how = _grid_class(prev[side][r, c], s)
                    viol.append({
                        "clause": "final-disparity", "key": f"C09/final-disparity/{site}/{how}/{cls}",
                        "detail": f"{tag}: after {rec['step']} {side} pixel ({r},{c}) flags {fl} (valid) has disparity "
                                  f"{dm[r, c]}" + (f" (before the step: {prev[side][r, c]})" if side in prev else "")
                                  + f"; requested global interval [{lo},{hi}] [{int(msk.sum())} pixels]"})
            if own_ok and g0 is not None:
                with np.errstate(invalid="ignore"):
                    bad = valid & ~np.isnan(dm) & ((dm < g0) | (dm > g1)) & ~outv
                if bad.any():
                    r, c = np.argwhere(bad)[0]
                    key = f"C09/own-interval/{site}"
                    if kind == "refinement" and side in prev:
                        cls = _grid_class(prev[side][r, c], s)
                        # one defect, one key: a refinement fed with an off-grid disparity (a previous refinement or
                        # a filter produced it) leaves the global and the own interval for the same reason
                        key = (f"C09/final-disparity/{site}/{cls}/outside" if cls == "off-grid-input"
                               else f"C09/own-interval/{site}/{cls}")
                    viol.append({
                        "clause": "own-interval", "key": key,
                        "detail": f"{tag}: after {rec['step']} pixel ({r},{c}) flags {int(vm[r, c])} has disparity "
                                  f"{dm[r, c]}" + (f" (before the step: {prev[side][r, c]})" if side in prev else "")
                                  + f" outside its own [{g0[r, c]},{g1[r, c]}]"})
            prev[side] = dm
            if side == "left" and rec is obs.steps[-1] and obs.error is None:
                if valid.any() and (~valid).any():
                    sigs.append(f"pipe|{m}|{w}|{s}|{case['cbca']}|{case['form']}|{names}|"
                                f"{_digest(np.where(valid, dm, 0), vm)}")
        if len(viol) > found:
            break  # the later steps work on a map that already breaks the property: not attributed to them
    if obs.error is not None and not viol:
        # the steps completed before the exception were checked above; a map that already broke the property makes
        # what follows (including an exception) a consequence, so the exception is reported only on a clean prefix
        stage, exc = obs.error
        where = f"pipeline-{stage}"
        if stage == "run" and len(obs.steps) < len(pipe):
            # single scale, one observer record per executed step: the step that raised is the next one
            failing = list(pipe)[len(obs.steps)]
            where = _site(failing, pipe[failing], merge_refinement=False)
        viol.append({"clause": "raises", "key": f"C09/raises/{where}/{type(exc).__name__}",
                     "detail": f"{tag}: {stage} raised {exc!r} (no disparity map is produced)"})
    return {"n": max(n, 1), "sigs": sigs, "viol": _dedupe(viol), "trivial": 0 if sigs else 1}


def _grid_class(before, subpix):
    """was the disparity handed to the refinement a sample of the cost volume's disparity axis?"""
    before = float(before)
    return "on-grid-input" if (before * subpix) == np.floor(before * subpix) else "off-grid-input"


def _site(step, cfg, merge_refinement=True):
    """call-site part of the keys: step kind + method; both refinement methods share loop_refinement"""
    kind = step.split(".")[0]
    if kind == "refinement":
        return "refinement" if merge_refinement else "refinement-" + cfg["refinement_method"]
    if kind == "validation":
        return "validation-" + ("fill-" + cfg["interpolated_disparity"] if "interpolated_disparity" in cfg
                                else "cross-checking")
    meth = cfg.get("filter_method") or cfg.get("disparity_method") or cfg.get("aggregation_method") or cfg.get(
        "matching_cost_method")
    return f"{kind}-{meth}"


def run_refine(case):
    """
    the refinement step on synthetic volumes: each pixel = (cost vector over {1,2,3}, input disparity); input
    disparities are every sample of the disparity axis (what wta / a median filter hand over) and the quarter
    positions between two samples (what a bilateral or median filter may hand over).  Oracle: every valid pixel's
    refined disparity is inside [dmin, dmax].
    """
    from pandora import refinement  # pylint: disable=import-outside-toplevel

    from mc.drivers import datasets as D  # pylint: disable=import-outside-toplevel

    meth, s, tm = case["method"], case["s"], case["tm"]
    dmin, dmax = -1, 1
    axis = RC.sampled_disparities(dmin, dmax, s)
    nd = len(axis)
    vecs = []
    for v in itertools.product((1.0, 2.0, 3.0), repeat=nd):
        # quadratic divides by zero on a flat triple (anticipated defect A2, property C06): one such pixel aborts the
        # whole call, so flat triples are kept out of this packed image (the pipeline space meets them)
        # (the triple (v[-1], v[0], v[1]) is what the step reads for an input between the first two samples)
        if meth == "quadratic" and any(v[i - 1] == v[i] == v[i + 1] for i in range(nd - 1)):
            continue
        vecs.append(v)
    inputs = [("on", d) for d in axis] + [("off", axis[k] + f / s) for k in range(nd - 1) for f in (0.25, 0.5, 0.75)]
    pix = list(itertools.product(vecs, inputs))
    costs = np.array([p[0] for p in pix], dtype=np.float32).reshape(1, len(pix), nd)
    dmap = np.array([p[1][1] for p in pix], dtype=np.float32).reshape(1, len(pix))
    on = np.array([p[1][0] == "on" for p in pix]).reshape(1, len(pix))
    cv = D.cost_volume(costs, np.asarray(axis), type_measure=tm, subpix=s)
    disp = D.disparity(dmap, interval=[dmin, dmax], subpix=s, type_measure=tm)
    tag = f"refinement {meth} subpix={s} type_measure={tm} axis={axis}"
    viol = []
    try:
        refinement.AbstractRefinement(**{"refinement_method": meth}).subpixel_refinement(cv, disp)
    except Exception as e:  # pylint: disable=broad-except
        viol.append({"clause": "raises", "key": f"C09/raises/refinement-{meth}/{type(e).__name__}",
                     "detail": f"{tag}: {e!r}"})
        return {"n": 1, "sigs": [], "viol": viol}
    out = disp["disparity_map"].data
    valid = (disp["validity_mask"].data & INVALID_BITS) == 0
    with np.errstate(invalid="ignore"):
        outside = valid & ~np.isnan(out) & ((out < dmin) | (out > dmax))
    nanv = valid & np.isnan(out)
    for cls, msk in (("outside", outside), ("nan", nanv)):
        for grid, sel in (("on-grid-input", on), ("off-grid-input", ~on)):
            bad = msk & sel
            if bad.any():
                _, c = np.argwhere(bad)[0]
                viol.append({
                    "clause": "final-disparity", "key": f"C09/final-disparity/refinement/{grid}/{cls}",
                    "detail": f"{tag}: a valid pixel with costs {costs[0, c].tolist()} and input disparity "
                              f"{float(dmap[0, c])} is refined to {float(out[0, c])}, outside the interval "
                              f"[{dmin},{dmax}] [{int(bad.sum())} of {int(sel.sum())} {grid} pixels]"})
    moved = int((out != dmap).sum())
    return {"n": len(pix), "sigs": [f"refine|{meth}|{s}|{tm}|{_digest(out)}"] if moved else [], "viol": viol,
            "trivial": 0 if moved else len(pix)}


def run_case(case):
    if case["kind"] == "refine":
        return run_refine(case)
    if case["kind"] == "nested":
        return run_nested(case)
    if case["kind"] == "grid":
        return run_grid(case)
    if case["kind"] == "widepair":
        return run_widepair(case)
    if case["kind"] == "pipe":
        return run_pipe(case)
    raise AssertionError(case["kind"])


def init_worker():
    run_case({"kind": "grid", "m": "sad", "w": 1, "s": 1,
              "spec": {"ny": 1, "nx": 3, "seed": 0, "dmin": -1, "dmax": 1, "grid": [[0, 1, 0, 0]]}})
    run_case({"kind": "pipe", "m": "sad", "w": 1, "s": 1, "cbca": 1, "seq": [0, 2, 5], "form": "scalar",
              "pair": "shift", "seed": 0, "dmin": -2, "dmax": 1})
