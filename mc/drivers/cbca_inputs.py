"""
Inputs of the aggregation check (C11): small image pairs over a jump-rich alphabet, masks, real cost volumes computed
in the order PandoraMachine uses, and synthetic 'bitmask' cost volumes.
"""
from __future__ import annotations

import numpy as np

from mc.drivers import datasets as D

ALPHABET = np.array([0, 10, 40, 45, 80], dtype=np.float32)  # differences hit 30 (==), 5 (<5.5), 10, 35, 40 ...


def table(ny, nx, variant, seed):
    """deterministic image over ALPHABET with runs (so that arms are longer than one pixel) and jumps"""
    rng = np.random.RandomState(7919 * seed + 31 * variant + 5)
    idx = rng.randint(0, len(ALPHABET), size=(ny, nx))
    # lengthen runs: copy the left neighbour / the upper neighbour for about half of the pixels
    keep = rng.randint(0, 4, size=(ny, nx))
    for r in range(ny):
        for c in range(nx):
            if keep[r, c] == 0 and c > 0:
                idx[r, c] = idx[r, c - 1]
            elif keep[r, c] == 1 and r > 0:
                idx[r, c] = idx[r - 1, c]
    return ALPHABET[idx]


def mask_from_cells(ny, nx, cells):
    """cells: [[r, c, value], ...] (1 = nodata, 2 = invalid in the driver's convention) -> int16 mask or None"""
    if not cells:
        return None
    m = np.zeros((ny, nx), dtype=np.int16)
    for r, c, v in cells:
        m[r, c] = v
    return m


def pair(ny, nx, seed, lcells, rcells, dmin, dmax):
    left = table(ny, nx, 0, seed)
    right = table(ny, nx, 1, seed)
    lm = mask_from_cells(ny, nx, lcells)
    rm = mask_from_cells(ny, nx, rcells)
    # nodata pixels carry the nodata value, as create_dataset_from_inputs leaves them.
    # Every second pair uses another legal mask convention (attributes valid_pixels = 1, no_data_mask = 0, any
    # other value invalid) instead of the reader's 0 / 1: the datasets say which code means what
    alt = (seed + len(lcells or []) + len(rcells or [])) % 2 == 1
    attrs = {"valid_pixels": 1, "no_data_mask": 0} if alt else None
    dl = D.image(left, disp=(dmin, dmax), msk=_convention(lm, alt), attrs=attrs)
    dr = D.image(right, msk=_convention(rm, alt), attrs=attrs)
    return dl, dr, left, right, lm, rm


def _convention(m, alt):
    """driver's mask codes (0 valid, 1 nodata, 2 invalid) -> the alternative convention (1 valid, 0 nodata, 2 invalid)"""
    if m is None or not alt:
        return m
    out = m.copy()
    out[m == 0] = 1
    out[m == 1] = 0
    return out


def real_cost_volume(dl, dr, method, window, subpix):
    """matching cost exactly as matching_cost_prepare + matching_cost_run do"""
    from pandora import matching_cost  # pylint: disable=import-outside-toplevel
    from pandora.criteria import validity_mask  # pylint: disable=import-outside-toplevel

    mc_ = matching_cost.AbstractMatchingCost(
        **{"matching_cost_method": method, "window_size": window, "subpix": subpix}
    )
    dmin = dl["disparity"].sel(band_disp="min").data
    dmax = dl["disparity"].sel(band_disp="max").data
    cv = mc_.allocate_cost_volume(dl, (dmin, dmax))
    cv = validity_mask(dl, dr, cv)
    cv = mc_.compute_cost_volume(dl, dr, cv)
    mc_.cv_masked(dl, dr, cv, dmin, dmax)
    return cv


def bitmask_costs(shape, nan_mask, part, offset=0):
    """
    (row, col, disp) float32 volume: in every plane the k-th pixel of the computable area (row-major) costs
    2^(k - 24*part) when 24*part <= k < 24*(part+1) and 0 otherwise, NaN where nan_mask.
    """
    ny, nx, nd = shape
    plane = np.zeros((ny, nx), dtype=np.float32)
    k = 0
    for r in range(offset, ny - offset):
        for c in range(offset, nx - offset):
            if 24 * part <= k < 24 * (part + 1):
                plane[r, c] = np.float32(2.0 ** (k - 24 * part))
            k += 1
    vol = np.repeat(plane[:, :, None], nd, axis=2).astype(np.float32)
    vol[nan_mask] = np.nan
    return vol


def decode_bits(value, part, shape, offset=0):
    """set of (row, col) encoded by an (integer) sum of bitmask costs, or None when it is not such a sum"""
    if not np.isfinite(value) or value < 0 or value != int(value) or value >= 2 ** 24:
        return None
    ny, nx = shape
    cells = [(r, c) for r in range(offset, ny - offset) for c in range(offset, nx - offset)]
    v = int(value)
    return [cells[24 * part + b] for b in range(24) if v >> b & 1 and 24 * part + b < len(cells)]
