"""
Reference model of the matching-cost step (property C02), written from the property statement and the
user guide, not from Pandora's code.

For every pixel (r, c) and every sampled disparity d = dmin + k/subpix the cost is the configured measure
between the w x w window centred on the left pixel and the w x w window centred at column c + d of the right
image.  For a fractional c + d the right image is linearly interpolated between the two neighbouring columns
(every sample of the window is, so a fractional window reads the columns floor(c+d)-h .. floor(c+d)+1+h).

The cost is NaN exactly when it is not computable:
  * a window leaves its image (fractional: the window around either contributing column),
  * a window contains a nodata pixel (fractional: either contributing window),
  * the left or the right centre is masked invalid (fractional: either contributing centre),
  * d is outside the pixel's own [min, max].

Two implementations: `cost_volume_slow` (pure Python loops, one pixel and one disparity at a time) and
`cost_volume` (the same definitions vectorised over (disparity, row, col), loop over the window offsets).
The property modules cross-check them against each other on their smallest cases.

All arithmetic is float64.  With integer-valued radiometry below 2**10 and subpix in {1, 2, 4} every
intermediate value (interpolated samples, differences, squares, window sums) is an exact binary fraction,
so sad/ssd/census are exact and "zero variance" is an exact test.
"""
from __future__ import annotations

import math

import numpy as np

MEASURE_TYPE = {"sad": "min", "ssd": "min", "census": "min", "zncc": "max"}


def sampled_disparities(dmin: int, dmax: int, subpix: int) -> list:
    """dmin, dmin + 1/subpix, ..., dmax"""
    return [dmin + k / subpix for k in range((dmax - dmin) * subpix + 1)]


def global_interval(gmin, gmax):
    return int(np.min(gmin)), int(np.max(gmax))


def _grids(shape, gmin, gmax):
    gmin = np.broadcast_to(np.asarray(gmin, dtype=np.float64), shape)
    gmax = np.broadcast_to(np.asarray(gmax, dtype=np.float64), shape)
    return gmin, gmax


# ----------------------------------------------------------------------------------------------
# slow reference: one (pixel, disparity) at a time
# ----------------------------------------------------------------------------------------------
def _right_sample(right, r, x):
    """value of the right image at row r, (possibly fractional) column x; None if a contributing column is outside"""
    ny, nx = right.shape
    f = math.floor(x)
    t = x - f
    if r < 0 or r >= ny or f < 0 or f >= nx:
        return None
    if t == 0:
        return float(right[r, f])
    if f + 1 >= nx:
        return None
    return (1 - t) * float(right[r, f]) + t * float(right[r, f + 1])


def _measure(measure, lw, rw, lc, rc):
    """lw / rw: lists of the w*w window samples (row-major), lc / rc the centre samples"""
    n = len(lw)
    if measure == "sad":
        return sum(abs(a - b) for a, b in zip(lw, rw))
    if measure == "ssd":
        return sum((a - b) ** 2 for a, b in zip(lw, rw))
    if measure == "census":
        # census transform: one bit per window sample, set when the sample is brighter than the centre;
        # cost = number of differing bits
        return float(sum(1 for a, b in zip(lw, rw) if (a > lc) != (b > rc)))
    if measure == "zncc":
        sl, sr = sum(lw), sum(rw)
        vl = n * sum(a * a for a in lw) - sl * sl
        vr = n * sum(b * b for b in rw) - sr * sr
        if vl <= 0 or vr <= 0:
            return 0.0
        return (n * sum(a * b for a, b in zip(lw, rw)) - sl * sr) / math.sqrt(vl * vr)
    raise ValueError(measure)


def cost_volume_slow(left, right, measure, w, subpix, gmin, gmax, lmsk=None, rmsk=None, valid=0, nodata=1):
    """(ny, nx, nd) float64 expected costs and the list of sampled disparities"""
    left = np.asarray(left, dtype=np.float64)
    right = np.asarray(right, dtype=np.float64)
    ny, nx = left.shape
    gmin, gmax = _grids((ny, nx), gmin, gmax)
    dmin, dmax = global_interval(gmin, gmax)
    disps = sampled_disparities(dmin, dmax, subpix)
    h = w // 2
    out = np.full((ny, nx, len(disps)), np.nan)

    def is_nodata(msk, r, c):
        return msk is not None and msk[r, c] == nodata

    def is_invalid(msk, r, c):
        return msk is not None and msk[r, c] != nodata and msk[r, c] != valid

    for r in range(ny):
        for c in range(nx):
            for k, d in enumerate(disps):
                if d < gmin[r, c] or d > gmax[r, c]:
                    continue
                x = c + d
                f = math.floor(x)
                centres = [f] if x == f else [f, f + 1]
                ok = True
                lw, rw = [], []
                for dr in range(-h, h + 1):
                    for dc in range(-h, h + 1):
                        r2, c2 = r + dr, c + dc
                        if r2 < 0 or r2 >= ny or c2 < 0 or c2 >= nx:
                            ok = False  # left window leaves the left image
                            continue
                        if is_nodata(lmsk, r2, c2):
                            ok = False
                        v = _right_sample(right, r2, x + dc)
                        if v is None:
                            ok = False  # right window leaves the right image
                            continue
                        for q in centres:
                            if is_nodata(rmsk, r2, q + dc):
                                ok = False
                        lw.append(float(left[r2, c2]))
                        rw.append(v)
                if not ok:
                    continue
                if is_invalid(lmsk, r, c) or any(is_invalid(rmsk, r, q) for q in centres):
                    continue
                out[r, c, k] = _measure(measure, lw, rw, float(left[r, c]), _right_sample(right, r, x))
    return out, disps


# ----------------------------------------------------------------------------------------------
# vectorised twin
# ----------------------------------------------------------------------------------------------
def cost_volume(left, right, measure, w, subpix, gmin, gmax, lmsk=None, rmsk=None, valid=0, nodata=1):
    """same contract as cost_volume_slow"""
    left = np.asarray(left, dtype=np.float64)
    right = np.asarray(right, dtype=np.float64)
    ny, nx = left.shape
    gmin, gmax = _grids((ny, nx), gmin, gmax)
    dmin, dmax = global_interval(gmin, gmax)
    disps = sampled_disparities(dmin, dmax, subpix)
    nd = len(disps)
    h = w // 2
    dd = np.asarray(disps, dtype=np.float64)[:, None, None]
    rr = np.arange(ny)[None, :, None]
    cc = np.arange(nx)[None, None, :]
    shape = (nd, ny, nx)

    ok = np.broadcast_to((dd >= gmin[None]) & (dd <= gmax[None]), shape).copy()
    xx = np.broadcast_to(cc + dd, shape)
    ff = np.floor(xx).astype(np.int64)
    tt = xx - ff
    frac = tt > 0

    lno = None if lmsk is None else (np.asarray(lmsk) == nodata)
    rno = None if rmsk is None else (np.asarray(rmsk) == nodata)
    linv = None if lmsk is None else ((np.asarray(lmsk) != nodata) & (np.asarray(lmsk) != valid))
    rinv = None if rmsk is None else ((np.asarray(rmsk) != nodata) & (np.asarray(rmsk) != valid))

    def take(arr, r_idx, c_idx, inside):
        """arr[r_idx, c_idx] where inside, 0 elsewhere (broadcast to `shape`)"""
        r_b = np.broadcast_to(np.clip(r_idx, 0, ny - 1), shape)
        c_b = np.broadcast_to(np.clip(c_idx, 0, nx - 1), shape)
        return np.where(inside, arr[r_b, c_b], 0)

    def right_at(dr, dc):
        """interpolated right sample at (r+dr, c+d+dc), inside flag, nodata flag"""
        r2 = rr + dr
        c0 = ff + dc
        c1 = c0 + 1
        in0 = np.broadcast_to((r2 >= 0) & (r2 < ny), shape) & (c0 >= 0) & (c0 < nx)
        in1 = in0 & (c1 < nx)
        inside = np.where(frac, in1, in0)
        v0 = take(right, r2, c0, in0)
        v1 = take(right, r2, c1, in1)
        val = np.where(frac, (1 - tt) * v0 + tt * v1, v0)
        nod = np.zeros(shape, dtype=bool)
        if rno is not None:
            nod = take(rno, r2, c0, in0).astype(bool) | (frac & take(rno, r2, c1, in1).astype(bool))
        return val, inside, nod

    lws, rws = [], []
    for dr in range(-h, h + 1):
        for dc in range(-h, h + 1):
            r2 = rr + dr
            c2 = cc + dc
            in_l = np.broadcast_to((r2 >= 0) & (r2 < ny) & (c2 >= 0) & (c2 < nx), shape)
            ok &= in_l
            if lno is not None:
                ok &= ~take(lno, r2, c2, in_l).astype(bool)
            rv, in_r, r_nod = right_at(dr, dc)
            ok &= in_r & ~r_nod
            lws.append(take(left, r2, c2, in_l).astype(np.float64))
            rws.append(rv)
    if linv is not None:
        ok &= ~np.broadcast_to(linv[None], shape)
    if rinv is not None:
        in0 = (ff >= 0) & (ff < nx)
        in1 = in0 & (ff + 1 < nx)
        ok &= ~(take(rinv, rr, ff, in0).astype(bool) | (frac & take(rinv, rr, ff + 1, in1).astype(bool)))

    lw = np.stack(lws)
    rw = np.stack(rws)
    n = w * w
    if measure == "sad":
        cost = np.abs(lw - rw).sum(axis=0)
    elif measure == "ssd":
        cost = ((lw - rw) ** 2).sum(axis=0)
    elif measure == "census":
        lc = lw[n // 2]
        rc = rw[n // 2]
        cost = ((lw > lc[None]) != (rw > rc[None])).sum(axis=0).astype(np.float64)
    elif measure == "zncc":
        sl, sr = lw.sum(axis=0), rw.sum(axis=0)
        vl = n * (lw * lw).sum(axis=0) - sl * sl
        vr = n * (rw * rw).sum(axis=0) - sr * sr
        num = n * (lw * rw).sum(axis=0) - sl * sr
        flat = (vl <= 0) | (vr <= 0)
        with np.errstate(invalid="ignore", divide="ignore"):
            cost = np.where(flat, 0.0, num / np.sqrt(np.where(flat, 1.0, vl * vr)))
    else:
        raise ValueError(measure)
    cost = np.where(ok, cost, np.nan)
    return np.ascontiguousarray(np.moveaxis(cost, 0, 2)), disps


def cost_bound(left, right, measure, w):
    """largest cost the measure can take on images with these dynamic ranges"""
    if measure == "census":
        return float(w * w)
    if measure == "zncc":
        return 1.0
    left = np.asarray(left, dtype=np.float64)
    right = np.asarray(right, dtype=np.float64)
    diff = max(abs(left.max() - right.min()), abs(right.max() - left.min()))
    return float((diff if measure == "sad" else diff * diff) * w * w)
