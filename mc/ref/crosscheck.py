"""
Reference model of the cross-checking step (property C07) - a direct transcription of the statement:

    a previously valid left pixel p stays unflagged  <=>  q = p + round(dL(p)) lies in the right image
                                                         and |dL(p) + dR(q)| <= threshold
    otherwise: mismatch (bit 9) when some integer d of the interval has p + d inside the row and
               round(dR(p + d)) = -d, occlusion (bit 8) when none does; never both;
    pixels already invalid are not re-examined; no disparity is modified;
    the band confidence_from_left_right_consistency holds |dL(p) + dR(q)|; border pixels = bit 0 only.

What the statement leaves open and how it is handled here
  * `round` of an exact .5: three usual meanings (half to even, half away from zero, half up).  The model is
    parameterised by the mode used for q (`mq`) and the mode used in the mismatch search (`ms`).  A caller must
    find ONE pair (mq, ms) that explains a whole map: `round` is a function of the disparity only, so a result
    that needs different modes at different columns is not covered by the open corner.
  * a pixel whose correspondent is outside the image (or whose disparity is NaN): the statement sends it through
    the same occlusion/mismatch decision, the code comment says "are occlusions"; both are accepted
    (`flag_alt`), "unflagged" is not.
  * the confidence value is asserted only where p was valid, q is inside and both disparities are finite.

`row_model` is the boring per-row loop, `stack_model` its vectorised twin (cross-checked by the property module).
"""
from __future__ import annotations

import math

import numpy as np

INVALID = 0b01111000011
OCC = 1 << 8
MIS = 1 << 9
BORDER = 1

MODES = ("even", "away", "up")


def round_scalar(x: float, mode: str) -> int:
    """round a finite float to an integer under the given half-way rule"""
    f = math.floor(x)
    r = x - f
    if r != 0.5:
        return int(f) if r < 0.5 else int(f) + 1
    if mode == "even":
        return int(f) if int(f) % 2 == 0 else int(f) + 1
    if mode == "away":
        return int(f) + 1 if x > 0 else int(f)
    if mode == "up":
        return int(f) + 1
    raise ValueError(mode)


def round_array(x: np.ndarray, mode: str) -> np.ndarray:
    """vectorised `round_scalar` on float64 (non-finite entries are returned unchanged)"""
    x = np.asarray(x, dtype=np.float64)
    with np.errstate(invalid="ignore"):
        if mode == "even":
            return np.rint(x)
        if mode == "away":
            return np.sign(x) * np.floor(np.abs(x) + 0.5)
        if mode == "up":
            return np.floor(x + 0.5)
    raise ValueError(mode)


def row_model(dl, dr, fl, thr, dmin, dmax, mq="even", ms="even"):
    """
    one row, plain loops.
    :return: (flags, flags_alt, conf) lists; conf[p] is None where the value is not asserted
    """
    n = len(dl)
    flags = [int(f) for f in fl]
    alt = list(flags)
    conf = [None] * n
    for p in range(n):
        if flags[p] & INVALID:
            continue  # not re-examined
        d = float(dl[p])
        inside = False
        consistent = False
        if math.isfinite(d):
            q = p + round_scalar(d, mq)
            if 0 <= q < n:
                inside = True
                r = float(dr[q])
                if math.isfinite(r):
                    s = abs(d + r)
                    conf[p] = s
                    consistent = s <= thr
        if inside and consistent:
            continue
        mismatch = False
        for k in range(int(dmin), int(dmax) + 1):
            if 0 <= p + k < n:
                r = float(dr[p + k])
                if math.isfinite(r) and round_scalar(r, ms) == -k:
                    mismatch = True
                    break
        flags[p] += MIS if mismatch else OCC
        alt[p] += (MIS if mismatch else OCC) if inside else OCC
    return flags, alt, conf


def stack_model(dl, dr, fl, thr, dmin, dmax, mq="even", ms="even", offset=0):
    """
    rows stacked in one map (rows are independent in the statement).
    :return: dict(flags, flags_alt, conf, conf_asserted, cls) ; cls = per-pixel class code
             0 already invalid, 1 consistent, 2 occlusion, 3 mismatch, 4 correspondent outside (occlusion),
             5 correspondent outside (mismatch candidate exists), 6 border
    """
    dl = np.asarray(dl, dtype=np.float64)
    dr = np.asarray(dr, dtype=np.float64)
    fl = np.asarray(fl).astype(np.int64)
    n = dl.shape[1]
    cols = np.arange(n)[None, :]
    valid = (fl & INVALID) == 0
    fin = np.isfinite(dl)
    q = cols + np.where(fin, round_array(np.where(fin, dl, 0.0), mq), -10.0 * n - 10)
    inside = valid & fin & (q >= 0) & (q < n)
    qi = np.clip(q, 0, n - 1).astype(np.int64)
    drq = np.take_along_axis(dr, qi, axis=1)
    with np.errstate(invalid="ignore"):
        s = np.abs(dl + drq)
        consistent = inside & np.isfinite(drq) & (s <= thr)
    flagged = valid & ~consistent
    mismatch = np.zeros(dl.shape, dtype=bool)
    rdr = round_array(dr, ms)
    for k in range(int(dmin), int(dmax) + 1):
        lo, hi = max(0, -k), min(n, n - k)  # columns p with 0 <= p + k < n
        if lo >= hi:
            continue
        with np.errstate(invalid="ignore"):
            mismatch[:, lo:hi] |= rdr[:, lo + k: hi + k] == -k
    flags = fl + np.where(flagged, np.where(mismatch, MIS, OCC), 0)
    alt = fl + np.where(flagged, np.where(mismatch & inside, MIS, OCC), 0)
    conf_asserted = inside & np.isfinite(drq)
    cls = np.zeros(dl.shape, dtype=np.int8)
    cls[valid & consistent] = 1
    cls[flagged & inside & ~mismatch] = 2
    cls[flagged & inside & mismatch] = 3
    cls[flagged & ~inside & ~mismatch] = 4
    cls[flagged & ~inside & mismatch] = 5
    if offset > 0:
        b = np.zeros(dl.shape, dtype=bool)
        b[:offset, :] = True
        b[-offset:, :] = True
        b[:, :offset] = True
        b[:, -offset:] = True
        flags = np.where(b, BORDER, flags)
        alt = np.where(b, BORDER, alt)
        cls[b] = 6
        conf_asserted = conf_asserted & ~b
    with np.errstate(invalid="ignore"):
        # float32 (code) vs float64 (here) may disagree only in an open neighbourhood of the threshold
        ambiguous = inside & np.isfinite(drq) & (s != thr) & (np.abs(s - thr) < 1e-5)
    return {"flags": flags, "flags_alt": alt, "conf": s, "conf_asserted": conf_asserted, "cls": cls,
            "q": q, "inside": inside, "mismatch": mismatch, "valid": valid, "ambiguous": ambiguous}
