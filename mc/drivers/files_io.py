"""
Tiny GeoTIFFs and JSON configurations in a per-process scratch directory (used by C16 and C19).

The scratch root is made with ``tempfile.mkdtemp(prefix="mcverif_<pid>_")`` on first use and removed when the
process ends (atexit for ordinary interpreters and spawned workers, ``multiprocessing.util.Finalize`` for pool
workers that leave through multiprocessing's own exit path).  Every case works in its own sub-directory
(``case_dir()`` context manager) that is removed when the case ends, so even a worker killed by SIGTERM leaves at
most an empty directory behind; ``sweep_stale()`` (called when a root is created and by the property modules'
``finalize``) removes roots whose owning process is gone.

No path produced here may be put into a signature or a violation key: use ``scrub()`` on any text that may hold one.
"""
from __future__ import annotations

import atexit
import contextlib
import json
import os
import shutil
import tempfile

import numpy as np

PREFIX = "mcverif_"
_ROOT = None
_ROOT_PID = None
_COUNTER = 0

CRS_WKT = "EPSG:32631"
TRANSFORM = (0.5, 0.0, 358000.0, 0.0, -0.5, 4650000.0)  # a, b, c, d, e, f (north-up, 0.5 m pixels)


def _remove_root() -> None:
    global _ROOT  # pylint: disable=global-statement
    if _ROOT is not None and _ROOT_PID == os.getpid():
        shutil.rmtree(_ROOT, ignore_errors=True)
        _ROOT = None


def _pid_alive(pid: int) -> bool:
    try:
        os.kill(pid, 0)
    except ProcessLookupError:
        return False
    except PermissionError:
        return True
    return True


def sweep_stale() -> int:
    """remove scratch roots left by processes that no longer exist (killed workers); returns how many"""
    tmp = tempfile.gettempdir()
    n = 0
    try:
        names = sorted(os.listdir(tmp))
    except OSError:
        return 0
    for name in names:
        if not name.startswith(PREFIX):
            continue
        parts = name[len(PREFIX):].split("_")
        try:
            pid = int(parts[0])
        except ValueError:
            continue
        if pid != os.getpid() and not _pid_alive(pid):
            shutil.rmtree(os.path.join(tmp, name), ignore_errors=True)
            n += 1
    return n


def root() -> str:
    """the scratch directory of this process (created on first use, removed at exit)"""
    global _ROOT, _ROOT_PID  # pylint: disable=global-statement
    if _ROOT is None or _ROOT_PID != os.getpid():
        sweep_stale()
        _ROOT = tempfile.mkdtemp(prefix=f"{PREFIX}{os.getpid()}_")
        _ROOT_PID = os.getpid()
        atexit.register(_remove_root)
        try:
            from multiprocessing import util  # pylint: disable=import-outside-toplevel

            util.Finalize(None, _remove_root, exitpriority=0)
        except Exception:  # pylint: disable=broad-except
            pass
    return _ROOT


@contextlib.contextmanager
def case_dir():
    """a fresh sub-directory of the scratch root, removed on exit of the with-block"""
    global _COUNTER  # pylint: disable=global-statement
    _COUNTER += 1
    path = os.path.join(root(), f"c{_COUNTER}")
    os.makedirs(path)
    try:
        yield path
    finally:
        shutil.rmtree(path, ignore_errors=True)


def scrub(text) -> str:
    """replace any scratch path in a text by a fixed token (details of violations must be reproducible)"""
    text = str(text)
    if _ROOT:
        import re  # pylint: disable=import-outside-toplevel

        text = re.sub(re.escape(_ROOT) + r"/c\d+", "<scratch>", text)
        text = text.replace(_ROOT, "<scratch>")
    return text


def write_tif(path, data, dtype=None, descriptions=None, nodata=None, georef=False, crs=None, transform=None) -> str:
    """
    :param data: (row, col) or (band, row, col) array
    :param dtype: numpy dtype name of the file (default: dtype of data)
    :param descriptions: band descriptions (None: leave unset)
    :param nodata: value of the GDAL nodata tag (None: no tag); Pandora does not read it
    :param georef: True -> CRS_WKT / TRANSFORM unless crs/transform are given
    """
    import warnings  # pylint: disable=import-outside-toplevel

    import rasterio  # pylint: disable=import-outside-toplevel
    from rasterio.transform import Affine  # pylint: disable=import-outside-toplevel

    arr = np.asarray(data)
    if arr.ndim == 2:
        arr = arr[None]
    dtype = np.dtype(dtype) if dtype is not None else arr.dtype
    arr = arr.astype(dtype)
    kw = {}
    if georef or crs is not None:
        kw["crs"] = crs if crs is not None else CRS_WKT
        kw["transform"] = Affine(*(transform if transform is not None else TRANSFORM))
    if nodata is not None:
        kw["nodata"] = nodata
    with warnings.catch_warnings():
        warnings.simplefilter("ignore")
        with rasterio.open(path, "w", driver="GTiff", width=arr.shape[2], height=arr.shape[1], count=arr.shape[0],
                           dtype=dtype.name, **kw) as dst:
            dst.write(arr)
            if descriptions is not None:
                dst.descriptions = tuple(descriptions)
    return path


def read_tif(path) -> dict:
    """everything C19 compares: samples (band, row, col), dtype, descriptions, crs, transform"""
    import warnings  # pylint: disable=import-outside-toplevel

    import rasterio  # pylint: disable=import-outside-toplevel

    with warnings.catch_warnings():
        warnings.simplefilter("ignore")
        with rasterio.open(path) as src:
            return {
                "data": src.read(),
                "dtypes": tuple(src.dtypes),
                "descriptions": tuple(src.descriptions),
                "crs": src.crs.to_wkt() if src.crs is not None else None,
                "transform": tuple(src.transform)[:6],
                "count": src.count,
            }


def write_json(path, obj) -> str:
    """JSON file; NaN/inf are written the way Pandora's documentation spells them ("NaN", "inf", "-inf")"""

    def conv(x):
        if isinstance(x, dict):
            return {k: conv(v) for k, v in x.items()}
        if isinstance(x, (list, tuple)):
            return [conv(v) for v in x]
        if isinstance(x, float):
            if x != x:  # pylint: disable=comparison-with-itself
                return "NaN"
            if x == float("inf"):
                return "inf"
            if x == float("-inf"):
                return "-inf"
        return x

    with open(path, "w", encoding="utf8") as f:
        json.dump(conv(obj), f, indent=1)
    return path


def listing(path) -> list:
    """sorted relative paths of all files below `path`"""
    out = []
    for dirpath, dirnames, filenames in os.walk(path):
        dirnames.sort()
        for fn in sorted(filenames):
            out.append(os.path.relpath(os.path.join(dirpath, fn), path))
    return sorted(out)
