"""
C02 - the cost volume holds the configured measure, NaN exactly where it is not computable (DESIGN.md section 3).

Enumerated on the real classes, in the order the machine uses them
(AbstractMatchingCost -> allocate_cost_volume -> criteria.validity_mask -> compute_cost_volume -> cv_masked):
  level 0  every measure x window x subpix x shape x interval, intervals partly and wholly outside the image
           included; every image pair over {0,1,2} on the 1x2 shape (window 1) and, for window 3, image pairs whose
           columns follow a de Bruijn sequence so that every 3x3 window over the alphabet occurs (ties of the census
           comparison, zero-variance windows of zncc);
  level 1  2-band images x selected band x right band order; every single {left,right} x {nodata,invalid} mask cell;
           every single per-pixel interval deviation; a few configurations through the real PandoraMachine
           (pandora.run with a per-step observer), left and right (cross-checking) volumes;
  level 2  every pair of mask cells / of grid deviations on the smallest shape.
Oracle: mc/ref/cost.py (written from the statement): exact for sad/ssd/census (integer radiometry), |.| <= 1e-5 for
zncc; identical NaN pattern; disp axis = dmin + k/subpix; type_measure / cmax match the measure.
"""
from __future__ import annotations

import hashlib
import itertools

import numpy as np

from mc.drivers import mcost as M
from mc.ref import cost as RC

ID = "C02"
LEVEL = "exploration"
BUDGET = {"quick": 300, "thorough": 3600}
CHUNK = 24
RULE = (
    "one case = one cost-volume computation (measure, window, subpix, shape, interval/grid, masks, bands) on the real "
    "classes, or one packed alphabet image, or one run of the real machine; a case is non-trivial when its volume "
    "holds both NaN and finite costs; distinct = distinct (configuration, NaN pattern, values) digests"
)
ASSUMPTIONS = [
    "integer-valued radiometry in [0, 99] (exact float32 arithmetic for sad/ssd/census and for 1/2, 1/4 pixel "
    "interpolation); zncc compared with |difference| <= 1e-5 against a float64 reference",
    "images at least one window large; integer-valued interval bounds; per-pixel grids with min <= max (the input "
    "checks refuse the others)",
    "nodata is declared through the msk variable (the conversion of nodata samples into msk belongs to C16)",
    "window 3 alphabet images enumerate every single 3x3 window over the alphabet (de Bruijn columns), not every pair "
    "of windows; window 5 is covered by generic radiometry only",
    "quick tier: intervals of length <= 3 anywhere in [-(cols+1), cols+1] plus every interval inside the part of the "
    "axis where some cost is computable; thorough tier: every interval of [-(cols+1), cols+1]",
    "cmax is checked as an upper bound of every finite cost that does not exceed the largest value the measure can "
    "take for the dynamic ranges of the selected bands (= w*w for census, 1 for zncc)",
]

MW = [("sad", 1), ("sad", 3), ("sad", 5), ("ssd", 1), ("ssd", 3), ("ssd", 5), ("census", 3), ("census", 5),
      ("zncc", 1), ("zncc", 3), ("zncc", 5)]
SUBPIX = [1, 2, 4]
ZNCC_ATOL = 1e-5

R_INTERVAL, R_LWIN, R_RWIN, R_LNODATA, R_RNODATA, R_LINV, R_RINV = 1, 2, 4, 8, 16, 32, 64
REASON_NAMES = [(R_INTERVAL, "outside-interval"), (R_LWIN, "left-window-leaves-image"),
                (R_RWIN, "right-window-leaves-image"), (R_LNODATA, "left-window-nodata"),
                (R_RNODATA, "right-window-nodata"), (R_LINV, "left-centre-invalid"), (R_RINV, "right-centre-invalid")]


# ----------------------------------------------------------------------------------------------
# spaces
# ----------------------------------------------------------------------------------------------
def _origin(k):
    return [0, 0] if k % 3 else [2, 3]


def _intervals(cols, w, tier):
    lim = cols + 1
    h = w // 2
    inner = max(cols - 1 - 2 * h, 0)
    out = []
    for a in range(-lim, lim + 1):
        for b in range(a, lim + 1):
            if tier == "thorough" or b - a <= 2 or (-inner <= a and b <= inner):
                out.append((a, b))
    # simplest first: short intervals close to 0
    out.sort(key=lambda ab: (ab[1] - ab[0], max(abs(ab[0]), abs(ab[1])), ab))
    return out


def _shapes(w, tier):
    if tier == "quick":
        return [(w, w + 1), (w + 1, w + 3)]
    return [(w + dr, w + dc) for dr in (0, 1, 2) for dc in (1, 2, 3, 4)]


def _cells_shape(w):
    return w + 1, w + 2


def spaces(tier, seed):
    thorough = tier == "thorough"
    k = seed
    lvl0 = []
    for (m, w), s in itertools.product(MW, SUBPIX):
        for ny, nx in _shapes(w, tier):
            for a, b in _intervals(nx, w, tier):
                # thorough: three generic radiometry tables per seed (DESIGN), quick: one
                for table in ([seed, seed + 10, seed + 20] if thorough else [seed]):
                    k += 1
                    lvl0.append({"kind": "one", "m": m, "w": w, "s": s,
                                 "spec": {"ny": ny, "nx": nx, "dmin": a, "dmax": b, "seed": table,
                                          "origin": _origin(k)}})
    # 12-bit radiometry (bright weakly textured 3000..3297, and full range 0..3960): window statistics whose sums
    # exceed 2^24; subpix 1 only (at subpix 2 the interpolated float32 samples already differ from a float64
    # reference by 1e-3 on such values, which is not a defect)
    hi12 = []
    for m, w in (("zncc", 3), ("zncc", 5), ("sad", 3), ("census", 3)):
        for ny, nx in ((w + 2, w + 4), (w + 9, w + 3)):
            for gain, offset in ((3, 3000), (40, 0)):
                for a, b in ((-2, 2), (0, 1)):
                    k += 1
                    hi12.append({"kind": "one", "m": m, "w": w, "s": 1,
                                 "spec": {"ny": ny, "nx": nx, "dmin": a, "dmax": b, "seed": seed, "gain": gain,
                                          "offset": offset, "origin": _origin(k)}})
    # reflectance-like radiometry: the same integer samples scaled by 2^-20 (exact in float32, so the measure is
    # bit-for-bit the one of the unscaled pair): a correlation must not depend on the radiometric unit
    for w in (3, 5):
        for s in SUBPIX:
            for ny, nx in ((w + 2, w + 4), (w + 9, w + 3)):
                k += 1
                hi12.append({"kind": "one", "m": "zncc", "w": w, "s": s,
                             "spec": {"ny": ny, "nx": nx, "dmin": -2, "dmax": 1, "seed": seed, "gain": 2.0 ** -20,
                                      "offset": 0, "origin": _origin(k)}})
    # bright and nearly flat radiometry (level 20000, texture of a dozen grey levels: window std / level ~ 2e-4):
    # a textured window is not a zero-variance window
    for w in (3, 5):
        for s in (1,):  # subpix 1: see the 12-bit note above
            k += 1
            hi12.append({"kind": "one", "m": "zncc", "w": w, "s": s,
                         "spec": {"ny": w + 4, "nx": w + 5, "dmin": -1, "dmax": 2, "seed": seed, "gain": 0.125,
                                  "offset": 20000, "origin": _origin(k)}})
    # scale instances (one per accumulation the implementation may keep in float32): a 12-bit weakly textured line of
    # 1300 columns and 16-bit strips of 420 columns / 300 rows - running sums of window statistics along a row or a
    # column exceed 2^24 long before the far end, where the float64 reference must still be met
    scale = []
    for w, ny, nx, gain, offset in ((5, 7, 1300, 3, 3000), (3, 5, 420, 600, 0), (5, 300, 9, 3, 60000),
                                    (3, 300, 7, 600, 0)):
        scale.append({"kind": "one", "m": "zncc", "w": w, "s": 1,
                      "spec": {"ny": ny, "nx": nx, "dmin": -1, "dmax": 1, "seed": seed, "gain": gain,
                               "offset": offset, "origin": [0, 0]}})
    # order by interval length over the whole product (simplest first)
    lvl0.sort(key=lambda c: (c["spec"]["dmax"] - c["spec"]["dmin"]))

    alpha = []
    for m in ("sad", "ssd", "zncc"):
        for s in SUBPIX:
            alpha.append({"kind": "all1x2", "m": m, "w": 1, "s": s, "na": 3})
            if thorough:
                alpha.append({"kind": "all1x3", "m": m, "w": 1, "s": s, "na": 3})
    for m in ("sad", "ssd", "census", "zncc"):
        for s in SUBPIX:
            for a, b in [(-2, 2)] + ([(-1, 3), (-4, 0)] if thorough else []):
                alpha.append({"kind": "debruijn", "m": m, "w": 3, "s": s, "na": 3, "dmin": a, "dmax": b,
                              "rot": 1 + 7 * seed})
    if thorough:
        for m in ("census", "zncc"):
            alpha.append({"kind": "debruijn", "m": m, "w": 3, "s": 2, "na": 4, "dmin": -1, "dmax": 1,
                          "rot": 5 + 11 * seed})

    bands = []
    for (m, w), s in itertools.product(MW, SUBPIX):
        for ny, nx in ([(w + 1, w + 3)] if not thorough else [(w, w + 2), (w + 1, w + 3)]):
            for band in ("r", "g"):
                for rswap in (0, 1):
                    for form in ("scalar", "grid"):
                        if form == "grid" and (rswap or not thorough) and band == "r":
                            continue
                        k += 1
                        bands.append({"kind": "one", "m": m, "w": w, "s": s,
                                      "spec": {"ny": ny, "nx": nx, "dmin": -2, "dmax": 1, "seed": seed, "bands": 2,
                                               "band": band, "rswap": rswap, "form": form, "origin": _origin(k)}})

    mask1, grid1 = [], []
    for ((m, w), s), big in itertools.product(itertools.product(MW, SUBPIX), ([0, 1] if thorough else [0])):
        ny, nx = _cells_shape(w)
        if big:  # thorough: a second, larger shape with a wider interval
            if w == 5:
                continue
            ny, nx = w + 2, w + 4
        base = {"ny": ny, "nx": nx, "dmin": -2 - big, "dmax": 2, "seed": seed}
        for side in ("lmsk", "rmsk", "both"):
            sp = dict(base)
            sp["lmsk"] = side in ("lmsk", "both")
            sp["rmsk"] = side in ("rmsk", "both")
            mask1.append({"kind": "one", "m": m, "w": w, "s": s, "spec": sp})
        for side in ("lm", "rm"):
            for r in range(ny):
                for c in range(nx):
                    # 1 = nodata, every other non-zero code = invalid: also codes that equal 0 or 1 modulo 256 (the
                    # mask is an int16 raster)
                    for v in (1, 2, (256, 257, -255)[(r + c) % 3]):
                        k += 1
                        sp = dict(base)
                        sp[side] = [[r, c, v]]
                        sp["origin"] = _origin(k)
                        mask1.append({"kind": "one", "m": m, "w": w, "s": s, "spec": sp})
        # integer bounds, and bounds that are not on the 1/subpix grid (float grids are legal inputs)
        devs = [(-1, 2), (-2 - big, 1), (0, 0), (-1.5, 1.25), (-0.6, 0.6)] + (
            [(-2 - big, -2 - big), (2, 2), (-1.75, -0.25)] if thorough else [])
        for r in range(ny):
            for c in range(nx):
                for mn, mx in devs:
                    k += 1
                    sp = dict(base)
                    sp["grid"] = [[r, c, mn, mx]]
                    sp["origin"] = _origin(k)
                    grid1.append({"kind": "one", "m": m, "w": w, "s": s, "spec": sp})

    machine = []
    for (m, w), s in itertools.product(MW, SUBPIX):
        for cross in (0, 1):
            for nb in (1, 2):
                if nb == 2 and cross and not thorough:
                    continue
                machine.append({"kind": "machine", "m": m, "w": w, "s": s, "cross": cross,
                                "spec": {"ny": w + 1, "nx": w + 3, "dmin": -2, "dmax": 1, "seed": seed, "bands": nb,
                                         "band": "g" if nb == 2 else None, "rswap": 1,
                                         "lm": [[w // 2, w // 2 + 1, 1]], "rm": [[w // 2, w // 2 + 2, 2]]}})

    # level 2: pairs on the smallest shape (w, w+1) ; quick = one configuration per window, thorough = all
    mask2, grid2 = [], []
    cfgs2 = list(itertools.product(MW, SUBPIX)) if thorough else [(("sad", 3), 2), (("census", 3), 4), (("zncc", 1), 2)]
    for (m, w), s in cfgs2:
        if w == 5 and not (thorough and s == 2 and m in ("sad", "census")):
            continue
        ny, nx = w, w + 1
        base = {"ny": ny, "nx": nx, "dmin": -1, "dmax": 1, "seed": seed}
        opts = [(side, r, c, v) for side in ("lm", "rm") for r in range(ny) for c in range(nx) for v in (1, 2)]
        if w == 5:  # 120 options -> 7140 pairs: keep the pairs that involve the two central rows
            opts = [o for o in opts if o[1] in (2,)]
        for o1, o2 in itertools.combinations(opts, 2):
            if o1[:3] == o2[:3]:
                continue  # same cell of the same image twice
            sp = dict(base)
            for side, r, c, v in (o1, o2):
                sp.setdefault(side, [])
                sp[side] = sp[side] + [[r, c, v]]
            mask2.append({"kind": "one", "m": m, "w": w, "s": s, "spec": sp})
        if w == 5:
            continue
        gopts = [(r, c, mn, mx) for r in range(ny) for c in range(nx) for mn, mx in [(0, 1), (-1, 0), (0, 0), (1, 1)]]
        for o1, o2 in itertools.combinations(gopts, 2):
            if o1[:2] == o2[:2]:
                continue
            sp = dict(base)
            sp["grid"] = [list(o1), list(o2)]
            grid2.append({"kind": "one", "m": m, "w": w, "s": s, "spec": sp})

    return [
        {"name": "measure x window x subpix x shape x interval (mono, no mask)", "level": 0, "cases": lvl0},
        {"name": "radiometric scale: 12-bit (bright weakly textured / full range, subpix 1) and reflectance-like 2^-20 (zncc, subpix 1/2/4)", "level": 1, "cases": hi12},
        {"name": "scale: zncc on long 12-bit lines (1300 columns) and 16-bit strips (420 columns, 300 rows)", "level": 1,
         "cases": scale, "chunk": 1},
        {"name": "alphabet images: all 1x2 pairs (w=1), de Bruijn columns (w=3)", "level": 0, "cases": alpha,
         "chunk": 1},
        {"name": "2-band images x selected band x right band order x scalar/constant grid", "level": 1, "cases": bands},
        {"name": "every single left/right nodata/invalid mask cell", "level": 1, "cases": mask1},
        {"name": "every single per-pixel interval deviation", "level": 1, "cases": grid1},
        {"name": "real machine (pandora.run observed), left and right volumes", "level": 1, "cases": machine,
         "chunk": 4},
        {"name": "every pair of mask cells (smallest shape)", "level": 2, "cases": mask2},
        {"name": "every pair of per-pixel interval deviations (smallest shape)", "level": 2, "cases": grid2},
    ]


# ----------------------------------------------------------------------------------------------
# oracle
# ----------------------------------------------------------------------------------------------
def reasons(info, w, subpix, disps):
    """why a cell is expected to be NaN: bit mask per (row, col, disp), from the definitions of the statement"""
    ny, nx = info["L"].shape
    h = w // 2
    nd = len(disps)
    out = np.zeros((ny, nx, nd), dtype=np.int32)
    lm, rm = info["lmsk"], info["rmsk"]
    for k, d in enumerate(disps):
        for r in range(ny):
            for c in range(nx):
                bits = 0
                if d < info["gmin"][r, c] or d > info["gmax"][r, c]:
                    bits |= R_INTERVAL
                if r - h < 0 or r + h >= ny or c - h < 0 or c + h >= nx:
                    bits |= R_LWIN
                x = c + d
                f = int(np.floor(x))
                cols = [f] if x == f else [f, f + 1]
                if r - h < 0 or r + h >= ny or cols[0] - h < 0 or cols[-1] + h >= nx:
                    bits |= R_RWIN
                for dr in range(-h, h + 1):
                    for dc in range(-h, h + 1):
                        r2 = r + dr
                        if lm is not None and 0 <= r2 < ny and 0 <= c + dc < nx and lm[r2, c + dc] == 1:
                            bits |= R_LNODATA
                        for q in cols:
                            if rm is not None and 0 <= r2 < ny and 0 <= q + dc < nx and rm[r2, q + dc] == 1:
                                bits |= R_RNODATA
                if lm is not None and lm[r, c] not in (0, 1):
                    bits |= R_LINV
                for q in cols:
                    if rm is not None and 0 <= q < nx and rm[r, q] not in (0, 1):
                        bits |= R_RINV
                out[r, c, k] = bits
    return out


def _reason_name(bits):
    """first applicable reason in the order of REASON_NAMES (one key per defect, not per combination of reasons)"""
    names = [n for b, n in REASON_NAMES if bits & b]
    return names[0] if names else "computable"


def judge(tag, m, w, s, info, cv, viol, site="class-api", cross_check_slow=False):
    """compare one Pandora cost volume dataset with the reference; append violations; return (nontrivial, digest)"""

    def bad(clause, cls, detail):
        viol.append({"clause": clause, "key": f"C02/{clause}/{site}/{cls}", "detail": f"{tag}: {detail}"})

    exp, disps = RC.cost_volume(info["L"], info["R"], m, w, s, info["gmin"], info["gmax"], info["lmsk"], info["rmsk"])
    if cross_check_slow:
        slow, _ = RC.cost_volume_slow(info["L"], info["R"], m, w, s, info["gmin"], info["gmax"], info["lmsk"],
                                      info["rmsk"])
        if not np.allclose(slow, exp, rtol=0, atol=1e-12, equal_nan=True):
            raise AssertionError("reference models disagree")  # harness bug, never a verdict
    got = cv["cost_volume"].data
    axis = [float(x) for x in cv.coords["disp"].data]
    if axis != [float(x) for x in disps]:
        bad("disp-axis", f"subpix{s}", f"disp coordinate {axis} != sampled disparities {disps}")
        return False, "axis"
    if got.shape != exp.shape:
        bad("shape", m, f"cost volume shape {got.shape} != {exp.shape}")
        return False, "shape"
    if got.dtype != np.float32:
        bad("dtype", m, f"cost volume dtype {got.dtype}")
    if list(cv["cost_volume"].dims) != ["row", "col", "disp"]:
        bad("dims", m, f"cost volume dims {cv['cost_volume'].dims}")
    nan_e, nan_g = np.isnan(exp), np.isnan(got)
    frac = np.array([float(d) != np.floor(d) for d in disps])
    if (nan_e != nan_g).any():
        why = reasons(info, w, s, disps)
        seen = set()
        for r, c, k in np.argwhere(nan_e != nan_g):
            kind = "finite-where-not-computable" if nan_e[r, c, k] else "nan-where-computable"
            cls = f"{kind}/{_reason_name(int(why[r, c, k]))}/{'fractional' if frac[k] else 'integer'}-disparity"
            if cls in seen:
                continue
            seen.add(cls)
            bad("nan-rule", cls, f"pixel ({r},{c}) d={disps[k]}: expected {exp[r, c, k]} got {got[r, c, k]} "
                f"[{int((nan_e != nan_g).sum())} cells differ]")
    both = ~nan_e & ~nan_g
    if m == "zncc":
        diff = both & ~(np.abs(np.where(both, exp - got, 0.0)) <= ZNCC_ATOL)
    else:
        e32 = exp.astype(np.float32)
        if not np.array_equal(e32.astype(np.float64)[~nan_e], exp[~nan_e]):
            raise AssertionError("expected cost not representable in float32: radiometry range too large")
        diff = both & (e32 != got)
    if diff.any():
        seen = set()
        for r, c, k in np.argwhere(diff):
            cls = f"{m}/{'fractional' if frac[k] else 'integer'}-disparity"
            if cls in seen:
                continue
            seen.add(cls)
            bad("value", cls, f"pixel ({r},{c}) d={disps[k]}: expected {exp[r, c, k]!r} got {float(got[r, c, k])!r} "
                f"[{int(diff.sum())} cells differ]")
    tm = cv.attrs.get("type_measure")
    if tm != RC.MEASURE_TYPE[m]:
        bad("type-measure", m, f"type_measure {tm!r}, expected {RC.MEASURE_TYPE[m]!r}")
    cmax = cv.attrs.get("cmax")
    bound = RC.cost_bound(info["L"], info["R"], m, w)
    fin = got[~nan_g]
    if cmax is None or not np.isfinite(cmax):
        bad("cmax", m, f"cmax {cmax!r}")
    else:
        if fin.size and float(np.max(np.abs(fin))) > float(cmax) + (1e-5 if m == "zncc" else 0):
            bad("cmax", f"{m}/exceeded", f"finite cost {float(np.max(np.abs(fin)))} exceeds cmax {cmax}")
        if m in ("census", "zncc") and float(cmax) != bound:
            bad("cmax", f"{m}/value", f"cmax {cmax} != {bound}")
        if m in ("sad", "ssd") and float(cmax) > bound:
            bad("cmax", f"{m}/loose", f"cmax {cmax} exceeds the largest possible {m} cost {bound} of the selected bands")
    nontrivial = bool(nan_g.any() and (~nan_g).any())
    h = hashlib.sha1()
    h.update(np.packbits(nan_g).tobytes())
    h.update(np.nan_to_num(got, nan=0.0).round(4).tobytes())
    return nontrivial, h.hexdigest()[:12]


def _beyond(spec, w):
    """the requested axis contains a disparity at which no pixel has both windows inside the images"""
    nx = spec["nx"]
    return max(abs(spec["dmin"]), abs(spec["dmax"])) > nx - 1 - 2 * (w // 2)


def classify_exception(stage, exc, spec, w, s=1):
    if isinstance(exc, ValueError) and stage == "compute_cost_volume" and _beyond(spec, w):
        return "raises", f"{stage}/disparity-plane-wholly-outside-image"
    if isinstance(exc, AttributeError) and stage == "compute_cost_volume" and spec.get("bands", 1) > 1 and s > 1:
        return "raises", f"{stage}/multiband-image-with-subpix"
    if stage == "cv_masked" and _beyond(spec, w):
        return "raises", f"{stage}/disparity-plane-wholly-outside-image/{type(exc).__name__}"
    return "raises", f"{stage}/{type(exc).__name__}"


def _one(case, viol, sigs):
    m, w, s, spec = case["m"], case["w"], case["s"], case["spec"]
    left, right, info = M.build(spec)
    tag = f"{m} w={w} subpix={s} spec={_short(spec)}"
    cv, err = M.class_api_staged(left, right, M.mc_cfg(m, w, s, info["band"]))
    if err is not None:
        clause, cls = classify_exception(err[0], err[1], spec, w, s)
        viol.append({"clause": clause, "key": f"C02/{clause}/{cls}",
                     "detail": f"{tag}: {err[0]} raised {type(err[1]).__name__}: {str(err[1])[:200]}; the statement gives every "
                               f"(pixel, sampled disparity) a cost or NaN"})
        return 1
    ny, nx = spec["ny"], spec["nx"]
    nd = (spec["dmax"] - spec["dmin"]) * s + 1
    nontrivial, dig = judge(tag, m, w, s, info, cv, viol, cross_check_slow=(ny * nx * nd * w * w <= 2500))
    r0, c0 = spec.get("origin", (0, 0))
    if list(cv.coords["row"].data) != list(range(r0, r0 + ny)) or list(cv.coords["col"].data) != list(
            range(c0, c0 + nx)):
        viol.append({"clause": "coords", "key": "C02/coords/class-api/row-col",
                     "detail": f"{tag}: row/col coordinates of the cost volume differ from the image's"})
    if nontrivial:
        sigs.append(f"{m}|{w}|{s}|{ny}x{nx}|{spec.get('bands', 1)}{spec.get('band')}|{dig}")
        return 0
    return 1


def _short(spec):
    return {k: v for k, v in spec.items() if v not in (None, False, [])}


def de_bruijn(k, n):
    """de Bruijn sequence B(k, n) (Lyndon-word construction), as a list of symbols 0..k-1"""
    a = [0] * k * n
    seq = []

    def db(t, p):
        if t > n:
            if n % p == 0:
                seq.extend(a[1:p + 1])
        else:
            a[t] = a[t - p]
            db(t + 1, p)
            for j in range(a[t - p] + 1, k):
                a[t] = j
                db(t + 1, t)

    db(1, 1)
    return seq


_DB_CACHE = {}


def _debruijn_image(na, w, rot):
    """3 x N images whose columns (as base-na numbers) follow B(na**w, w): every w x w window over the alphabet occurs"""
    key = (na, w)
    if key not in _DB_CACHE:
        import sys  # pylint: disable=import-outside-toplevel

        sys.setrecursionlimit(max(sys.getrecursionlimit(), 10000))
        seq = de_bruijn(na ** w, w)
        seq = seq + seq[: w - 1]
        cols = np.array(seq)
        img = np.stack([(cols // (na ** i)) % na for i in range(w)]).astype(np.float32)
        _DB_CACHE[key] = img
    left = _DB_CACHE[key]
    n = left.shape[1]
    # right image: the same multiset of windows, rotated and row-reversed, so that the pairs change with `rot`
    right = np.roll(left[::-1], rot % n, axis=1).copy()
    return left, right


def _windows_covered(img, w):
    nx = img.shape[1]
    seen = set()
    for c in range(nx - w + 1):
        seen.add(img[:, c:c + w].astype(np.int8).tobytes())
    return len(seen)


def run_case(case):
    viol, sigs = [], []
    kind = case["kind"]
    if kind == "one":
        triv = _one(case, viol, sigs)
        return {"n": 1, "sigs": sigs, "viol": _narrow(viol, case), "trivial": triv}
    m, w, s = case["m"], case["w"], case["s"]
    if kind in ("all1x2", "all1x3"):
        nx = 2 if kind == "all1x2" else 3
        na = case["na"]
        n = 0
        triv = 0
        imgs = list(itertools.product(range(na), repeat=nx))
        for li in imgs:
            for ri in imgs:
                sub = {"kind": "one", "m": m, "w": w, "s": s,
                       "spec": {"ny": 1, "nx": nx, "dmin": -1, "dmax": 1, "tab": {"l": [list(li)], "r": [list(ri)]}}}
                v1 = []
                triv += _one(sub, v1, sigs)
                viol += _narrow(v1, sub)
                n += 1
        return {"n": n, "sigs": sigs, "viol": viol[:8], "trivial": triv}
    if kind == "debruijn":
        na = case["na"]
        limg, rimg = _debruijn_image(na, w, case["rot"])
        if _windows_covered(limg, w) != na ** (w * w):
            raise AssertionError("de Bruijn image does not cover every window")
        ny, nx = limg.shape
        spec = {"ny": ny, "nx": nx, "dmin": case["dmin"], "dmax": case["dmax"]}
        left, right, info = M.build(dict(spec, tab={"l": limg.tolist(), "r": rimg.tolist()}))
        tag = f"{m} w={w} subpix={s} de Bruijn image {ny}x{nx} over {na} symbols rot={case['rot']} {spec}"
        cv, err = M.class_api_staged(left, right, M.mc_cfg(m, w, s))
        if err is not None:
            viol.append({"clause": "raises", "key": f"C02/raises/{err[0]}/{type(err[1]).__name__}",
                         "detail": f"{tag}: {err[0]} raised {err[1]!r}"})
            return {"n": 1, "sigs": [], "viol": viol}
        nontrivial, dig = judge(tag, m, w, s, info, cv, viol)
        # every window counts as one evaluated window pair per disparity
        return {"n": 1, "sigs": [f"db|{m}|{s}|{na}|{dig}"] if nontrivial else [], "viol": viol[:8],
                "trivial": 0 if nontrivial else 1}
    if kind == "machine":
        return _machine(case)
    raise AssertionError(kind)


def _narrow(viol, case):
    """attach the minimal self-contained case to each violation (family cases carry many evaluations)"""
    return [dict(v, case=case) for v in viol[:8]]


def _machine(case):
    from mc.drivers import pipeline as P  # pylint: disable=import-outside-toplevel

    m, w, s, spec = case["m"], case["w"], case["s"], case["spec"]
    viol, sigs = [], []
    left, right, info = M.build(spec, right_disp=False)
    cfg = M.mc_cfg(m, w, s, info["band"])
    pipe = {"matching_cost": cfg}
    if case["cross"]:
        pipe["disparity"] = dict(P.WTA)
        pipe["validation"] = dict(P.CROSS)
    tag = f"machine {m} w={w} subpix={s} cross={case['cross']} spec={_short(spec)}"
    obs = P.run_observed(left, right, pipe, snapshot=("cv",))
    if obs.error is not None:
        key = f"C02/raises/machine-{obs.error[0]}/{type(obs.error[1]).__name__}"
        if obs.error[0] == "run" and "band_im" in str(obs.error[1]):
            # same defect as at the class API (the machine calls the same compute_cost_volume)
            key = "C02/" + "/".join(classify_exception("compute_cost_volume", obs.error[1], spec, w, s))
        viol.append({"clause": "raises", "key": key, "detail": f"{tag}: {obs.error[0]} raised {obs.error[1]!r}"})
        return {"n": 1, "sigs": [], "viol": viol}
    recs = [r for r in obs.steps if r["step"] == "matching_cost"]
    if len(recs) != 1 or recs[0]["left_cv"] is None:
        viol.append({"clause": "machine", "key": "C02/machine/no-cost-volume",
                     "detail": f"{tag}: matching_cost executed {len(recs)} times / no left_cv"})
        return {"n": 1, "sigs": [], "viol": viol}
    lcv = recs[0]["left_cv"]
    nontrivial, dig = judge(tag + " left", m, w, s, info, lcv, viol, site="machine-left")
    # the machine's volume is the class-API volume
    left2, right2, _ = M.build(spec)
    cv2, err = M.class_api_staged(left2, right2, cfg)
    if err is None:
        if not np.array_equal(cv2["cost_volume"].data, lcv["cost_volume"].data, equal_nan=True) or not np.array_equal(
                cv2["validity_mask"].data, lcv["validity_mask"].data):
            viol.append({"clause": "machine", "key": "C02/machine/differs-from-class-api",
                         "detail": f"{tag}: the machine's cost volume differs from the class-API one"})
    n = 1
    if case["cross"]:
        rcv = recs[0]["right_cv"]
        if rcv is None:
            viol.append({"clause": "machine", "key": "C02/machine/no-right-volume",
                         "detail": f"{tag}: cross-checking configured but no right cost volume"})
        else:
            rinfo = {"L": info["R"], "R": info["L"], "lmsk": info["rmsk"], "rmsk": info["lmsk"],
                     "gmin": -info["gmax"], "gmax": -info["gmin"], "band": info["band"]}
            judge(tag + " right", m, w, s, rinfo, rcv, viol, site="machine-right")
            n += 1
    if nontrivial:
        sigs.append(f"machine|{m}|{w}|{s}|{case['cross']}|{spec.get('bands', 1)}|{dig}")
    return {"n": n, "sigs": sigs, "viol": viol[:8], "trivial": 0 if nontrivial else 1}


def init_worker():
    run_case({"kind": "one", "m": "sad", "w": 1, "s": 2, "spec": {"ny": 1, "nx": 2, "dmin": 0, "dmax": 0, "seed": 0}})
