"""
The documented Pandora machine (docs/source/userguide/sequencing.rst), written as a boring automaton,
plus the documented run semantics (per-scale loop) producing the expected execution log.
Independent of pandora/state_machine.py on purpose.
"""
from __future__ import annotations

KINDS = [
    "matching_cost",
    "aggregation",
    "optimization",
    "semantic_segmentation",
    "cost_volume_confidence",
    "disparity",
    "filter",
    "refinement",
    "validation",
    "multiscale",
]

DELTA = {
    ("begin", "matching_cost"): "cost_volume",
    ("cost_volume", "aggregation"): "cost_volume",
    ("cost_volume", "optimization"): "cost_volume",
    ("cost_volume", "semantic_segmentation"): "cost_volume",
    ("cost_volume", "cost_volume_confidence"): "cost_volume",
    ("cost_volume", "disparity"): "disp_map",
    ("disp_map", "filter"): "disp_map",
    ("disp_map", "refinement"): "disp_map",
    ("disp_map", "validation"): "disp_map",
    ("disp_map", "multiscale"): "disp_map",  # checking phase; at run time it loops back to begin on coarse scales
}


def kind_of(step_name: str) -> str:
    return step_name.split(".")[0]


def accepts(kinds) -> bool:
    """every prefix of a path is a path (the machine has no final-state requirement)"""
    state = "begin"
    for k in kinds:
        state = DELTA.get((state, k))
        if state is None:
            return False
    return True


def final_state(kinds):
    state = "begin"
    for k in kinds:
        state = DELTA.get((state, k))
        if state is None:
            return None
    return state


def accepted_sequences(max_len):
    """all accepted kind sequences of length <= max_len, shortest first, in KINDS order"""
    out = [()]
    frontier = [((), "begin")]
    for _ in range(max_len):
        nxt = []
        for seq, st in frontier:
            for k in KINDS:
                d = DELTA.get((st, k))
                if d is not None:
                    nxt.append((seq + (k,), d))
        out += [s for s, _ in nxt]
        frontier = nxt
    return out


def expected_run_log(step_names, num_scales: int, has_validation: bool):
    """
    Documented run semantics: scales are processed from the coarsest (index num_scales-1) to 0; on every
    scale the configured steps execute once each, in order; a multiscale step on a scale that is not the
    last ends that scale (steps after it are skipped), on the last scale it has no effect.
    Returns a list of (step_name, scale, side) with side in "L","R" (R only with a validation step).
    """
    log = []
    for scale in range(num_scales - 1, -1, -1):
        for name in step_names:
            if kind_of(name) == "multiscale":
                if scale > 0:
                    log.append((name, scale, "L"))
                    if has_validation:
                        log.append((name, scale, "R"))
                    break
                continue
            log.append((name, scale, "L"))
            if has_validation:
                log.append((name, scale, "R"))
    return log
