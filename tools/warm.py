"""warm the numba cache of the tree under check (import + one tiny run of each lazily compiled kernel)"""
import os
import sys
import time

sys.path.insert(0, os.path.dirname(os.path.dirname(os.path.abspath(__file__))))
from mc.engine import core  # noqa: E402

t = time.time()
core.setup_env()
import pandora  # noqa: E402,F401

core.assert_tree()
print(f"pandora imported from {os.path.dirname(pandora.__file__)} in {time.time() - t:.1f}s, cache {os.environ['NUMBA_CACHE_DIR']}")
try:
    from mc.drivers import warm  # noqa: E402

    warm.run_all()
    print(f"kernels warmed in {time.time() - t:.1f}s")
except ImportError:
    pass
