#!/usr/bin/env python3
"""Regenerates /verif/MANIFEST.json from the table below (single source of truth), then validates it."""
import json
import os
import subprocess

HERE = os.path.dirname(os.path.dirname(os.path.abspath(__file__)))

# id -> (category, technique, text, note, engine)
CHECKS = {
    "C03": (
        "exploration",
        "bounded exhaustive enumeration of per-pixel cost vectors and block-straddling shapes on the real WTA step, "
        "compared with an unblocked per-pixel reference model",
        "Every cost vector over {NaN,0,1,2(,3)} of length 1..4(5) as a 1x1 volume and position-coded in volumes of "
        "every shape of a grid around the 100-pixel block boundaries, x min/max x 4 invalid_disparity values, "
        "executed on WinnerTakesAll.to_disp and compared cell by cell with a reference; cost volume, flags and "
        "confidence bands compared bit for bit before/after.",
        "Trusted: the 20-line reference model; interval membership is observed through NaN costs; shapes <= 250.",
        "E1",
    ),
    "C01": (
        "model_checking",
        "TLA+ model of the documented machine checked exhaustively by TLC; every terminal state of the TLC graph "
        "(= every maximal behaviour) replayed on PandoraMachine/pandora.run with call spies; plus explicit-state "
        "enumeration of all step sequences, suffix namings and check/run histories on the real machine against an "
        "independent automaton (three-way agreement)",
        "TLC enumerates every reachable state of the documented machine (MaxLen 4/5, MaxScales 3) and checks its "
        "invariants; every behaviour is replayed against the implementation (verdict, execution log with scale, side "
        "and argument roles, idle end state). All 11 111 (quick) / 1 111 111 (thorough) step sequences, all suffix "
        "namings, single invalid method/parameter, depth-12 merged BFS and all check/run words of length <= 3 on one "
        "machine are executed on the real code.",
        "Trusted: the TLA+ model and the 15-line Python automaton transcribe sequencing.rst (they must agree with each "
        "other, else exit 2); optimisation/segmentation are identity stubs; observation by class-level spies.",
        "E3",
    ),
    "C15": (
        "exploration",
        "bounded exhaustive enumeration of shapes x scales x factors x intervals and single/paired departures; every "
        "case is a real pandora.run observed step by step and compared with a reference model of the pyramid",
        "Every image shape 8..13 (26..29 for factor^levels 9) x num_scales {2,3} x scale_factor {2,3} x user intervals, "
        "and every single / pair of departures (marge, 2 bands, masked pixel, window, measure, steps before/after, "
        "validation) is run through the real per-scale loop; per level the image size, the sampled/computable "
        "disparities, every pixel's searched interval and the untouched inputs are compared with the statement.",
        "Trusted: reference model of the statement; instance-level callback wrappers; degenerate pyramids (coarsest "
        "image smaller than window+2) skipped; non-divisible user intervals accept both roundings.",
        "E1",
    ),
    "C18": (
        "exploration",
        "iteration-schedule exploration of the numba prange kernels from their Python source (all permutations of "
        "outer iterations + read/write conflict detection = partial-order argument), bit-exact conformance of the "
        "compiled kernels under 6 thread counts, process matrix over threading configurations, exhaustive two-machine "
        "check/run histories",
        "For each of the 9 prange kernels every enumerated tiny input is executed under every outer-iteration "
        "permutation with tracked arrays: no cell may be written by two iterations or written by one and read by "
        "another (so all schedules are equivalent), all orders must agree bit for bit and the compiled kernel must "
        "return the same for 1,2,3,4,8,16 threads. Whole pipelines are compared across separate processes (threads x "
        "layer x parallel switch) and across every word of check/run operations on two machines; inputs are compared "
        "before/after every run.",
        "Trusted: numba runs prange iterations as independent units (native interleavings are not driven); OpenMP / "
        "workqueue runtimes; kernel inputs limited to the enumerated alphabets.",
        "E4",
    ),
}

PENDING_REASON = "check not built yet (work in progress in this session; see DESIGN.md section 7 for the build order)"


def main():
    props = [json.loads(l) for l in open(os.path.join(HERE, "properties.jsonl"), encoding="utf8")]
    checks = []
    na = []
    for p in props:
        pid = p["id"]
        if pid not in CHECKS:
            na.append({"property_id": pid, "reason": PENDING_REASON})
            continue
        cat, tech, text, note, engine = CHECKS[pid]
        checks.append({
            "property_id": pid,
            "quick_cmd": f"cd /verif && ./check {pid} --tier quick",
            "thorough_cmd": f"cd /verif && ./check {pid} --tier thorough",
            "evidence_file": f"/verif/evidence/{pid}.json",
            "replay_cmd_template": f"cd /verif && ./check {pid} --replay {{path}}",
            "engine": engine,
            "level_claimed": {"category": cat, "text": text, "design_ref": f"DESIGN.md section 3, {pid}"},
            "level_note": note,
            "technique": tech,
        })
    manifest = {
        "version": 1,
        "setup_cmd": "cd /verif && ./setup.sh",
        "hooks": {
            "guard": "PANDORA_VERIF",
            "enable": "no source hook is needed: checks observe through public plug-in registries, instance-level "
                      "wrappers and numba's .py_func; PANDORA_VERIF is reserved and unused",
            "baseline_off_cmd": "cd /repo && /venv/bin/python -m pytest -ra -q -p no:cacheprovider --timeout=900 "
                                "--continue-on-collection-errors",
            "source_commits": [],
            "add_only": True,
        },
        "engines": [
            {"name": "E1", "path": "/verif/mc/engine/core.py", "kind_free_text":
                "small-scope exhaustive input explorer over the real code with reference models",
             "serves_properties": sorted(k for k, v in CHECKS.items() if v[4] == "E1")},
            {"name": "E2", "path": "/verif/mc/engine/bfs.py", "kind_free_text":
                "explicit-state BFS over operation histories replayed on fresh real objects",
             "serves_properties": sorted(k for k, v in CHECKS.items() if v[4] == "E2")},
            {"name": "E3", "path": "/verif/models/PandoraMachine.tla", "kind_free_text":
                "TLA+ model checked by TLC, every behaviour replayed against the implementation",
             "serves_properties": sorted(k for k, v in CHECKS.items() if v[4] == "E3")},
            {"name": "E4", "path": "/verif/mc/engine/sched.py", "kind_free_text":
                "iteration-schedule explorer for numba prange kernels (conflict detection + order enumeration)",
             "serves_properties": sorted(k for k, v in CHECKS.items() if v[4] == "E4")},
        ],
        "checks": checks,
        "not_applicable": na,
        "notes": "All checks: exit 0 held / 1 VIOLATION / 2 harness error. VERIF_SEED rotates generic radiometry and "
                 "shard order only; spaces are enumerated completely (evidence.coverage.exhaustive) unless cap_hit.",
    }
    path = os.path.join(HERE, "MANIFEST.json")
    with open(path, "w", encoding="utf8") as f:
        json.dump(manifest, f, indent=1)
    script = ("import json,jsonschema;jsonschema.validate(json.load(open('%s')),"
              "json.load(open('/root/.vp/MANIFEST.schema.json')));print('MANIFEST valid')" % path)
    subprocess.run(["python3-vt", "-c", script], check=True)


if __name__ == "__main__":
    main()
