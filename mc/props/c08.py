"""
C08 - right-image products equal the left products of the mirrored problem (DESIGN.md section 3, C08).

Differential over whole runs of the real `pandora.run`:

  mirror   run A = (L, R, [a, b]) and run B = (R, L, [-b, -a]) with the same pipeline (one that contains a
           validation step).  "Mirrored" = the two image datasets are exchanged, each keeping its own mask; the
           images are NOT flipped left-right; the interval is negated and swapped; with per-pixel grids the
           right grids are supplied and simply travel with their image.  Oracle: right_A == left_B and
           left_A == right_B for disparity_map, validity_mask, confidence_measure (band names, order, values),
           exact and NaN-aware.  No hand-written expected value.
  noval    the same pipelines without a validation step: the right dataset returned by run() must be empty;
           and with a fill-less cross-check appended: the left disparity map must be bit-identical.

On a mismatch the two runs are repeated with per-step observers and the violation is keyed by the first step
whose products differ, so that one defect maps to one key whatever the rest of the pipeline is.
"""
from __future__ import annotations

import numpy as np

from mc.drivers import datasets as D
from mc.drivers import framing as F
from mc.drivers import legal
from mc.drivers import pipeline as P

ID = "C08"
LEVEL = "exploration"
BUDGET = {"quick": 300, "thorough": 3600}
CHUNK = 6
RULE = (
    "level 0: pipeline [matching cost, wta, cross-check] x every matching-cost configuration (4 measures x windows "
    "1/3/5 x subpix 1/2/4) x every interval form (6 scalar intervals x right interval implicit/explicit, 2 grid "
    "pairs); levels 1..n: every legal pipeline of the automaton over the built-in menus with n steps besides "
    "matching cost, disparity and validation (validation in every position, 3 fill variants) x 4 measures (quick, "
    "n = 2: two measures per pipeline, alternating), the "
    "remaining dimensions (window, subpix, interval form, masks none/L/R/LR, 3 image shapes, 1 or 2 bands, "
    "invalid_disparity) assigned by a fixed covering rotation; 'noval' spaces: every validation-free pipeline x 4 "
    "measures. One evaluation = one pair of complete runs. A case is trivial when both runs raise the same "
    "exception type; non-trivial signatures = (pipeline, digest of the four products); both maps must contain "
    "valid and invalid pixels for the signature to count."
)
ASSUMPTIONS = [
    "mirrored problem = datasets exchanged (image + its mask + its disparities), interval negated and swapped; "
    "with scalar intervals both API forms are run: right dataset without disparity, and with [-b, -a] as "
    "pandora.main builds it",
    "with per-pixel grids the right grids are supplied (the library refuses cross-checking otherwise)",
    "2-band images (bands 'r','g', matching on 'g') only where the pinned library runs them: no cbca, and subpix 1 "
    "for sad/ssd; when both runs of a pair raise the same exception type the case is counted trivial, when only one "
    "raises it is a violation",
    "optimization and semantic_segmentation (no built-in method) are not generated; multiscale pipelines (since the A1 "
    "repair) form a space of their own: scalar intervals, subpix 1, images of 20x26 pixels",
    "quick: pipelines of length <= 5; thorough: length <= 6 (DESIGN asked <= 6 / <= 7: the 7-step level has "
    "1.2e5 pipelines x 4 measures, beyond the 15 min budget)",
    "compared: disparity_map, validity_mask, confidence_measure and the indicator names; attributes and "
    "interpolated_coeff are not part of the statement",
]

SCALARS = [[-2, 2], [0, 3], [-3, -1], [1, 1], [-1, 0], [2, 4]]
GRIDS = [{"grid": [-3, 1]}, {"grid": [0, 3]}]
FORMS = [(d, r) for d in SCALARS for r in ("none", "explicit")] + [(g, "none") for g in GRIDS]  # 14
SHAPES = [(12, 17), (9, 22), (15, 14)]
WINDOWS = [3, 1, 5]
SUBPIX = [1, 2, 4]
INVALIDS = ["wta", "wta_nan", "wta0"]
VARS = ("disparity_map", "validity_mask", "confidence_measure")

CV_Q = ["cbca", "std", "amb", "risk", "ib"]
DM_Q = ["median", "bilateral", "mfi", "vfit", "quad", "cross", "cross_mccnn", "cross_sgm"]
CV_T = ["cbca", "cbca1", "std", "amb", "ambn", "risk", "ib", "ibr"]
DM_T = ["median", "median5", "bilateral", "mfi", "mfir", "vfit", "quad", "cross", "cross0", "cross_mccnn", "cross_sgm"]


def _mix(i, seed):
    """fixed covering rotation: one integer per case index, decomposed in mixed radix by the caller"""
    return (i * 7919 + seed * 104729 + 12345) % 1000003


def _inputs(h, method, shape_has_cbca):
    """assign the rotated dimensions of a case from the mixed integer h"""
    w = WINDOWS[h % 3]
    if method == "census" and w == 1:
        w = 3
    s = SUBPIX[(h // 3) % 3]
    disp, rdisp = FORMS[(h // 9) % len(FORMS)]
    mask = F.MASK_VARIANTS[(h // 126) % 4]
    ny, nx = SHAPES[(h // 504) % 3]
    bands = 2 if (h // 1512) % 4 == 0 else 1
    if bands == 2 and (shape_has_cbca or (s != 1 and method in ("sad", "ssd"))):
        bands = 1
    inv = INVALIDS[(h // 6048) % 3]
    return w, s, disp, rdisp, mask, ny, nx, bands, inv


def _case(kind, i, seed, method, tail, fixed=None):
    h = _mix(i, seed)
    has_cbca = any(n.startswith("cbca") for n in tail)
    w, s, disp, rdisp, mask, ny, nx, bands, inv = _inputs(h, method, has_cbca)
    if fixed:
        w, s, disp, rdisp = fixed
        if bands == 2 and s != 1 and method in ("sad", "ssd"):
            bands = 1
    tail = [inv if n == "wta" else n for n in tail]
    pipe = [legal.mc_name(method, w, s, "g" if bands == 2 else None)] + tail
    return {"kind": kind, "pipe": pipe, "ny": ny, "nx": nx, "seed": (seed + i) % 5, "mask": mask, "bands": bands,
            "disp": disp, "rdisp": rdisp}


def spaces(tier, seed):
    cv, dm = (CV_Q, DM_Q) if tier == "quick" else (CV_T, DM_T)
    max_extra = 2 if tier == "quick" else 3
    # ---- level 0: base pipeline x full product of matching-cost configuration x interval form
    base = []
    i = 0
    for name in legal.mc_names():
        cfg = legal.parse_mc(name)
        for disp, rdisp in FORMS:
            base.append(_case("mirror", i, seed, cfg["matching_cost_method"], ["wta", "cross"],
                              fixed=(cfg["window_size"], cfg["subpix"], disp, rdisp)))
            i += 1
    out = [{"name": "mirror: base pipeline x matching-cost configuration x interval form", "level": 0, "cases": base}]
    # ---- multiscale pipelines (multiscale accepts scalar integer intervals only)
    ms_tails = [["wta", "cross", "ms2"], ["wta", "ms2", "cross"], ["wta", "vfit", "cross", "ms2", "median"],
                ["wta", "cross_mccnn", "ms2"], ["wta", "median", "cross", "ms3"], ["cbca", "wta", "cross", "ms2", "vfit"],
                ["std", "wta", "cross_sgm", "ms2", "bilateral"]]
    if tier == "thorough":
        ms_tails += [["wta", "cross", "ms3", "quad"], ["amb", "wta", "quad", "cross", "ms2"],
                     ["wta", "bilateral", "cross0", "ms2", "cross"]]
    ms = []
    for tail in ms_tails:
        for method in legal.MC_METHODS:
            for w in ((3,) if tier == "quick" else (1, 3, 5)):
                for disp in ([-2, 2], [0, 3], [-4, -1], [1, 5]):
                    for rdisp in ("none", "explicit"):
                        if method == "census" and w == 1:
                            continue
                        c = _case("mirror", i, seed, method, tail, fixed=(w, 1, disp, rdisp))
                        c.update({"ny": 20, "nx": 26, "bands": 1})
                        ms.append(c)
                        i += 1
    out.append({"name": "mirror: pipelines with a multiscale step", "level": 2, "cases": ms})
    # ---- levels 1..: every pipeline shape with a validation step, by number of extra steps
    shapes = [s for s in legal.shapes(min(max_extra, 2) + 1, cv, dm) if legal.has_validation(s)]
    if max_extra > 2:
        # the deepest level uses the quick menus (the full thorough menus give 2.8e4 pipelines x 4 measures there)
        shapes += [s for s in legal.shapes(max_extra + 1, CV_Q, DM_Q) if legal.has_validation(s) and len(s) - 2 > 2]
    by_extra = {}
    for s in shapes:
        by_extra.setdefault(len(s) - 2, []).append(s)
    for extra in sorted(by_extra):
        cases = []
        for j, tail in enumerate(by_extra[extra]):
            methods = legal.MC_METHODS
            if tier == "quick" and extra >= 2:
                # deepest quick level: two of the four measures per pipeline, alternating with the pipeline index
                methods = (("sad", "zncc"), ("ssd", "census"))[(j + seed) % 2]
            for method in methods:
                cases.append(_case("mirror", i, seed, method, tail))
                i += 1
        out.append({"name": f"mirror: all pipelines with {extra} step(s) besides matching cost, disparity, validation",
                    "level": 1 + extra, "cases": cases})
    # ---- validation-free pipelines: right dataset empty; appended fill-less cross-check leaves the left map alone
    dm_noval = [n for n in dm if legal.kind_of(n) != "validation"]
    nv = []
    for tail in legal.shapes(max_extra, cv if tier == "quick" else CV_Q + ["ibr"], dm_noval):
        for method in legal.MC_METHODS:
            nv.append(_case("noval", i, seed, method, tail))
            i += 1
    out.append({"name": "noval: validation-free pipelines (right dataset empty; appended cross-check is neutral)",
                "level": 1, "cases": nv})
    return out


# ----------------------------------------------------------------------------------------------
def _run(arr, case, pipe_names, swap, observe=False):
    left, right = F.datasets(arr, case["disp"], case["rdisp"], swap=swap, gridseed=case["seed"])
    return P.run_observed(left, right, legal.build(pipe_names), observe=observe, snapshot=("cv", "disp"))


def _indicators(ds):
    return [str(x) for x in ds.coords["indicator"].data] if "indicator" in ds.coords else []


def _diff(x, y, names=VARS):
    """names of the compared items that differ between two product datasets"""
    bad = []
    for v in names:
        if (v in x) != (v in y):
            bad.append(v + " (present on one side only)")
        elif v in x and not D.arr_eq(x[v].data, y[v].data):
            bad.append(v)
        elif v in x and x[v].dtype != y[v].dtype:
            bad.append(v + " (dtype)")
    if _indicators(x) != _indicators(y):
        bad.append("indicator names")
    return bad


def _first_divergence(oa, ob):
    """(step kind, method, item) of the first observed step at which right_A != left_B or left_A != right_B"""
    for sa, sb in zip(oa.steps, ob.steps):
        kind = sa["step"].split(".")[0]
        cfg = oa.cfg["pipeline"][sa["step"]]
        method = next((str(v) for k, v in cfg.items() if k.endswith("_method")), "?")
        for pa, pb in (("right", "left"), ("left", "right")):
            for prod, names in (("cv", ("cost_volume", "validity_mask", "confidence_measure")), ("disp", VARS)):
                x, y = sa.get(f"{pa}_{prod}"), sb.get(f"{pb}_{prod}")
                if x is None or y is None:
                    if (x is None) != (y is None):
                        return kind, method, f"{prod} dataset missing on one side"
                    continue
                if len(x.data_vars) == 0 and len(y.data_vars) == 0:
                    continue
                d = _diff(x, y, names)
                if d:
                    return kind, method, d[0]
    return "final products only", "?", "?"


def _where(x, y, v):
    a, b = x[v].data, y[v].data
    if a.shape != b.shape:
        return f"shapes {a.shape} vs {b.shape}"
    neq = ~((a == b) | ((a != a) & (b != b)))
    idx = np.argwhere(neq)
    if idx.size == 0:
        return "dtype only"
    p = tuple(int(t) for t in idx[0])
    return f"{int(neq.sum())} sample(s) differ, first at {p}: {a[p]!r} vs {b[p]!r}"


def _sig_ok(ds):
    from pandora import constants as cst  # pylint: disable=import-outside-toplevel

    if "validity_mask" not in ds:
        return False
    inval = (ds["validity_mask"].data & cst.PANDORA_MSK_PIXEL_INVALID) != 0
    return bool(inval.any() and (~inval).any())


def run_case(case):
    arr = F.arrays(case["ny"], case["nx"], case["seed"], hi=31, bands=case["bands"], mask=case["mask"])
    pipe = case["pipe"]
    viol = []
    if case["kind"] == "mirror":
        oa = _run(arr, case, pipe, swap=False)
        ob = _run(arr, case, pipe, swap=True)
        if oa.error or ob.error:
            ta = type(oa.error[1]).__name__ if oa.error else None
            tb = type(ob.error[1]).__name__ if ob.error else None
            if ta == tb and (oa.error[0] == ob.error[0]):
                return {"n": 1, "sigs": [], "viol": [], "trivial": 1}
            return {"n": 1, "sigs": [], "viol": [{
                "clause": "asymmetric-error", "key": "C08/asymmetric-error/run",
                "detail": f"pipeline {legal.describe(pipe)} disp {case['disp']}: original run -> {oa.error!r}, "
                          f"mirrored run -> {ob.error!r}"}]}
        pairs = (("right1-eq-left2", oa.right, ob.left), ("left1-eq-right2", oa.left, ob.right))
        bad = [(c, _diff(x, y), x, y) for c, x, y in pairs]
        if any(d for _, d, _, _ in bad):
            o2a = _run(arr, case, pipe, swap=False, observe=True)
            o2b = _run(arr, case, pipe, swap=True, observe=True)
            step, method, item = _first_divergence(o2a, o2b)
            for clause, d, x, y in bad:
                if not d:
                    continue
                v = d[0]
                where = _where(x, y, v) if v in VARS else f"{_indicators(x)} vs {_indicators(y)}"
                viol.append({
                    "clause": clause, "key": f"C08/{clause}/{step}/{item}",
                    "detail": f"pipeline {legal.describe(pipe)}, image {case['ny']}x{case['nx']} mask={case['mask']} "
                              f"bands={case['bands']}, disp {case['disp']} (right interval {case['rdisp']}): "
                              f"differing items {d}; {v}: {where}; first per-step divergence at the {step} step ({method}): {item}"})
        ok = _sig_ok(oa.left) and _sig_ok(oa.right)
        sig = [f"m|{legal.describe(pipe)}|{P.digest(oa.left)}|{P.digest(oa.right)}"] if ok else []
        return {"n": 1, "sigs": sig, "viol": viol, "trivial": 0 if ok else 1}

    # ---- noval
    oa = _run(arr, case, pipe, swap=False)
    ob = _run(arr, case, pipe + ["cross"], swap=False)
    if oa.error or ob.error:
        # the second run executes a right pass the first one does not have: an exception there (e.g. the quadratic
        # refinement on three equal costs, A2) is not an asymmetry this property speaks about
        return {"n": 1, "sigs": [], "viol": [], "trivial": 1}
    # the same validation-free pipeline on a machine object that has just run the pipeline WITH the cross-check
    # (configuration completed by another machine, as when several jobs share one machine): still no right products
    from pandora.state_machine import PandoraMachine  # pylint: disable=import-outside-toplevel

    left, right = F.datasets(arr, case["disp"], case["rdisp"], swap=False, gridseed=case["seed"])
    used = PandoraMachine()
    first = P.run_observed(left, right, legal.build(pipe + ["cross"]), machine=used, observe=False)
    if not first.error:
        cfg = P.check(PandoraMachine(), left, right, legal.build(pipe))
        again = P.run_observed(left, right, cfg["pipeline"], machine=used, do_check=False, observe=False)
        r2 = again.right
        if again.error is None and not (hasattr(r2, "data_vars") and len(r2.data_vars) == 0 and len(r2.dims) == 0):
            viol.append({"clause": "right-empty-without-validation",
                         "key": "C08/right-empty-without-validation/run on a machine that ran a validation pipeline",
                         "detail": f"pipeline {legal.describe(pipe)} has no validation step; run on a machine object "
                                   f"that had just run it with a cross-check appended, it returned a right dataset "
                                   f"with variables {sorted(map(str, getattr(r2, 'data_vars', [])))}"})
        elif again.error is None and not D.arr_eq(again.left["disparity_map"].data, oa.left["disparity_map"].data):
            viol.append({"clause": "right-empty-without-validation",
                         "key": "C08/left-differs/run on a machine that ran a validation pipeline",
                         "detail": f"pipeline {legal.describe(pipe)}: left disparity map differs from a fresh machine's"})
    r = oa.right
    if not (hasattr(r, "data_vars") and len(r.data_vars) == 0 and len(r.dims) == 0):
        viol.append({"clause": "right-empty-without-validation", "key": "C08/right-empty-without-validation/run",
                     "detail": f"pipeline {legal.describe(pipe)} has no validation step but run() returned a right "
                               f"dataset with variables {sorted(map(str, getattr(r, 'data_vars', [])))} "
                               f"dims {dict(getattr(r, 'sizes', {}))}"})
    if "disparity_map" not in ob.right:
        viol.append({"clause": "right-produced-with-validation", "key": "C08/right-produced-with-validation/run",
                     "detail": f"pipeline {legal.describe(pipe + ['cross'])}: right dataset has no disparity_map"})
    if not D.arr_eq(oa.left["disparity_map"].data, ob.left["disparity_map"].data):
        viol.append({"clause": "cross-check-neutral", "key": "C08/cross-check-neutral/validation",
                     "detail": f"pipeline {legal.describe(pipe)}: appending a fill-less cross-check changed the left "
                               f"disparity map: {_where(oa.left, ob.left, 'disparity_map')}"})
    ok = _sig_ok(oa.left)
    sig = [f"n|{legal.describe(pipe)}|{P.digest(oa.left)}|{P.digest(ob.left)}"] if ok else []
    return {"n": 1, "sigs": sig, "viol": viol, "trivial": 0 if ok else 1}


def init_worker():
    run_case(_case("mirror", 0, 0, "sad", ["wta", "vfit", "cross"]))
    run_case(_case("mirror", 1, 0, "zncc", ["cbca", "wta", "quad", "cross_sgm"]))
