#!/usr/bin/env python3
"""Regenerates /verif/MANIFEST.json from the table below (single source of truth), then validates it."""
import json
import os
import subprocess

HERE = os.path.dirname(os.path.dirname(os.path.abspath(__file__)))

# id -> (category, technique, text, note, engine)
CHECKS = {
    "C03": (
        "exploration",
        "bounded exhaustive enumeration of per-pixel cost vectors and block-straddling shapes on the real WTA step, "
        "compared with an unblocked per-pixel reference model",
        "Every cost vector over {NaN,0,1,2(,3)} of length 1..4(5) as a 1x1 volume and position-coded in volumes of "
        "every shape of a grid around the 100-pixel block boundaries, x min/max x 4 invalid_disparity values, "
        "executed on WinnerTakesAll.to_disp and compared cell by cell with a reference; cost volume, flags and "
        "confidence bands compared bit for bit before/after.",
        "Trusted: the 20-line reference model; interval membership is observed through NaN costs; shapes <= 250.",
        "E1",
    ),
    "C01": (
        "model_checking",
        "TLA+ model of the documented machine checked exhaustively by TLC; every terminal state of the TLC graph "
        "(= every maximal behaviour) replayed on PandoraMachine/pandora.run with call spies; plus explicit-state "
        "enumeration of all step sequences, suffix namings and check/run histories on the real machine against an "
        "independent automaton (three-way agreement)",
        "TLC enumerates every reachable state of the documented machine (MaxLen 4/5, MaxScales 3) and checks its "
        "invariants; every behaviour is replayed against the implementation (verdict, execution log with scale, side "
        "and argument roles, idle end state). All 11 111 (quick) / 1 111 111 (thorough) step sequences, all suffix "
        "namings, single invalid method/parameter, depth-12 merged BFS and all check/run words of length <= 3 on one "
        "machine are executed on the real code.",
        "Trusted: the TLA+ model and the 15-line Python automaton transcribe sequencing.rst (they must agree with each "
        "other, else exit 2); optimisation/segmentation are identity stubs; observation by class-level spies.",
        "E3",
    ),
    "C15": (
        "exploration",
        "bounded exhaustive enumeration of shapes x scales x factors x intervals and single/paired departures; every "
        "case is a real pandora.run observed step by step and compared with a reference model of the pyramid",
        "Every image shape 8..13 (26..29 for factor^levels 9) x num_scales {2,3} x scale_factor {2,3} x user intervals, "
        "and every single / pair of departures (marge, 2 bands, masked pixel, window, measure, steps before/after, "
        "validation) is run through the real per-scale loop; per level the image size, the sampled/computable "
        "disparities, every pixel's searched interval and the untouched inputs are compared with the statement.",
        "Trusted: reference model of the statement; instance-level callback wrappers; degenerate pyramids (coarsest "
        "image smaller than window+2) skipped; non-divisible user intervals accept both roundings.",
        "E1",
    ),
    "C18": (
        "exploration",
        "iteration-schedule exploration of the numba prange kernels from their Python source (all permutations of "
        "outer iterations + read/write conflict detection = partial-order argument), bit-exact conformance of the "
        "compiled kernels under 6 thread counts, process matrix over threading configurations, exhaustive two-machine "
        "check/run histories",
        "For each of the 9 prange kernels every enumerated tiny input is executed under every outer-iteration "
        "permutation with tracked arrays: no cell may be written by two iterations or written by one and read by "
        "another (so all schedules are equivalent), all orders must agree bit for bit and the compiled kernel must "
        "return the same for 1,2,3,4,8,16 threads. Whole pipelines are compared across separate processes (threads x "
        "layer x parallel switch) and across every word of check/run operations on two machines; inputs are compared "
        "before/after every run.",
        "Trusted: numba runs prange iterations as independent units (native interleavings are not driven); OpenMP / "
        "workqueue runtimes; kernel inputs limited to the enumerated alphabets.",
        "E4",
    ),
    "C02": (
        "exploration",
        "bounded exhaustive enumeration of tiny image pairs x intervals x measures x windows x subpix (+ single/paired "
        "mask and grid deviations) on the real matching-cost classes, compared cell by cell with a per-pixel reference",
        "Every interval (inside, straddling and outside the image), every measure/window/subpix, mono and 2-band images, "
        "every single and pair of masked cells and grid deviations, and all images over a 3-symbol alphabet on the "
        "smallest shapes are run through allocate_cost_volume/validity_mask/compute_cost_volume/cv_masked; each cost and "
        "each NaN is compared with the documented measure (exact for sad/ssd/census, atol for zncc).",
        "Trusted: mc/ref/cost.py; integer radiometry, also scaled exactly (12-bit, 2^-20, level 20000 with a dozen grey "
        "levels of texture) and, one instance each, long 12-bit lines (1300 columns) and 16-bit strips (420 columns, 300 rows); "
        "images at least one window large.",
        "E1",
    ),
    "C04": (
        "exploration",
        "bounded exhaustive enumeration of scenes (masks, intervals, grids, invalid_disparity) x every legal "
        "post-disparity pipeline up to the bound, flags observed after every step of the real run and compared with a "
        "reference of the documented bits",
        "Pre-validation flags of every enumerated scene are compared bit by bit with mc/ref/flags.py (left and right), the "
        "three-way equivalence invalid flag <=> all costs NaN <=> invalid_disparity is checked after every step, and for "
        "every legal pipeline of <= 3/4 later steps (repeats included) each step may only add its own documented bits.",
        "Trusted: reference of the documented bits; intervals bounded to |d| < width (one scale instance: 256 integer "
        "disparities on a 300-column image); instance-level observers.",
        "E1",
    ),
    "C05": (
        "exploration",
        "bounded exhaustive enumeration of parameter values on and around every documented boundary (alone and in pairs "
        "across steps) and of check histories sharing class-level schemas, against a table written from the statement",
        "Every parameter of every built-in method takes every boundary / wrong-type value alone and in pairs through "
        "PandoraMachine.check_conf, check_pipeline_section and the full check_conf on GeoTIFFs; defaults, preservation of "
        "user keys and order, non-mutation and idempotence are asserted; every order of <= 3 checks of different "
        "matching-cost classes / input forms is followed by boundary probes (shared schema dicts).",
        "Trusted: mc/ref/config_table.py (values whose status the docs leave open are not asserted).",
        "E1",
    ),
    "C06": (
        "exploration",
        "bounded exhaustive enumeration of cost triples / per-pixel cases (packed and 1x1) and of observed pipelines, "
        "against closed-form V-fit and parabola references",
        "Every cost triple over an 8-symbol alphabet through refinement_method, every (cost vector x received disparity x "
        "incoming flag) through subpixel_refinement packed and as 1x1 datasets, and every pipeline of <= 3 steps containing "
        "a refinement on 19 scenes: half-sample bound, fitted optimum and cost, never worse, inside interval, untouched "
        "invalid pixels, exactly bit 3 otherwise, and totality (exceptions are violations).",
        "Trusted: mc/ref/refine.py; value clauses on on-grid inputs only.",
        "E1",
    ),
    "C07": (
        "exploration",
        "bounded exhaustive enumeration of left/right disparity rows over a small symbol alphabet (per-row packing) x "
        "validity rows x thresholds x intervals on the real cross-checking step, against a transcription of the statement",
        "Every pair of 1-row disparity maps of width 3/4 over integer, half-integer, NaN and invalid symbols, with every "
        "validity row, threshold and interval departure, is cross-checked by the real step (stacked and as single rows) and "
        "every flag, every unchanged disparity and the consistency band are compared with the statement.",
        "Trusted: mc/ref/crosscheck.py.",
        "E1",
    ),
    "C08": (
        "exploration",
        "bounded exhaustive enumeration of image pairs x interval forms x legal pipelines with validation; differential "
        "oracle between the run and the mirrored run (no hand-written expected value)",
        "Each case is two real runs, (L, R, [a,b]) and (R, L, [-b,-a]): right products of one must equal left products of "
        "the other bit for bit (disparity, flags, confidence bands), for every pipeline with up to 2 (quick) / 3 (thorough) "
        "extra steps, 33 matching-cost configurations and 14 interval forms; plus empty right dataset without validation "
        "and neutrality of a fill-less cross-check.",
        "Trusted: nothing but the mirroring construction; 2-band cases limited to what the library runs.",
        "E1",
    ),
    "C09": (
        "exploration",
        "bounded exhaustive enumeration of nested interval pairs and grid deviations; differential oracle (slice of the "
        "larger volume == smaller volume), plus interval membership of final disparities over single-scale pipelines",
        "Every nested pair I in J within [-3,3] x measure x subpix x window, with and without cbca, every grid pair within "
        "<= 2 cell deviations and constant grids vs scalars: volumes must agree exactly inside and be NaN outside; every "
        "valid final disparity must lie in the requested interval after refinement / filter / fill.",
        "Trusted: nothing but the slicing construction and integer radiometry.",
        "E1",
    ),
    "C10": (
        "exploration",
        "bounded exhaustive enumeration of all small disparity maps over a symbol alphabet and of block-straddling shapes "
        "on the real filters, against per-pixel (unblocked) references",
        "All 3x3 (3x4) maps over {values, invalid via each bit} and position-coded maps of every shape around the 50/100 "
        "pixel block sizes are filtered by median / bilateral / median_for_intervals and compared pixel by pixel with a "
        "per-pixel reference: mask unchanged, invalid and border pixels untouched, median exact, bilateral rtol 1e-5.",
        "Trusted: mc/ref/filters.py; for even bilateral windows both placements of the centre-less window are accepted; "
        "where median_for_intervals meets invalid pixels with finite bounds both readings of the band median are "
        "accepted; caller arrays in C, Fortran and strided layouts.",
        "E1",
    ),
    "C11": (
        "exploration",
        "bounded exhaustive enumeration of small images x masks x cbca parameters with real and synthetic 'bitmask' cost "
        "volumes (pixel i costs 2^i, so the aggregated sum is the set of pixels included), against a reference model",
        "For every enumerated image pair, mask layout, cbca_distance / intensity, subpix and interval the aggregated "
        "volume is compared with the documented support region (arms, combined arms, support sum / count), NaN in <=> NaN "
        "out, and plane independence.",
        "Trusted: mc/ref/cbca.py; monoband images.",
        "E1",
    ),
    "C12": (
        "exploration",
        "bounded exhaustive enumeration of per-pixel cost vectors (packed) x step configurations and of every order of "
        "<= 3 confidence steps in pipelines; float64 reference for values, differential oracle for 'only adds'",
        "Every cost vector over three alphabets as pixels of one volume x 13 step configurations x min/max; every sequence "
        "and naming of <= 3 confidence steps in 7 base pipelines compared with the same pipeline without them (cost volume, "
        "existing bands, disparity map, flags bit-identical); band names, bracketing of the winner, risk order, ranges.",
        "Trusted: mc/ref/confidence.py; costs exactly on an eta boundary accepted either way.",
        "E1",
    ),
    "C13": (
        "exploration",
        "bounded exhaustive enumeration of local pipelines x intervals x crops (origins, sizes, coordinates kept or "
        "restarted) and vertical flips; differential oracle on the dependency-cone interior (bit-identical)",
        "Each case is one whole-image run, one flipped run and 6 (quick) / up to 96 (thorough) crop runs; every pixel whose "
        "conservatively computed dependency cone lies inside the crop must have bit-identical disparity and flags; "
        "compared-pixel counts are reported.",
        "Trusted: mc/ref/cone.py (conservative cone); integer radiometry (8-bit, 12-bit, and 16-bit strips whose tiles lie "
        "far from the first row / column); tiles handed over as copies, zero-copy "
        "windows of a larger array, or column-major arrays.",
        "E1",
    ),
    "C14": (
        "exploration",
        "bounded exhaustive enumeration of all small maps over {valid values, invalid, occluded, mismatched} on the real "
        "filling methods, against invariants transcribed from the statement",
        "Every 3x3 / 2x4 map over the pixel-state alphabet is filled by mc-cnn and sgm interpolation: untouched unflagged "
        "pixels, 8->4 / 9->5 bit replacement, finite fills within the valid range taken from (or median of) the first valid "
        "pixels along the documented directions, flagged pixels without any valid pixel in sight stay invalid.",
        "Trusted: mc/ref/fill.py (which candidate is taken is not asserted).",
        "E1",
    ),
    "C16": (
        "exploration",
        "bounded exhaustive enumeration of tiny rasters (dtype, bands, nodata, masks) and of EVERY ROI x margins on the "
        "real readers, against a reference of the statement",
        "get_window for every ROI in [-3, n+2]^2 x margins {0,1,2}^4 and create_dataset_from_inputs for every ROI x margins "
        "{0,2}^4, every raster/mask/nodata/dtype combination: samples, mask classes, disparity bands, coordinates and "
        "refusals compared with 'crop of the full read clipped to the image'.",
        "Trusted: mc/ref/dataset.py; GeoTIFF written by rasterio.",
        "E1",
    ),
    "C17": (
        "exploration",
        "bounded exhaustive enumeration of well-formed dataset pairs / input sections and every single and pair of "
        "contract violations, against the predicate of the statement (both directions)",
        "Every base variant x every single and pair of edits (violations and benign edits at every pixel position) "
        "through check_datasets and check_input_section: accepted <=> predicate.",
        "Trusted: mc/ref/contract.py.",
        "E1",
    ),
    "C19": (
        "exploration",
        "bounded exhaustive enumeration of accepted configurations (pipelines, interval forms, georeferencing, masks) run "
        "through pandora.main, the API and main again from the saved configuration",
        "Each case runs the command-line entry point in-process, recomputes through the API and replays cfg/config.json: "
        "files present <=> expected, dtypes, band names, pixels equal to memory (NaN-aware), georeferencing, margins, "
        "replay accepted with identical rasters.",
        "Trusted: rasterio round-trip; GeoTIFF only.",
        "E1",
    ),
    "C20": (
        "exploration",
        "explicit enumeration of the pipeline-extension graph (every accepted pipeline up to the bound, every edge "
        "pipeline -> pipeline + one step) on the real checker, against a margins reference",
        "Every accepted pipeline of length <= 5 (<= 7 on reduced menus in thorough) x parameters x image shapes x "
        "matching-cost step {1,2}: exact margin entries, global margins, non-negativity, second-round invariance, "
        "monotonicity along every edge, independence of other machines, equality with the saved configuration.",
        "Trusted: mc/ref/margins.py; optimisation is a stub plug-in.",
        "E2",
    ),
}

PENDING_REASON = "check not built yet (work in progress in this session; see DESIGN.md section 7 for the build order)"


def main():
    props = [json.loads(l) for l in open(os.path.join(HERE, "properties.jsonl"), encoding="utf8")]
    checks = []
    na = []
    enabled = set(open(os.path.join(HERE, "tools", "enabled.txt")).read().split())
    for p in props:
        pid = p["id"]
        if pid not in CHECKS or pid not in enabled:
            na.append({"property_id": pid, "reason": PENDING_REASON})
            continue
        cat, tech, text, note, engine = CHECKS[pid]
        checks.append({
            "property_id": pid,
            "quick_cmd": f"cd /verif && ./check {pid} --tier quick",
            "thorough_cmd": f"cd /verif && ./check {pid} --tier thorough",
            "evidence_file": f"/verif/evidence/{pid}.json",
            "replay_cmd_template": f"cd /verif && ./check {pid} --replay {{path}}",
            "engine": engine,
            "level_claimed": {"category": cat, "text": text, "design_ref": f"DESIGN.md section 3, {pid}"},
            "level_note": note,
            "technique": tech,
        })
    manifest = {
        "version": 1,
        "setup_cmd": "cd /verif && ./setup.sh",
        "hooks": {
            "guard": "PANDORA_VERIF",
            "enable": "no source hook is needed: checks observe through public plug-in registries, instance-level "
                      "wrappers and numba's .py_func; PANDORA_VERIF is reserved and unused",
            "baseline_off_cmd": "cd /repo && /venv/bin/python -m pytest -ra -q -p no:cacheprovider --timeout=900 "
                                "--continue-on-collection-errors",
            "source_commits": [],
            "add_only": True,
        },
        "engines": [
            {"name": "E1", "path": "/verif/mc/engine/core.py", "kind_free_text":
                "small-scope exhaustive input explorer over the real code with reference models",
             "serves_properties": sorted(k for k, v in CHECKS.items() if v[4] == "E1")},
            {"name": "E2", "path": "/verif/mc/engine/bfs.py", "kind_free_text":
                "explicit-state BFS over operation histories replayed on fresh real objects",
             "serves_properties": sorted(k for k, v in CHECKS.items() if v[4] == "E2")},
            {"name": "E3", "path": "/verif/models/PandoraMachine.tla", "kind_free_text":
                "TLA+ model checked by TLC, every behaviour replayed against the implementation",
             "serves_properties": sorted(k for k, v in CHECKS.items() if v[4] == "E3")},
            {"name": "E4", "path": "/verif/mc/engine/sched.py", "kind_free_text":
                "iteration-schedule explorer for numba prange kernels (conflict detection + order enumeration)",
             "serves_properties": sorted(k for k, v in CHECKS.items() if v[4] == "E4")},
        ],
        "checks": checks,
        "not_applicable": na,
        "notes": "All checks: exit 0 held / 1 VIOLATION / 2 harness error. VERIF_SEED rotates generic radiometry and "
                 "shard order only; spaces are enumerated completely (evidence.coverage.exhaustive) unless cap_hit.",
    }
    path = os.path.join(HERE, "MANIFEST.json")
    with open(path, "w", encoding="utf8") as f:
        json.dump(manifest, f, indent=1)
    script = ("import json,jsonschema;jsonschema.validate(json.load(open('%s')),"
              "json.load(open('/root/.vp/MANIFEST.schema.json')));print('MANIFEST valid')" % path)
    subprocess.run(["python3-vt", "-c", script], check=True)


if __name__ == "__main__":
    main()
