SPECIFICATION Spec
CONSTANTS
  MaxLen = 4
  MaxScales = 3
INVARIANTS
  TypeOK
  NoSequencingErrorAtRun
  EndsInBegin
  ExactlyOnce
  InOrder
