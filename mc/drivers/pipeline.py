"""
Observed pipeline run: the *real* `pandora.run` loop with per-step observers set on the machine instance.

`transitions` resolves the callbacks "<step>_run" by name on the model at trigger time, so replacing the bound
method on the *instance* by a wrapper keeps the real per-scale loop, the real triggers and the real callbacks;
no copy of the sequencing logic lives here.
"""
from __future__ import annotations

import copy

import numpy as np
import xarray as xr

from mc.drivers import datasets as D

RUN_CALLBACKS = {
    "matching_cost": "matching_cost_run",
    "aggregation": "aggregation_run",
    "semantic_segmentation": "semantic_segmentation_run",
    "optimization": "optimization_run",
    "disparity": "disparity_run",
    "filter": "filter_run",
    "refinement": "refinement_run",
    "validation": "validation_run",
    "multiscale": "run_multiscale",
    "cost_volume_confidence": "cost_volume_confidence_run",
}


def meta_of(img: xr.Dataset) -> xr.Dataset:
    """metadata dataset (band_im coordinate, disparity, attrs) matching an image dataset"""
    bands = list(img.coords["band_im"].data) if "band_im" in img.coords else [None]
    ds = xr.Dataset(
        data_vars={},
        coords={"band_im": bands, "row": np.arange(img.sizes["row"]), "col": np.arange(img.sizes["col"])},
    )
    if "disparity" in img:
        ds.coords["band_disp"] = ["min", "max"]
        ds["disparity"] = img["disparity"].copy(deep=True)
    ds.attrs["disparity_source"] = copy.deepcopy(img.attrs.get("disparity_source"))
    for k in ("classif", "segm"):
        if k in img:
            if k == "classif":
                ds.coords["band_classif"] = img.coords["band_classif"]
            ds[k] = img[k].copy(deep=True)
    return ds


class Obs:
    """what one observed run saw"""

    def __init__(self):
        self.steps = []  # list of dict(step, scale, left_cv, right_cv, left_disp, right_disp, img_shape, ...)
        self.left = None
        self.right = None
        self.cfg = None
        self.error = None
        self.machine = None


def _snap(ds):
    if ds is None:
        return None
    if isinstance(ds, xr.Dataset):
        return ds.copy(deep=True)
    return copy.deepcopy(ds)


def check(machine, left, right, pipeline: dict) -> dict:
    """check_pipeline_section on metadata datasets; returns the completed {"pipeline": ...}"""
    from pandora import check_configuration  # pylint: disable=import-outside-toplevel

    return check_configuration.check_pipeline_section(
        {"pipeline": copy.deepcopy(pipeline)}, meta_of(left), meta_of(right), machine
    )


def run_observed(left, right, pipeline: dict, machine=None, do_check=True, observe=True, snapshot=("disp",),
                 keep_machine=False, cfg=None) -> Obs:
    """
    :param snapshot: which products to deep-copy after each step: any of "cv", "disp", "img"
    :param cfg: a configuration the caller already holds (completed by an earlier check): used as is, neither
                checked again nor copied - the caller's own dictionary goes to pandora.run
    """
    import pandora  # pylint: disable=import-outside-toplevel
    from pandora.state_machine import PandoraMachine  # pylint: disable=import-outside-toplevel

    obs = Obs()
    m = machine if machine is not None else PandoraMachine()
    if keep_machine:
        obs.machine = m
    if cfg is None:
        try:
            cfg = check(m, left, right, pipeline) if do_check else {"pipeline": copy.deepcopy(pipeline)}
        except Exception as e:  # pylint: disable=broad-except
            obs.error = ("check", e)
            return obs
    obs.cfg = cfg
    if observe:
        for name in set(RUN_CALLBACKS.values()):
            orig = getattr(m, name)

            def wrapper(cfg_, input_step, _orig=orig, _name=name):
                scale = m.current_scale
                pre = {
                    "disp_min": _snap(m.disp_min), "disp_max": _snap(m.disp_max),
                    "right_disp_min": _snap(m.right_disp_min), "right_disp_max": _snap(m.right_disp_max),
                    "img_shape": (int(m.left_img.sizes["row"]), int(m.left_img.sizes["col"])),
                }
                _orig(cfg_, input_step)
                rec = {"step": input_step, "callback": _name, "scale": scale, **pre}
                if "cv" in snapshot:
                    rec["left_cv"] = _snap(m.left_cv)
                    rec["right_cv"] = _snap(m.right_cv)
                if "disp" in snapshot:
                    rec["left_disp"] = _snap(m.left_disparity)
                    rec["right_disp"] = _snap(m.right_disparity)
                if "img" in snapshot:
                    rec["left_img"] = _snap(m.left_img)
                    rec["right_img"] = _snap(m.right_img)
                obs.steps.append(rec)

            setattr(m, name, wrapper)
    try:
        obs.left, obs.right = pandora.run(m, left, right, cfg)
    except Exception as e:  # pylint: disable=broad-except
        obs.error = ("run", e)
    finally:
        if observe:
            for name in set(RUN_CALLBACKS.values()):
                if name in m.__dict__:
                    del m.__dict__[name]
    return obs


# ----------------------------------------------------------------------------------------------
# menus of concrete built-in steps (used by the legal-pipeline generators)
# ----------------------------------------------------------------------------------------------
def mc(method="sad", window=3, subpix=1, band=None):
    d = {"matching_cost_method": method, "window_size": window, "subpix": subpix}
    if band is not None:
        d["band"] = band
    return d


WTA = {"disparity_method": "wta", "invalid_disparity": -9999}
CBCA = {"aggregation_method": "cbca", "cbca_intensity": 30.0, "cbca_distance": 3}
VFIT = {"refinement_method": "vfit"}
QUAD = {"refinement_method": "quadratic"}
MEDIAN = {"filter_method": "median", "filter_size": 3}
BILATERAL = {"filter_method": "bilateral", "sigma_color": 2.0, "sigma_space": 0.7}
CROSS = {"validation_method": "cross_checking_accurate", "cross_checking_threshold": 1.0}
CROSS_MCCNN = dict(CROSS, interpolated_disparity="mc-cnn")
CROSS_SGM = dict(CROSS, interpolated_disparity="sgm")


def name_steps(kinds_and_cfgs):
    """[(kind, cfg), ...] -> ordered dict with '.k' suffixes for repeated kinds"""
    out = {}
    seen = {}
    for kind, cfg in kinds_and_cfgs:
        k = seen.get(kind, 0)
        seen[kind] = k + 1
        out[kind if k == 0 else f"{kind}.{k}"] = copy.deepcopy(cfg)
    return out


def digest(ds: xr.Dataset, names=("disparity_map", "validity_mask", "confidence_measure")) -> str:
    import hashlib  # pylint: disable=import-outside-toplevel

    h = hashlib.sha1()
    if ds is None:
        return "none"
    for n in names:
        if n in ds:
            a = np.ascontiguousarray(ds[n].data)
            h.update(n.encode())
            h.update(str(a.dtype).encode())
            h.update(str(a.shape).encode())
            if a.dtype.kind == "f":
                a = np.where(np.isnan(a), np.float64(-7.25e300) if a.dtype == np.float64 else np.float32(-7.25e30), a)
            h.update(np.ascontiguousarray(a).tobytes())
    if "indicator" in ds.coords:
        h.update("|".join(map(str, ds.coords["indicator"].data)).encode())
    return h.hexdigest()[:16]


__all__ = ["run_observed", "check", "meta_of", "Obs", "digest", "name_steps", "D"]
