"""
C03 - winner-takes-all picks each pixel's best cost inside its interval (DESIGN.md section 3, C03).

Enumerated on the real `WinnerTakesAll.to_disp`:
  * every per-pixel cost vector over a small alphabet (NaN included) for 1..k disparities, as a 1x1 volume;
  * the same vectors packed as the pixels of volumes of every shape of a grid that straddles the
    100-pixel block boundaries, the vector at (r, c) chosen by position so that a misplaced block,
    a swapped axis or a wrong block origin changes the expected map;
  * min/max measures, four invalid_disparity values (NaN included), integer and half-pixel
    disparity axes, with/without confidence bands, validity masks carrying every documented bit.
Oracle: unblocked per-pixel reference (lowest disparity among the best finite costs; invalid value
when all NaN), cost volume bit-identical before/after, confidence and validity carried over.
"""
from __future__ import annotations

import itertools

import numpy as np

from mc.drivers import datasets as D

ID = "C03"
LEVEL = "exploration"
BUDGET = {"quick": 300, "thorough": 3600}
CHUNK = 8
RULE = (
    "cases = (a) all cost vectors over the alphabet for each length as 1x1 volumes, (b) packed volumes for every "
    "shape of the block-straddling grid x measure type x invalid_disparity x disparity axis x confidence on/off; "
    "a case is non-trivial when its volume holds both NaN and finite costs and at least one tie; distinct = distinct "
    "(parameters, output map digest)"
)
ASSUMPTIONS = [
    "interval membership is observed through NaN costs (the disparity step receives the interval only that way)",
    "cost alphabet {NaN,0,1,2} (quick) / {NaN,0,1,2,3} (thorough); shapes up to 250x250",
]

INVALIDS = [-9999, "NaN", 0, 5.5]
FLAGS = [0, 1, 2, 4, 8, 16, 32, 64, 128, 256, 512, 1024, 2048, 1 + 64, 2 + 128 + 4]


def alphabet(tier):
    return [np.nan, 0.0, 1.0, 2.0] if tier == "quick" else [np.nan, 0.0, 1.0, 2.0, 3.0]


def vectors(nd, alpha):
    return np.array(list(itertools.product(alpha, repeat=nd)), dtype=np.float32)


def spaces(tier, seed):
    maxnd = 4 if tier == "quick" else 5
    nalpha = 4 if tier == "quick" else 5
    singles = [
        {"kind": "single", "nd": nd, "type": t, "inv": inv, "na": nalpha}
        for nd in range(1, maxnd + 1)
        for t in ("min", "max")
        for inv in INVALIDS
    ]
    if tier == "quick":
        sizes = [1, 2, 100, 101, 201]
    else:
        sizes = [1, 2, 99, 100, 101, 199, 200, 201, 250]
    packed = []
    for rows in sizes:
        for cols in sizes:
            for t in ("min", "max"):
                for ii, inv in enumerate(INVALIDS):
                    # rotate the remaining dimensions with the seed so that every seed is complete on the
                    # (shape x type x invalid) product and each of them sees every axis/conf/nd value
                    k = (rows * 3 + cols * 5 + ii + seed) % 1000
                    for nd in ([2, 3, 4] if tier == "thorough" else [2 + k % 3]):
                        for axis in (["int", "half"] if tier == "thorough" else [["int", "half"][k % 2]]):
                            for conf in ([0, 2] if tier == "thorough" else [[0, 2][(k // 2) % 2]]):
                                packed.append({"kind": "packed", "rows": rows, "cols": cols, "type": t, "inv": inv,
                                               "nd": nd, "axis": axis, "conf": conf, "na": nalpha,
                                               "off": (seed * 31 + k) % 97})
    machine = []
    k = -1
    for method, w in (("sad", 1), ("sad", 3), ("census", 3), ("zncc", 3), ("ssd", 1)):
        for subpix in (1, 2, 4):
            for form in ("scalar", "grid", "fgrid", "gmaxonly", "gminonly"):
                for mask in ("none", "left", "right"):
                    for inv in (-9999, "NaN"):
                        k += 1
                        if tier == "quick" and (k + seed) % 2:
                            continue
                        machine.append({"kind": "machine", "method": method, "w": w, "subpix": subpix, "form": form,
                                        "mask": mask, "inv": inv, "cbca": (k // 2) % 3 == 0, "seed": seed,
                                        "val": (k // 3) % 2 == 0})
    # long disparity axes: more samples than an 8-bit index can hold while the disparity span stays small
    longaxis = [{"kind": "long", "nd": nd, "subpix": sp, "type": t, "inv": inv, "rows": rows, "cols": cols}
                for nd in (255, 256, 257, 300, 521) for sp in (1, 2, 4) for t in ("min", "max")
                for inv in (-9999, "NaN") for (rows, cols) in ((3, 7), (101, 2))]
    hist = [{"kind": "defhist", "first": f, "type": t} for f in INVALIDS for t in ("min", "max")]
    infcv = [{"kind": "infcv", "nd": nd, "type": t, "inv": inv, "shape": shp}
             for nd in (1, 2, 3) for t in ("min", "max") for inv in (-9999, "NaN") for shp in ((1, 1), (3, 101))]
    near = [{"kind": "near", "nd": nd, "type": t, "inv": inv, "cmax": cm}
            for nd in (2, 3, 4) for t in ("min", "max") for inv in (-9999, "NaN") for cm in (1.0, 81.0)]
    return [
        {"name": "near ties: costs one or two float32 ulps apart around 1 and around 80 (a cost volume whose maximal "
                 "cost attribute is 1 or 81, as after cbca): the best one wins, not the first of an almost-tie",
         "level": 1, "cases": near},
        {"name": "volumes holding +/-inf costs next to NaN and finite ones: the step leaves them as they are "
                 "(only the unchanged / carried-over clauses are judged there)", "level": 1, "cases": infcv},
        {"name": "invalid_disparity omitted after another step object was configured with an explicit value", "level": 1,
         "cases": hist},
        {"name": "long disparity axes (255..521 samples, subpix 1/2/4), winner placed at every index class", "level": 1,
         "cases": longaxis},
        {"name": "single-pixel volumes, all vectors", "level": 0, "cases": singles},
        {"name": "position-coded packed volumes over the block grid", "level": 1, "cases": packed},
        {"name": "real cost volumes through the machine (masks, per-pixel interval grids, subpix, left and right pass)",
         "level": 2, "cases": machine},
    ]


def _inv_value(inv):
    return np.nan if inv == "NaN" else inv


def reference(costs, disps, type_measure, inv):
    """unblocked per-pixel reference, pure loops over pixels via argsort-free numpy on a 2-D view"""
    ny, nx, nd = costs.shape
    flat = costs.reshape(-1, nd).astype(np.float64)
    out = np.empty(flat.shape[0], dtype=np.float32)
    fin = ~np.isnan(flat)
    for i in range(flat.shape[0]):
        if not fin[i].any():
            out[i] = np.float32(_inv_value(inv))
            continue
        best = None
        for k in range(nd):
            if not fin[i, k]:
                continue
            if best is None or (flat[i, k] < flat[i, best] if type_measure == "min" else flat[i, k] > flat[i, best]):
                best = k
        out[i] = np.float32(disps[best])
    return out.reshape(ny, nx)


def reference_fast(costs, disps, type_measure, inv):
    """vectorised twin of `reference` (cross-checked against it on every 'single' case)"""
    c = costs.astype(np.float64)
    fin = ~np.isnan(c)
    if type_measure == "min":
        key = np.where(fin, c, np.inf)
        best = np.argmin(key, axis=2)
    else:
        key = np.where(fin, c, -np.inf)
        best = np.argmax(key, axis=2)
    out = np.asarray(disps, dtype=np.float64)[best].astype(np.float32)
    out[~fin.any(axis=2)] = np.float32(_inv_value(inv))
    return out


def _call(costs, disps, t, inv, conf=0, validity=None, origin=(0, 0)):
    from pandora import disparity  # pylint: disable=import-outside-toplevel

    confidence = None
    if conf:
        ny, nx, _ = costs.shape
        confidence = (np.arange(ny * nx * conf, dtype=np.float32).reshape(ny, nx, conf) % 251) / 4
        confidence[0, 0, 0] = np.nan
    cv = D.cost_volume(costs, disps, type_measure=t, validity=validity, confidence=confidence,
                       indicators=["confidence_from_a", "confidence_from_b.x"][:conf] if conf else None,
                       origin=origin, subpix=1 if len(disps) < 2 or float(disps[1] - disps[0]) == 1 else 2)
    before = cv.copy(deep=True)
    wta = disparity.AbstractDisparity(**{"disparity_method": "wta", "invalid_disparity": inv})
    out = wta.to_disp(cv)
    return before, cv, out


def _check(case, costs, disps, t, inv, before, cv, out, viol):
    def bad(clause, detail, cls=""):
        viol.append({"clause": clause, "key": f"C03/{clause}/{cls or t}", "detail": detail})

    exp = reference_fast(costs, disps, t, inv)
    got = out["disparity_map"].data
    if got.dtype != np.float32:
        bad("dtype", f"disparity_map dtype {got.dtype}")
    if not D.arr_eq(exp, got):
        w = np.argwhere(~((exp == got) | (np.isnan(exp) & np.isnan(got))))
        r, c = w[0]
        allnan = bool(np.isnan(costs[r, c]).all())
        cls = "all-NaN pixel" if allnan else ("tie" if _is_tie(costs[r, c], t) else "unique best")
        bad("best-disparity", f"pixel ({r},{c}) costs={costs[r, c].tolist()} disps={list(disps)} expected {exp[r, c]} "
            f"got {got[r, c]} ({len(w)} pixels differ, shape {costs.shape[:2]})", f"{t}/{cls}")
    if not D.arr_eq(before["cost_volume"].data, cv["cost_volume"].data) or cv["cost_volume"].dtype != np.float32:
        bad("cost-volume-unchanged", "cost volume values changed by the disparity step")
    if not D.arr_eq(before["validity_mask"].data, out["validity_mask"].data):
        bad("flags-carried", "validity mask of the disparity dataset differs from the cost volume's")
    if not D.arr_eq(before["validity_mask"].data, cv["validity_mask"].data):
        bad("flags-carried", "validity mask of the cost volume modified", "cv")
    if "confidence_measure" in before:
        if "confidence_measure" not in out or not D.arr_eq(
            before["confidence_measure"].data, out["confidence_measure"].data
        ) or list(out.coords["indicator"].data) != list(before.coords["indicator"].data):
            bad("confidence-carried", "confidence bands not carried over unaltered")
    elif "confidence_measure" in out:
        bad("confidence-carried", "confidence band invented", "invented")
    di = out["disparity_interval"].data
    if float(di[0]) != float(disps[0]) or float(di[1]) != float(disps[-1]):
        bad("disparity-interval", f"disparity_interval {di.tolist()} != [{disps[0]}, {disps[-1]}]")
    if not np.array_equal(out.coords["row"].data, before.coords["row"].data) or not np.array_equal(
        out.coords["col"].data, before.coords["col"].data
    ):
        bad("coords", "row/col coordinates of the disparity map differ from the cost volume's")


def _is_tie(vec, t):
    f = vec[~np.isnan(vec)]
    if f.size == 0:
        return False
    b = f.min() if t == "min" else f.max()
    return int((f == b).sum()) > 1


def run_machine(case):
    """
    the disparity step inside a real run: the cost volume it receives (snapshot after the previous step) must give,
    by the same reference, the map it returns; and - what the synthetic spaces can only see through NaN costs - the
    chosen disparity must lie inside the pixel's REQUESTED interval (the input grids)
    """
    from mc.drivers import pipeline as P  # pylint: disable=import-outside-toplevel

    ny, nx = 9, 13
    left, right = D.stereo_pair(ny, nx, shift=1, seed=case["seed"] + 31)
    rr, cc = np.meshgrid(np.arange(ny), np.arange(nx), indexing="ij")
    if case["form"] == "scalar":
        disp = (-2, 2)
        gmin = np.full((ny, nx), -2.0)
        gmax = np.full((ny, nx), 2.0)
    else:
        gmin = (-2 + (rr + cc) % 3).astype(np.float32)
        gmax = (gmin + (rr * 2 + cc) % 3).astype(np.float32)
        if case["form"] == "gmaxonly":  # only the upper bounds vary from pixel to pixel
            gmin = np.full((ny, nx), -2, dtype=np.float32)
            gmax = (-2 + (rr * 2 + cc) % 5).astype(np.float32)
        elif case["form"] == "gminonly":  # only the lower bounds vary
            gmax = np.full((ny, nx), 2, dtype=np.float32)
            gmin = (2 - (rr * 2 + cc) % 5).astype(np.float32)
        if case["form"] == "fgrid":
            # float grids whose bounds are no multiple of the sampling step (a prediction +/- a margin); some of
            # the intervals hold no sample at all
            gmin = (gmin + np.float32(0.3)).astype(np.float32)
            gmax = (gmax + np.float32(0.7)).astype(np.float32)
            gmax[::4, ::3] = gmin[::4, ::3] + np.float32(0.1)
        disp = (gmin, gmax)
    lm = rm = None
    if case["mask"] in ("left", "right"):
        m = np.zeros((ny, nx), dtype=np.int16)
        m[2, 3] = 1
        m[5, 8] = 2
        m[6, 1] = 2
        lm, rm = (m, None) if case["mask"] == "left" else (None, m)
    L = D.image(left, disp=disp, msk=lm)
    rdisp = None
    if case["form"] != "scalar":
        rdisp = ((-gmax[:, ::-1]).astype(np.float32), (-gmin[:, ::-1]).astype(np.float32))
    R = D.image(right, disp=rdisp, msk=rm)
    steps = [("matching_cost", P.mc(case["method"], case["w"], case["subpix"]))]
    if case["cbca"]:
        steps.append(("aggregation", P.CBCA))
    steps.append(("disparity", {"disparity_method": "wta", "invalid_disparity": case["inv"]}))
    if case["val"]:
        steps.append(("validation", P.CROSS))
    obs = P.run_observed(L, R, P.name_steps(steps), snapshot=("cv", "disp"))
    if obs.error:
        return {"n": 1, "sigs": [], "viol": [], "trivial": 1}  # not this property's business
    viol = []
    sigs = []
    idx = [i for i, st in enumerate(obs.steps) if st["step"] == "disparity"][0]
    before, after = obs.steps[idx - 1], obs.steps[idx]
    t = before["left_cv"].attrs["type_measure"]
    for side, grid in (("left", (gmin, gmax)), ("right", rdisp)):
        cvb = before[f"{side}_cv"]
        if cvb is None or "cost_volume" not in cvb or (side == "right" and not case["val"]):
            continue
        costs = cvb["cost_volume"].data
        disps = cvb.coords["disp"].data
        out = after[f"{side}_disp"]
        sub = []
        _check(case, costs, disps, t, case["inv"], cvb, after[f"{side}_cv"], out, sub)
        for v in sub:
            v["key"] = v["key"].replace("C03/", "C03/machine-" + side + "/", 1)
        viol += sub
        got = out["disparity_map"].data
        has = ~np.isnan(costs).all(axis=2)
        if grid is not None:
            lo, hi = grid
            outside = has & ((got < lo - 1e-6) | (got > hi + 1e-6))
            if outside.any():
                r, c = np.argwhere(outside)[0]
                viol.append({"clause": "inside-requested-interval", "key": f"C03/inside-requested-interval/machine-{side}",
                             "detail": f"pixel ({r},{c}) got disparity {got[r, c]} outside its requested interval "
                                       f"[{lo[r, c]}, {hi[r, c]}] ({case})"})
        step = 1.0 / case["subpix"]
        offgrid = has & (np.abs(np.round(got / step) * step - got) > 1e-6)
        if offgrid.any():
            r, c = np.argwhere(offgrid)[0]
            viol.append({"clause": "sampled-disparity", "key": f"C03/sampled-disparity/machine-{side}",
                         "detail": f"pixel ({r},{c}) got {got[r, c]}, not a multiple of 1/{case['subpix']} ({case})"})
        if np.isnan(costs).any() and np.isfinite(costs).any():
            import hashlib  # pylint: disable=import-outside-toplevel

            sigs.append(f"m|{side}|{case['method']}|{case['w']}|{case['subpix']}|{case['form']}|{case['mask']}|"
                        + hashlib.sha1(np.nan_to_num(got, nan=-7777.0).tobytes()).hexdigest()[:10])
    return {"n": max(1, len(sigs)), "sigs": sigs, "viol": viol[:6], "trivial": 0 if sigs else 1}


def run_long(case):
    nd, sp, t, inv = case["nd"], case["subpix"], case["type"], case["inv"]
    rows, cols = case["rows"], case["cols"]
    disps = -3.0 + np.arange(nd) / sp
    rr, cc = np.meshgrid(np.arange(rows), np.arange(cols), indexing="ij")
    win = (rr * 37 + cc * 91 + nd) % nd  # winners spread over the whole axis, beyond index 255 when nd allows
    win[0, 0] = nd - 1
    win[-1, -1] = min(nd - 1, 256)
    costs = np.full((rows, cols, nd), 5.0, dtype=np.float32)
    costs[rr, cc, win] = 1.0 if t == "min" else 9.0
    costs[rr, cc, (win + 3) % nd] = np.nan
    costs[0, cols - 1, :] = np.nan  # one pixel without any cost
    viol = []
    before, cv, out = _call(costs, disps, t, inv)
    _check(case, costs, disps, t, inv, before, cv, out, viol)
    for v in viol:
        v["key"] += "/long-axis"
    import hashlib  # pylint: disable=import-outside-toplevel

    dig = hashlib.sha1(np.nan_to_num(out["disparity_map"].data, nan=-7777.0).tobytes()).hexdigest()[:10]
    return {"n": 1, "sigs": [f"l|{nd}|{sp}|{t}|{inv}|{rows}|{dig}"], "viol": viol[:5]}


def run_defhist(case):
    """
    the configured invalid_disparity of THIS step (omitted = the documented default -9999) is what pixels without
    cost receive, whatever value an earlier disparity step object of the process was configured with
    """
    from pandora import disparity  # pylint: disable=import-outside-toplevel

    viol = []
    costs = np.array([[[np.nan, np.nan], [1.0, 0.0]]], dtype=np.float32)
    disps = np.array([-1, 0])
    first = disparity.AbstractDisparity(**{"disparity_method": "wta", "invalid_disparity": case["first"]})
    first.to_disp(D.cost_volume(costs, disps, type_measure=case["type"]))
    second = disparity.AbstractDisparity(**{"disparity_method": "wta"})
    out = second.to_disp(D.cost_volume(costs, disps, type_measure=case["type"]))
    got = float(out["disparity_map"].data[0, 0])
    if got != -9999.0:
        viol.append({"clause": "configured-invalid-disparity", "key": "C03/configured-invalid-disparity/default after "
                     "an explicit value on another object", "detail": f"a step configured without invalid_disparity "
                     f"(default -9999) wrote {got} after an earlier step object was configured with {case['first']!r}"})
    return {"n": 1, "sigs": [f"dh|{case['first']}|{case['type']}|{got}"], "viol": viol}


def run_case(case):
    if case["kind"] == "defhist":
        return run_defhist(case)
    if case["kind"] == "machine":
        return run_machine(case)
    if case["kind"] == "long":
        return run_long(case)
    if case["kind"] == "infcv":
        return run_infcv(case)
    if case["kind"] == "near":
        return run_near(case)
    alpha = [np.nan, 0.0, 1.0, 2.0, 3.0][: case["na"]]
    nd, t, inv = case["nd"], case["type"], case["inv"]
    vecs = vectors(nd, alpha)
    viol = []
    sigs = []
    if case["kind"] == "single":
        disps = np.arange(-1, -1 + nd)
        n = 0
        for v in vecs:
            costs = v.reshape(1, 1, nd)
            before, cv, out = _call(costs, disps, t, inv)
            _check(case, costs, disps, t, inv, before, cv, out, viol)
            slow = reference(costs, disps, t, inv)
            if not D.arr_eq(slow, reference_fast(costs, disps, t, inv)):
                raise AssertionError("reference models disagree")  # harness bug, not a verdict
            n += 1
            sigs.append(f"s|{v.tolist()}|{t}|{inv}|{out['disparity_map'].data.tolist()}")
        return {"n": n, "sigs": sigs, "viol": viol[:5]}
    rows, cols = case["rows"], case["cols"]
    disps = np.arange(-2, -2 + nd) if case["axis"] == "int" else -1 + 0.5 * np.arange(nd)
    rr, cc = np.meshgrid(np.arange(rows), np.arange(cols), indexing="ij")
    idx = (rr * 7 + cc * 13 + case["off"]) % len(vecs)
    costs = vecs[idx]
    validity = np.array(FLAGS, dtype=np.uint16)[(rr * 3 + cc) % len(FLAGS)]
    before, cv, out = _call(costs, disps, t, inv, case["conf"], validity, origin=(rows % 3, cols % 5))
    _check(case, costs, disps, t, inv, before, cv, out, viol)
    nontrivial = bool(np.isnan(costs).any() and np.isfinite(costs).any())
    import hashlib  # pylint: disable=import-outside-toplevel

    dig = hashlib.sha1(np.nan_to_num(out["disparity_map"].data, nan=-7777.0).tobytes()).hexdigest()[:12]
    sigs = [f"p|{rows}x{cols}|{t}|{inv}|{nd}|{case['axis']}|{case['conf']}|{dig}"] if nontrivial else []
    return {"n": 1, "sigs": sigs, "viol": viol[:5], "trivial": 0 if nontrivial else 1}


def run_near(case):
    """every vector over {NaN, x, next(x), next(next(x))} for x = 1 - 2 ulp and x = 80 - 2 ulp"""
    from pandora import disparity  # pylint: disable=import-outside-toplevel

    nd, t, inv = case["nd"], case["type"], case["inv"]
    viol, sigs, n = [], [], 0
    disps = np.arange(-1, -1 + nd)
    for base in (np.float32(1.0), np.float32(80.0), np.float32(2.0 ** 32)):
        # 2^32: ssd costs of 16-bit imagery, where x + 1 == x in float32 (a finite "larger than everything" sentinel
        # built from the largest cost does not exist)
        lo = np.nextafter(np.nextafter(base, np.float32(0)), np.float32(0))
        alpha = [np.nan, lo, np.nextafter(lo, np.float32(1e30)), base]
        vecs = vectors(nd, alpha)
        costs = vecs.reshape(1, len(vecs), nd)
        cv = D.cost_volume(costs, disps, type_measure=t, cmax=case["cmax"])
        before = cv.copy(deep=True)
        wta = disparity.AbstractDisparity(**{"disparity_method": "wta", "invalid_disparity": inv})
        out = wta.to_disp(cv)
        sub = []
        _check(case, costs, disps, t, inv, before, cv, out, sub)
        for v in sub:
            v["key"] += "/near-tie"
        viol += sub
        n += len(vecs)
        sigs.append(f"n|{nd}|{t}|{inv}|{case['cmax']}|{float(base)}|"
                    f"{np.nan_to_num(out['disparity_map'].data, nan=-7777.0).tobytes().hex()[:24]}")
    # a volume without any computable cost (fully masked tile) that carries confidence bands and flags
    empty = np.full((2, 3, nd), np.nan, dtype=np.float32)
    flags = np.array(FLAGS, dtype=np.uint16)[np.arange(6).reshape(2, 3) % len(FLAGS)]
    before, cv, out = _call(empty, disps, t, inv, 2, flags)
    sub = []
    _check(case, empty, disps, t, inv, before, cv, out, sub)
    for v in sub:
        v["key"] += "/volume without any cost"
    viol += sub
    n += 1
    return {"n": n, "sigs": sigs, "viol": viol[:4]}


def run_infcv(case):
    """
    every cost vector over {NaN, -inf, 0, 1, +inf}: which of several infinite costs wins is not defined by the
    property, but the volume, its flags and the confidence bands must come out of the step exactly as they went in
    """
    nd, t, inv = case["nd"], case["type"], case["inv"]
    vecs = vectors(nd, [np.nan, -np.inf, 0.0, 1.0, np.inf])
    disps = np.arange(-1, -1 + nd)
    ny, nx = case["shape"]
    viol, sigs, n = [], [], 0

    def judge(costs, conf, validity):
        before, cv, out = _call(costs, disps, t, inv, conf, validity)
        if not D.arr_eq(before["cost_volume"].data, cv["cost_volume"].data) or cv["cost_volume"].dtype != np.float32:
            w = np.argwhere(~((before["cost_volume"].data == cv["cost_volume"].data)
                              | (np.isnan(before["cost_volume"].data) & np.isnan(cv["cost_volume"].data))))
            r, c, d = w[0]
            viol.append({"clause": "cost-volume-unchanged", "key": f"C03/cost-volume-unchanged/{t}/infinite costs",
                         "detail": f"cost vector {costs[r, c].tolist()} ({t}, invalid_disparity {inv}) came out as "
                                   f"{cv['cost_volume'].data[r, c].tolist()}"})
        if not D.arr_eq(before["validity_mask"].data, out["validity_mask"].data) or not D.arr_eq(
                before["validity_mask"].data, cv["validity_mask"].data):
            viol.append({"clause": "flags-carried", "key": f"C03/flags-carried/{t}/infinite costs",
                         "detail": "validity mask altered by the disparity step on a volume with infinite costs"})
        if conf and ("confidence_measure" not in out or not D.arr_eq(before["confidence_measure"].data,
                                                                     out["confidence_measure"].data)):
            viol.append({"clause": "confidence-carried", "key": f"C03/confidence-carried/{t}/infinite costs",
                         "detail": "confidence bands altered by the disparity step on a volume with infinite costs"})
        return out

    if (ny, nx) == (1, 1):
        for v in vecs:
            out = judge(v.reshape(1, 1, nd), 0, None)
            n += 1
            sigs.append(f"i|{v.tolist()}|{t}|{inv}|{np.nan_to_num(out['disparity_map'].data, nan=-7777.0).tolist()}")
    else:
        rr, cc = np.meshgrid(np.arange(ny), np.arange(nx), indexing="ij")
        costs = vecs[(rr * 7 + cc * 13) % len(vecs)]
        validity = np.array(FLAGS, dtype=np.uint16)[(rr * 3 + cc) % len(FLAGS)]
        judge(costs, 2, validity)
        n += 1
        sigs.append(f"i|packed|{nd}|{t}|{inv}")
    return {"n": n, "sigs": sigs, "viol": viol[:4]}


def init_worker():
    run_case({"kind": "single", "nd": 1, "type": "min", "inv": -9999, "na": 2})
