"""
Tiny GeoTIFF / text files for the checks that go through Pandora's file-based entry points
(check_input_section, check_conf, pandora.main).

Everything is written into ONE per-process scratch directory created with tempfile.mkdtemp() outside /repo and
/verif and removed at interpreter exit.  File names are deterministic (they encode the content class), so a
case descriptor can name a file by its *role* ("img", "img_other", "grid_1band", ...) and never by its path:
paths must not appear in signatures, keys or replay files.
"""
from __future__ import annotations

import atexit
import json
import os
import shutil
import tempfile
import warnings

import numpy as np

_DIR = None
_MADE = {}


def scratch() -> str:
    """the per-process scratch directory (created on first use, removed at exit)"""
    global _DIR  # pylint: disable=global-statement
    if _DIR is None or not os.path.isdir(_DIR):
        _sweep()
        _DIR = tempfile.mkdtemp(prefix=f"mc_files_{os.getpid()}_")
        _MADE.clear()
        atexit.register(shutil.rmtree, _DIR, True)
    return _DIR


def _sweep() -> None:
    """remove scratch directories left by processes that were killed before their atexit handler could run"""
    root = tempfile.gettempdir()
    try:
        names = os.listdir(root)
    except OSError:
        return
    for name in names:
        parts = name.split("_")
        if len(parts) < 4 or parts[0] != "mc" or parts[1] != "files" or not parts[2].isdigit():
            continue
        try:
            os.kill(int(parts[2]), 0)
        except ProcessLookupError:
            shutil.rmtree(os.path.join(root, name), ignore_errors=True)
        except OSError:
            pass


def write_tif(name: str, data, dtype="float32", descriptions=None, nodata=None, georef=False) -> str:
    """
    :param data: (rows, cols) or (bands, rows, cols) array
    :return: path of the written file (memoised on `name`: same name = same content, written once per process)
    """
    import rasterio  # pylint: disable=import-outside-toplevel
    from rasterio.transform import from_origin  # pylint: disable=import-outside-toplevel

    if name in _MADE and os.path.exists(_MADE[name]):
        return _MADE[name]
    arr = np.asarray(data)
    if arr.ndim == 2:
        arr = arr[None]
    path = os.path.join(scratch(), name + ".tif")
    kw = {"driver": "GTiff", "height": arr.shape[1], "width": arr.shape[2], "count": arr.shape[0], "dtype": dtype}
    if nodata is not None:
        kw["nodata"] = nodata
    if georef:
        kw["crs"] = "EPSG:32631"
        kw["transform"] = from_origin(500000.0, 4000000.0, 0.5, 0.5)
    with warnings.catch_warnings():
        warnings.simplefilter("ignore")
        with rasterio.open(path, "w", **kw) as dst:
            dst.write(arr.astype(dtype))
            if descriptions is not None:
                dst.descriptions = tuple(descriptions)
    _MADE[name] = path
    return path


def write_text(name: str, text: str = "this is not a raster\n") -> str:
    if name in _MADE and os.path.exists(_MADE[name]):
        return _MADE[name]
    path = os.path.join(scratch(), name)
    with open(path, "w", encoding="utf8") as f:
        f.write(text)
    _MADE[name] = path
    return path


def missing_path(name: str = "does_not_exist.tif") -> str:
    """a path inside the scratch directory at which no file exists"""
    return os.path.join(scratch(), name)


def write_json(name: str, obj) -> str:
    path = os.path.join(scratch(), name)
    with open(path, "w", encoding="utf8") as f:
        json.dump(obj, f)
    return path


def new_dir(name: str) -> str:
    """fresh empty directory inside the scratch directory"""
    path = os.path.join(scratch(), name)
    shutil.rmtree(path, ignore_errors=True)
    os.makedirs(path)
    return path


# ----------------------------------------------------------------------------------------------
# the file library used by C05 / C17 / C20 (roles -> files), for one image size
# ----------------------------------------------------------------------------------------------
def _generic(ny, nx, variant):
    """integer-valued, all-distinct-ish deterministic radiometry"""
    rr, cc = np.meshgrid(np.arange(ny), np.arange(nx), indexing="ij")
    return ((rr * 37 + cc * 11 + variant * 53 + (rr * cc) % 7) % 251).astype(np.float32)


def library(ny: int = 6, nx: int = 8, bands=("r", "g", "b")) -> dict:
    """
    role -> path.  Roles (all rasters are ny x nx unless said otherwise):
      img_l, img_r              monoband float32 images
      mb_l, mb_r                multiband images with band descriptions `bands`
      img_other                 monoband image of another size (ny+1 x nx+2)
      img_rows / img_cols       monoband images differing from ny x nx in rows only / columns only
      mask, mask_other          int16 masks (image size / other size)
      classif, classif_other    2-band int16 classification (descriptions c0, c1)
      segm, segm_other          int16 segmentation
      grid2, grid2_r            2-band disparity grids with min <= max everywhere (left: [-2..0, 0..2])
      grid_eq                   2-band grid with min == max everywhere
      grid1, grid3              1-band and 3-band grids
      grid_other                2-band grid of another size
      grid_minmax               2-band grid with min > max at exactly one pixel
      text                      a text file (exists, not a raster)
      missing                   a path at which nothing exists
    """
    tag = f"{ny}x{nx}"
    lib = {}
    lib["img_l"] = write_tif(f"img_l_{tag}", _generic(ny, nx, 0))
    lib["img_r"] = write_tif(f"img_r_{tag}", _generic(ny, nx, 1))
    mb = np.stack([_generic(ny, nx, 2 + i) for i in range(len(bands))])
    lib["mb_l"] = write_tif(f"mb_l_{tag}_{'-'.join(bands)}", mb, descriptions=bands)
    lib["mb_r"] = write_tif(f"mb_r_{tag}_{'-'.join(bands)}", mb[::-1], descriptions=bands)
    lib["img_other"] = write_tif(f"img_other_{tag}", _generic(ny + 1, nx + 2, 7))
    lib["img_rows"] = write_tif(f"img_rows_{tag}", _generic(ny + 1, nx, 8))
    lib["img_cols"] = write_tif(f"img_cols_{tag}", _generic(ny, nx + 1, 9))
    msk = np.zeros((ny, nx), dtype=np.int16)
    msk[0, 0] = 1
    msk[-1, -1] = 2
    lib["mask"] = write_tif(f"mask_{tag}", msk, dtype="int16")
    lib["mask_other"] = write_tif(f"mask_other_{tag}", np.zeros((ny + 1, nx + 2), dtype=np.int16), dtype="int16")
    cl = np.zeros((2, ny, nx), dtype=np.int16)
    cl[0, :, : nx // 2] = 1
    cl[1, :, nx // 2:] = 1
    lib["classif"] = write_tif(f"classif_{tag}", cl, dtype="int16", descriptions=("c0", "c1"))
    lib["classif_other"] = write_tif(f"classif_other_{tag}", np.zeros((2, ny + 1, nx + 2), dtype=np.int16),
                                     dtype="int16", descriptions=("c0", "c1"))
    sg = (np.arange(ny * nx).reshape(ny, nx) % 3).astype(np.int16)
    lib["segm"] = write_tif(f"segm_{tag}", sg, dtype="int16")
    lib["segm_other"] = write_tif(f"segm_other_{tag}", np.zeros((ny + 1, nx + 2), dtype=np.int16), dtype="int16")
    rr, cc = np.meshgrid(np.arange(ny), np.arange(nx), indexing="ij")
    gmin = (-2 + (rr + cc) % 3).astype(np.float32)
    gmax = (gmin + 2 - (rr % 2)).astype(np.float32)
    lib["grid2"] = write_tif(f"grid2_{tag}", np.stack([gmin, gmax]))
    lib["grid2_r"] = write_tif(f"grid2_r_{tag}", np.stack([-gmax, -gmin]))
    lib["grid_eq"] = write_tif(f"grid_eq_{tag}", np.stack([gmin, gmin]))
    lib["grid1"] = write_tif(f"grid1_{tag}", gmin)
    lib["grid3"] = write_tif(f"grid3_{tag}", np.stack([gmin, gmax, gmax]))
    lib["grid_other"] = write_tif(f"grid_other_{tag}", np.zeros((2, ny + 1, nx + 2), dtype=np.float32))
    bad = np.stack([gmin, gmax]).copy()
    bad[0, ny - 1, nx - 1] = bad[1, ny - 1, nx - 1] + 1
    lib["grid_minmax"] = write_tif(f"grid_minmax_{tag}", bad)
    # grids stored in narrow integer types: "min <= max everywhere" must be decided on the values, whatever the
    # sample type (an unsigned difference wraps, a narrow signed one overflows)
    umin = ((rr + cc) % 3).astype(np.uint8)
    lib["grid_u8"] = write_tif(f"grid_u8_{tag}", np.stack([umin, umin + 2]).astype(np.uint8), dtype="uint8")
    ubad = np.stack([umin, umin + 2]).astype(np.uint8)
    ubad[0, 1, 1] = ubad[1, 1, 1] + 1
    lib["grid_u8_minmax"] = write_tif(f"grid_u8_minmax_{tag}", ubad, dtype="uint8")
    wide = np.stack([np.full((ny, nx), -20000), np.full((ny, nx), 20000)]).astype(np.int16)
    lib["grid_i16_wide"] = write_tif(f"grid_i16_wide_{tag}", wide, dtype="int16")
    lib["text"] = write_text(f"notes_{tag}.txt")
    lib["missing"] = missing_path()
    return lib
