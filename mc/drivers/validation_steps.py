"""
Driver shared by C07 and C14: calls the real validation classes on in-memory disparity datasets.

    cross_check(...)  -> validation.AbstractValidation(**cfg).disparity_checking(left, right)
    Filler(...).run() -> validation.AbstractInterpolation(**cfg).interpolated_disparity(left)

Datasets are built with mc.drivers.datasets.disparity() (the form WinnerTakesAll.to_disp returns).
"""
from __future__ import annotations

import numpy as np

from mc.drivers import datasets as D

BAND = "confidence_from_left_right_consistency"


def cross_check(dl, dr, fl=None, fr=None, thr=1.0, interval=(-2, 2), offset=0, conf=0, thr_given=True):
    """
    :return: dict(out=returned dataset, left=dataset passed as left (mutated in place by the step),
                  right=dataset passed as right, right_before=deep copy, left_before=deep copy, error=None|exception)
    """
    from pandora import validation  # pylint: disable=import-outside-toplevel

    dl = np.asarray(dl, dtype=np.float32)
    dr = np.asarray(dr, dtype=np.float32)
    ny, nx = dl.shape
    confidence = None
    indicators = None
    if conf:
        confidence = ((np.arange(ny * nx * conf, dtype=np.float32).reshape(ny, nx, conf) * 7) % 113) / 8
        confidence[0, 0, 0] = np.nan
        indicators = ["confidence_from_ambiguity", "confidence_from_std_intensity.x"][:conf]
    window = 1 + 2 * offset
    left = D.disparity(dl, validity=fl, interval=[interval[0], interval[1]], confidence=confidence,
                       indicators=indicators, window_size=window)
    right = D.disparity(dr, validity=fr, interval=[-interval[1], -interval[0]], window_size=window)
    left_before = left.copy(deep=True)
    right_before = right.copy(deep=True)
    cfg = {"validation_method": "cross_checking_accurate"}
    if thr_given:
        cfg["cross_checking_threshold"] = thr
    res = {"left": left, "right": right, "left_before": left_before, "right_before": right_before, "out": None,
           "error": None}
    try:
        step = validation.AbstractValidation(**cfg)
        res["out"] = step.disparity_checking(left, right)
    except Exception as e:  # pylint: disable=broad-except
        res["error"] = e
    return res


class Filler:
    """re-usable left dataset of a fixed shape for the filling methods (dataset construction is 10x the call)"""

    def __init__(self, shape, offset=0, interval=(-2, 2)):
        self.shape = shape
        self.offset = offset
        self.ds = D.disparity(np.zeros(shape, dtype=np.float32), interval=list(interval), window_size=1 + 2 * offset)
        self.attrs = dict(self.ds.attrs)
        self.steps = {}

    def run(self, method, disp, flags):
        """
        :return: (disp_out, flags_out, error); inputs are copied, the dataset is reset before every call
        """
        from pandora import validation  # pylint: disable=import-outside-toplevel

        ds = self.ds
        ds.attrs = dict(self.attrs)
        ds["disparity_map"].data = np.array(disp, dtype=np.float32, copy=True)
        ds["validity_mask"].data = np.array(flags, dtype=np.uint16, copy=True)
        if method not in self.steps:
            self.steps[method] = validation.AbstractInterpolation(
                **{"validation_method": "cross_checking_accurate", "interpolated_disparity": method}
            )
        try:
            self.steps[method].interpolated_disparity(ds)
        except Exception as e:  # pylint: disable=broad-except
            return None, None, e
        return ds["disparity_map"].data, ds["validity_mask"].data, None


def fill_fresh(method, disp, flags, offset=0, interval=(-2, 2)):
    """same call on a freshly built dataset (used on a subset to show that re-use of the dataset is harmless)"""
    from pandora import validation  # pylint: disable=import-outside-toplevel

    ds = D.disparity(np.asarray(disp, dtype=np.float32), validity=np.asarray(flags, dtype=np.uint16),
                     interval=list(interval), window_size=1 + 2 * offset)
    step = validation.AbstractInterpolation(
        **{"validation_method": "cross_checking_accurate", "interpolated_disparity": method}
    )
    step.interpolated_disparity(ds)
    return ds["disparity_map"].data, ds["validity_mask"].data, ds


# ----------------------------------------------------------------------------------------------
# machine level: small real pipelines ending with a validation step
# ----------------------------------------------------------------------------------------------
def pipeline_of(case):
    from mc.drivers import pipeline as P  # pylint: disable=import-outside-toplevel

    steps = [("matching_cost", P.mc(case["method"], case["window"], case["subpix"])),
             ("disparity", dict(P.WTA))]
    if case["post"] == "vfit":
        steps.append(("refinement", dict(P.VFIT)))
    elif case["post"] == "median":
        steps.append(("filter", dict(P.MEDIAN)))
    val = {"validation_method": "cross_checking_accurate", "cross_checking_threshold": case["thr"]}
    if case.get("fill"):
        val["interpolated_disparity"] = case["fill"]
    steps.append(("validation", val))
    return P.name_steps(steps)


def images_of(case):
    left, right = D.stereo_pair(case["ny"], case["nx"], shift=case["shift"], seed=case["img"])
    return D.image(left, disp=tuple(case["disp"])), D.image(right)
