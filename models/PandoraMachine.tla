--------------------------- MODULE PandoraMachine ---------------------------
(* The documented Pandora state machine (docs/source/userguide/sequencing.rst and the statement of     *)
(* property C01), NOT transcribed from pandora/state_machine.py.                                        *)
(*   check phase : steps are appended one by one; a step whose trigger is not enabled in the current    *)
(*                 state rejects the pipeline (sequencing error); otherwise the state advances.         *)
(*   run phase   : scales nscales-1 .. 0, coarse to fine; on every scale the configured steps execute   *)
(*                 once each, in order; a multiscale step on a scale > 0 ends that scale (the machine   *)
(*                 returns to begin), on scale 0 it has no effect; afterwards the machine is idle in    *)
(*                 begin.                                                                               *)
(* Every maximal behaviour of this model is replayed against the implementation (mc/props/c01.py).      *)
EXTENDS Naturals, Sequences

CONSTANTS MaxLen, MaxScales

Kinds == {"matching_cost", "aggregation", "optimization", "semantic_segmentation",
          "cost_volume_confidence", "disparity", "filter", "refinement", "validation", "multiscale"}

CvKinds == {"aggregation", "optimization", "semantic_segmentation", "cost_volume_confidence"}
DmKinds == {"filter", "refinement", "validation", "multiscale"}

Delta(s, k) ==
    IF s = "begin" /\ k = "matching_cost" THEN "cost_volume"
    ELSE IF s = "cost_volume" /\ k \in CvKinds THEN "cost_volume"
    ELSE IF s = "cost_volume" /\ k = "disparity" THEN "disp_map"
    ELSE IF s = "disp_map" /\ k \in DmKinds THEN "disp_map"
    ELSE "none"

VARIABLES phase, pipe, st, idx, scale, nscales, log

vars == <<phase, pipe, st, idx, scale, nscales, log>>

HasKind(k) == \E i \in 1..Len(pipe) : pipe[i] = k

Init == /\ phase = "check"
        /\ pipe = <<>>
        /\ st = "begin"
        /\ idx = 0
        /\ scale = 0
        /\ nscales = 1
        /\ log = <<>>

AddStep ==
    /\ phase = "check"
    /\ Len(pipe) < MaxLen
    /\ \E k \in Kinds :
         /\ pipe' = Append(pipe, k)
         /\ IF Delta(st, k) = "none"
              THEN /\ phase' = "rejected"
                   /\ UNCHANGED <<st, idx, scale, nscales, log>>
              ELSE /\ st' = Delta(st, k)
                   /\ UNCHANGED <<phase, idx, scale, nscales, log>>

EndCheck ==
    /\ phase = "check"
    /\ \E n \in 1..MaxScales :
         /\ IF HasKind("multiscale") THEN n >= 2 ELSE n = 1
         /\ nscales' = n
         /\ scale' = n - 1
    /\ phase' = "run"
    /\ st' = "begin"
    /\ idx' = 1
    /\ UNCHANGED <<pipe, log>>

RunStep ==
    /\ phase = "run"
    /\ idx <= Len(pipe)
    /\ LET k == pipe[idx] IN
         IF k = "multiscale"
           THEN IF scale > 0
                  THEN /\ log' = Append(log, <<idx, scale>>)
                       /\ scale' = scale - 1
                       /\ idx' = 1
                       /\ st' = "begin"
                       /\ UNCHANGED <<phase, pipe, nscales>>
                  ELSE /\ idx' = idx + 1
                       /\ UNCHANGED <<phase, pipe, st, scale, nscales, log>>
           ELSE /\ log' = Append(log, <<idx, scale>>)
                /\ st' = Delta(st, k)
                /\ idx' = idx + 1
                /\ UNCHANGED <<phase, pipe, scale, nscales>>

EndRun ==
    /\ phase = "run"
    /\ idx > Len(pipe)
    /\ phase' = "done"
    /\ st' = "begin"
    /\ UNCHANGED <<pipe, idx, scale, nscales, log>>

Next == AddStep \/ EndCheck \/ RunStep \/ EndRun

Spec == Init /\ [][Next]_vars

-----------------------------------------------------------------------------
TypeOK == /\ phase \in {"check", "rejected", "run", "done"}
          /\ st \in {"begin", "cost_volume", "disp_map", "none"}
          /\ Len(pipe) <= MaxLen
          /\ scale \in 0..MaxScales
          /\ nscales \in 1..MaxScales

(* an accepted pipeline never meets a sequencing error while running *)
NoSequencingErrorAtRun == phase \in {"run", "done"} => st # "none"

(* idle in begin at the end, on the last scale *)
EndsInBegin == phase = "done" => (st = "begin" /\ scale = 0)

(* position of the first multiscale step, Len+1 if none *)
FirstMs == IF HasKind("multiscale")
             THEN CHOOSE i \in 1..Len(pipe) : pipe[i] = "multiscale" /\ \A j \in 1..(i-1) : pipe[j] # "multiscale"
             ELSE Len(pipe) + 1

Count(i, s) == Len(SelectSeq(log, LAMBDA e : e = <<i, s>>))

(* each configured step takes effect exactly once per processed scale *)
ExactlyOnce ==
    phase = "done" =>
      \A s \in 0..(nscales - 1) : \A i \in 1..Len(pipe) :
          Count(i, s) = IF s > 0 THEN (IF i <= FirstMs THEN 1 ELSE 0)
                                 ELSE (IF pipe[i] = "multiscale" THEN 0 ELSE 1)

(* in the configured order, coarse to fine *)
InOrder ==
    \A a \in 1..Len(log) : \A b \in 1..Len(log) :
        a < b => \/ log[a][2] > log[b][2]
                 \/ (log[a][2] = log[b][2] /\ log[a][1] < log[b][1])
=============================================================================
