#!/venv/bin/python
"""tools/mut.py <scratchdir> <CNN[,CNN]> <relative file> <old> <new> [budget]  -- apply one textual mutation to a scratch
copy of /repo/pandora, run the check(s) against it, print verdict lines, remove the copy"""
import os
import shutil
import subprocess
import sys

scratch, checks, rel, old, new = sys.argv[1:6]
budget = sys.argv[6] if len(sys.argv) > 6 else "200"
root = os.path.join(scratch, "repo")
shutil.rmtree(root, ignore_errors=True)
os.makedirs(root)
shutil.copytree("/repo/pandora", os.path.join(root, "pandora"), ignore=shutil.ignore_patterns("__pycache__"))
p = os.path.join(root, rel)
s = open(p).read()
if s.count(old) < 1:
    sys.exit(f"pattern not found in {rel}")
open(p, "w").write(s.replace(old, new, 1))
for c in checks.split(","):
    env = dict(os.environ, MC_REPO=root, MC_BUDGET=budget, MC_WORKERS=os.environ.get("MC_WORKERS", "8"))
    r = subprocess.run(["/verif/check", c, "--tier", "quick"], env=env, capture_output=True, text=True, cwd="/verif")
    lines = [l for l in r.stdout.splitlines() if l.startswith(("VIOLATION", "  clause", "[C", "HARNESS", "KNOWN"))]
    print(f"== {c} exit={r.returncode}")
    print("\n".join(l[:260] for l in lines[:9]))
    if r.returncode == 2:
        print(r.stdout[-1500:], r.stderr[-1500:])
shutil.rmtree(scratch, ignore_errors=True)
