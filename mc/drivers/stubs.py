"""
Stub plug-ins (optimization, semantic_segmentation have no built-in method) registered through the public
registries, and call spies on the step classes.

Spies wrap the *methods the machine's run callbacks call* on the registered step classes; when armed they log
(method, roles of the dataset arguments) where a role says which of the machine's six products the argument
*is* (identity) at call time: Limg, Rimg, Lcv, Rcv, Ldisp, Rdisp.  The real method always runs.
"""
from __future__ import annotations

import functools

STUB = "verif_stub"


class SpyState:
    def __init__(self):
        self.machine = None
        self.log = []
        self.step = None


SPY = SpyState()
_INSTALLED = False


def _role(m, obj):
    if obj is None:
        return "None"
    for name, attr in (("Limg", "left_img"), ("Rimg", "right_img"), ("Lcv", "left_cv"), ("Rcv", "right_cv"),
                       ("Ldisp", "left_disparity"), ("Rdisp", "right_disparity")):
        if getattr(m, attr, None) is obj:
            return name
    return "?"


def _wrap(klass, mname, kind, nargs):
    orig = klass.__dict__[mname]
    is_static = isinstance(orig, staticmethod)
    func = orig.__func__ if is_static else orig

    @functools.wraps(func)
    def spy(*args, **kwargs):
        m = SPY.machine
        if m is not None:
            real = args if is_static else args[1:]
            roles = tuple(_role(m, a) for a in real[:nargs])
            SPY.log.append({"step": SPY.step, "kind": kind, "method": mname, "roles": roles,
                            "scale": m.current_scale,
                            "shape": (int(m.left_img.sizes["row"]), int(m.left_img.sizes["col"]))})
        return func(*args, **kwargs)

    setattr(klass, mname, staticmethod(spy) if is_static else spy)


def register_stubs():
    """idempotent: stub optimisation and semantic segmentation plug-ins"""
    from pandora import optimization, semantic_segmentation  # pylint: disable=import-outside-toplevel

    if STUB not in optimization.AbstractOptimization.optimization_methods_avail:

        @optimization.AbstractOptimization.register_subclass(STUB)
        class StubOptimization(optimization.AbstractOptimization):  # pylint: disable=unused-variable
            """identity optimisation"""

            def __init__(self, _img, **cfg):
                if "p" in cfg and (not isinstance(cfg["p"], int) or isinstance(cfg["p"], bool) or cfg["p"] < 0):
                    raise ValueError("stub optimisation: invalid parameter p")
                self.cfg = dict(cfg)

            def desc(self):
                pass

            def optimize_cv(self, cv, img_left, img_right):
                return cv

    if STUB not in semantic_segmentation.AbstractSemanticSegmentation.segmentation_methods_avail:

        @semantic_segmentation.AbstractSemanticSegmentation.register_subclass(STUB)
        class StubSegmentation(semantic_segmentation.AbstractSemanticSegmentation):  # pylint: disable=unused-variable
            """identity segmentation"""

            def __init__(self, _img, **cfg):
                if "p" in cfg and (not isinstance(cfg["p"], int) or isinstance(cfg["p"], bool) or cfg["p"] < 0):
                    raise ValueError("stub segmentation: invalid parameter p")
                self.cfg = dict(cfg)

            def desc(self):
                pass

            def compute_semantic_segmentation(self, cv, img_left, img_right):
                return img_left


def install_spies():
    """idempotent; class-level wrappers, inert unless SPY.machine is set"""
    global _INSTALLED  # pylint: disable=global-statement
    if _INSTALLED:
        return
    register_stubs()
    from pandora import (aggregation, cost_volume_confidence, disparity, filter as pfilter, matching_cost,  # pylint: disable=import-outside-toplevel
                         multiscale, optimization, refinement, semantic_segmentation, validation)

    table = [
        ("matching_cost", matching_cost.AbstractMatchingCost, matching_cost.AbstractMatchingCost.matching_cost_methods_avail,
         [("allocate_cost_volume", 1), ("compute_cost_volume", 3), ("cv_masked", 3)]),
        ("aggregation", aggregation.AbstractAggregation, aggregation.AbstractAggregation.aggreg_methods_avail,
         [("cost_volume_aggregation", 3)]),
        ("optimization", optimization.AbstractOptimization, optimization.AbstractOptimization.optimization_methods_avail,
         [("optimize_cv", 3)]),
        ("semantic_segmentation", semantic_segmentation.AbstractSemanticSegmentation,
         semantic_segmentation.AbstractSemanticSegmentation.segmentation_methods_avail,
         [("compute_semantic_segmentation", 3)]),
        ("cost_volume_confidence", cost_volume_confidence.AbstractCostVolumeConfidence,
         cost_volume_confidence.AbstractCostVolumeConfidence.confidence_methods_avail, [("confidence_prediction", 4)]),
        ("disparity", disparity.AbstractDisparity, disparity.AbstractDisparity.disparity_methods_avail, [("to_disp", 3)]),
        ("filter", pfilter.AbstractFilter, pfilter.AbstractFilter.filter_methods_avail, [("filter_disparity", 1)]),
        ("refinement", refinement.AbstractRefinement, refinement.AbstractRefinement.subpixel_methods_avail,
         [("subpixel_refinement", 2)]),
        ("validation", validation.AbstractValidation, validation.AbstractValidation.validation_methods_avail,
         [("disparity_checking", 2)]),
        ("validation", validation.AbstractInterpolation, validation.AbstractInterpolation.interpolation_methods_avail,
         [("interpolated_disparity", 1)]),
        ("multiscale", multiscale.AbstractMultiscale, multiscale.AbstractMultiscale.multiscale_methods_avail,
         [("disparity_range", 1)]),
    ]
    for kind, abstract, registry, methods in table:
        classes = []
        for k in [abstract] + list(registry.values()):
            for c in k.__mro__:
                if c is not object and c not in classes:
                    classes.append(c)
        for c in classes:
            for mname, nargs in methods:
                if mname in c.__dict__ and not getattr(c.__dict__[mname], "__isabstractmethod__", False):
                    _wrap(c, mname, kind, nargs)
    _INSTALLED = True


def arm(machine):
    """start logging for `machine`; also tag which configured step is executing via instance-level wrappers"""
    SPY.machine = machine
    SPY.log = []
    SPY.step = None
    names = ["matching_cost_prepare", "matching_cost_run", "aggregation_run", "semantic_segmentation_run",
             "optimization_run", "disparity_run", "filter_run", "refinement_run", "validation_run", "run_multiscale",
             "cost_volume_confidence_run"]
    for name in names:
        orig = getattr(machine, name)

        def wrapper(cfg, input_step, _orig=orig):
            prev = SPY.step
            SPY.step = input_step
            try:
                return _orig(cfg, input_step)
            finally:
                SPY.step = prev

        setattr(machine, name, wrapper)


def disarm(machine):
    SPY.machine = None
    for name in list(machine.__dict__):
        if name.endswith("_run") or name in ("matching_cost_prepare", "run_multiscale"):
            if callable(machine.__dict__[name]) and name in type(machine).__dict__:
                del machine.__dict__[name]
    log = SPY.log
    SPY.log = []
    return log
