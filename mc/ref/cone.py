"""
Dependency cone of a pixel for a pipeline of local steps (C13), computed conservatively from the pipeline alone.

rows : sum of the window / arm / filter radii of the steps
cols : the same, plus one column when the right image is resampled (subpix > 1), plus the largest disparity
       magnitude of the interval - twice when the pipeline cross-checks (the correspondent q = p + d of p has its
       own cone in the other image, which reaches back by the negated interval)

Per step (upper bounds, each argued from the documented behaviour of the step):
  matching cost, window w          (w - 1) / 2       square window centred on the pixel; the no-data dilation uses
                                                     the same window
  cbca, cbca_distance d            d + 1             arms are shorter than d (at least 1); the support of p is made of
                                                     pixels at most one arm away in each direction, whose own arms are
                                                     measured on a 3x3-median-filtered image: (d - 1) + 1 + 1 at most
  winner-takes-all, refinement     0                 per pixel
  median, filter_size s            (s - 1) / 2
  bilateral, sigma_space g         int(3 g + 1) / 2  (window width int(3 g + 1), odd by construction of the menu)
  cross-checking (no filling)      0, interval counted twice
Fills (mc-cnn / sgm interpolation) and confidence normalisations are not local and are not accepted here.
"""
from __future__ import annotations

from mc.drivers import legal


class NotLocal(ValueError):
    pass


def step_radius(name: str) -> int:
    kind, cfg = legal.step_of(name)
    if kind == "matching_cost":
        return (int(cfg["window_size"]) - 1) // 2
    if kind == "aggregation":
        if cfg["aggregation_method"] != "cbca":
            raise NotLocal(name)
        return int(cfg["cbca_distance"]) + 1
    if kind in ("disparity", "refinement"):
        return 0
    if kind == "filter":
        if cfg["filter_method"] == "median":
            return (int(cfg["filter_size"]) - 1) // 2
        if cfg["filter_method"] == "bilateral":
            width = int(3 * float(cfg["sigma_space"]) + 1)
            if width % 2 == 0:
                raise NotLocal(f"{name}: even bilateral window")
            return width // 2
        raise NotLocal(name)
    if kind == "validation":
        if "interpolated_disparity" in cfg:
            raise NotLocal(name)
        return 0
    raise NotLocal(name)


def cone(names, disp):
    """(row radius, col radius) of the dependency cone for the scalar interval disp = [a, b]"""
    a, b = disp
    rad = sum(step_radius(n) for n in names)
    big = max(abs(int(a)), abs(int(b)))
    ncross = sum(1 for n in names if legal.kind_of(n) == "validation")
    if ncross > 1:
        raise NotLocal("more than one cross-check")
    sub = 1 if legal.parse_mc(names[0])["subpix"] > 1 else 0
    return rad, rad + sub + big * (2 if ncross else 1)


def interior(names, disp, window):
    """
    pixels of the crop window (r0, c0, h, w) whose cone lies inside the window, as whole-image index ranges
    (r_lo, r_hi, c_lo, c_hi), hi exclusive; None when empty
    """
    rr, rc = cone(names, disp)
    r0, c0, h, w = window
    r_lo, r_hi = r0 + rr, r0 + h - rr
    c_lo, c_hi = c0 + rc, c0 + w - rc
    if r_lo >= r_hi or c_lo >= c_hi:
        return None
    return r_lo, r_hi, c_lo, c_hi
