"""
C13 - results are local: a pixel depends on its neighbourhood, not on its position (DESIGN.md section 3, C13).

Differential / metamorphic over whole runs of the real `pandora.run` on integer-valued radiometry:

  crop invariance   one run on the whole pair, then runs on crops (origin (r0, c0) in {0..3}^2, 3 sizes, row/col
                    coordinates either restarted at 0 or kept as a ROI read produces).  For every pixel whose
                    dependency cone (mc/ref/cone.py: rows = sum of window / arm / filter radii, cols = the same
                    plus the interval, twice with cross-checking - computed conservatively from the pipeline
                    alone) lies inside the crop: disparity and validity flags of the crop run == those of the
                    whole run, bit for bit, for the left product and (with cross-checking) the right product.
  flip equivariance flipud(both images, masks) => flipud(outputs), every pixel.

On a mismatch the two runs are repeated with per-step observers; the violation is keyed by the first step whose
product differs on that step's own cone interior, and by an input class, so that the two position dependences
known on the pinned tree keep narrow keys of their own and do not swallow other locality failures:
  * cross-checking rounds p + d (half to even) - flags depend on the parity of the array column when d is
    exactly half-integer (A12): class "half-integer disparity at cross-checking, odd column offset";
  * cbca accumulates float32 running sums from the frame border: with non-integer costs (zncc) the aggregated
    costs differ in the last bits: class "zncc costs, rounding-level".
"""
from __future__ import annotations

import numpy as np

from mc.drivers import framing as F
from mc.drivers import legal
from mc.drivers import pipeline as P
from mc.ref import cone as C

ID = "C13"
LEVEL = "exploration"
BUDGET = {"quick": 300, "thorough": 3600}
CHUNK = 2
RULE = (
    "level 0: pipeline [matching cost, wta] x every matching-cost configuration (4 measures x windows 1/3/5 x "
    "subpix 1/2/4) x 4 intervals x masks none/LR (quick: alternating); levels 1..n: every legal pipeline of local steps (cbca | median, "
    "bilateral with odd window, vfit, quadratic, fill-less cross-checking at most once) with n steps besides matching "
    "cost and disparity x 4 measures x 4 intervals, window / subpix / masks / whole-image size 30x44 or 31x45 / "
    "radiometry table assigned by a fixed covering rotation. Each case = 1 whole run + 1 flipped run + a rotated "
    "subset (thorough level 0: all 96) of the crops {origin in 0..3 x 0..3} x {24x36, 26x40, 27x41} x {coordinates "
    "restarted, kept}. One evaluation = one crop (or flip) comparison with at least one cone-interior pixel; a crop "
    "without interior pixel is trivial. Signatures = (pipeline, interval, digest of the whole-image products), "
    "counted when the compared pixels hold at least two different disparities."
)
ASSUMPTIONS = [
    "12-bit radiometry (up to 4095, and 3500..3560) is enumerated for zncc / sad / census pipelines without cbca; elsewhere "
    "integer-valued radiometry in [0, 15] ([0, 7] for ssd) so that sad/ssd/census costs, their float32 running sums "
    "in cbca and the interpolated half/quarter-pixel samples are exact; zncc costs are not integers: zncc followed "
    "by cbca is kept in the space and is expected to differ at rounding level (own key)",
    "cone = conservative upper bound (mc/ref/cone.py); scalar intervals only (per-pixel grids change the global "
    "disparity axis of a crop, which the statement does not cover)",
    "fills (mc-cnn / sgm interpolation), confidence steps, optimisation, semantic segmentation and multiscale are "
    "not local steps in the sense of the statement and are not generated",
    "bilateral windows are odd (sigma_space 0.7 -> 3, 1.4 -> 5); the crop and the whole image get the same scalar "
    "interval; both views are cropped by the same window",
    "a re-framed run that raises SystemError/ZeroDivisionError inside the quadratic refinement (anticipated defect "
    "A2 of C06: three equal costs, which a crop can create near its border) is counted trivial; any other exception "
    "of a re-framed run while the whole image runs is a violation",
    "compared: disparity_map and validity_mask (left, and right when produced); confidence bands are not part of the "
    "statement",
    "quick: pipelines of length <= 4, 6 crops per case; thorough: length <= 5, 8-96 crops per case (DESIGN asked "
    "length <= 5 in both tiers: the quick tier would need 2752 cases x 8 runs, beyond 90 s)",
]

INTERVALS = [[-2, 2], [0, 3], [-3, -1], [1, 1]]
WHOLE = [(30, 44), (31, 45)]
SIZES = [(24, 36), (26, 40), (27, 41)]
NCROPS = 96
WINDOWS = [3, 1, 5]
SUBPIX = [2, 1, 4]
# cbca3i (distance 3, intensity 6 < radiometry range 15): the arm lengths really depend on the image; with "cbca"
# (intensity 30) every arm has its full length on these images and with distance 2 every arm is 1 pixel: box filters
CV_Q, DM_Q = ["cbca3i"], ["median", "bilateral", "vfit", "quad", "cross"]
CV_T = ["cbca", "cbca2", "cbca4", "cbca3i"]
DM_T = ["median", "median5", "bilateral", "bilateral5", "vfit", "quad", "cross", "cross0"]
VARS = ("disparity_map", "validity_mask")
TINY = 1e-5


def crop_of(k):
    """crop index 0..95 -> (r0, c0, h, w), keep_coords ; an explicit [r0, c0, h, w, keep] is passed through"""
    if isinstance(k, (list, tuple)):
        return tuple(k[:4]), bool(k[4])
    keep = bool(k % 2)
    c0 = (k // 2) % 4
    r0 = (k // 8) % 4
    h, w = SIZES[(k // 32) % 3]
    return (r0, c0, h, w), keep


def _mix(i, seed):
    return (i * 7919 + seed * 104729 + 4321) % 1000003


def _case(i, seed, method, tail, disp, ncrops, fixed=None, mask=None):
    h = _mix(i, seed)
    w = WINDOWS[h % 3]
    s = SUBPIX[(h // 3) % 3]
    if fixed:
        w, s = fixed
    if method == "census" and w == 1:
        w = 3
    msk = mask if mask is not None else F.MASK_VARIANTS[(h // 9) % 4]
    ny, nx = WHOLE[(h // 36) % 2]
    if ncrops >= NCROPS:
        crops = list(range(NCROPS))
    else:
        start = (h // 72) % NCROPS
        crops = [(start + 17 * j) % NCROPS for j in range(ncrops)]  # 17 is coprime with 96: parities, modes, sizes mix
    return {"pipe": [legal.mc_name(method, w, s)] + list(tail), "disp": disp, "ny": ny, "nx": nx,
            "seed": (seed + i) % 7, "hi": 7 if method == "ssd" else 15, "mask": msk, "crops": crops}


def spaces(tier, seed):
    quick = tier == "quick"
    out = []
    i = 0
    base = []
    for name in legal.mc_names():
        cfg = legal.parse_mc(name)
        for disp in INTERVALS:
            for mask in ((("none", "LR")[(i + seed) % 2],) if quick else ("none", "LR")):
                base.append(_case(i, seed, cfg["matching_cost_method"], ["wta"], disp, 6 if quick else NCROPS,
                                  fixed=(cfg["window_size"], cfg["subpix"]), mask=mask))
                i += 1
    out.append({"name": "matching cost + wta x every matching-cost configuration x interval x masks", "level": 0,
                "cases": base})
    # ---- 12-bit radiometry: integer samples up to 4095 (full range, and bright / weakly textured 3500..3560).
    # sad, census and zncc without cbca (float32 running sums of such costs are not exact, which is a property of
    # the input range, not a locality defect); the sums of samples and squares in the window statistics exceed 2^24
    hi12 = []
    for method in ("zncc", "sad", "census"):
        for tail in (["wta"], ["wta", "vfit"], ["wta", "quad"], ["wta", "cross"], ["wta", "median", "vfit"],
                     ["wta", "vfit", "cross"]):
            for (hi, offset) in ((4095, 0), (60, 3500)):
                for disp in (INTERVALS[:2] if quick else INTERVALS):
                    for w, sp in (((3, 1), (5, 2)) if quick else ((1, 1), (3, 1), (3, 2), (5, 2), (5, 4))):
                        if method == "census" and w == 1:
                            continue
                        c = _case(i, seed, method, tail, disp, 6 if quick else 16, fixed=(w, sp))
                        c.update({"hi": hi, "offset": offset})
                        hi12.append(c)
                        i += 1
    # ---- images larger than the internal 100-pixel processing blocks of the filters / WTA / cbca pre-filter: a crop
    # whose origin is not a multiple of 100 moves every block boundary
    big = []
    for (ny, nx), crops in (((44, 230), [[3, 7, 38, 215, 1], [0, 101, 44, 120, 0], [5, 50, 36, 160, 1]]),
                            ((120, 50), [[7, 3, 108, 44, 1], [13, 0, 105, 50, 0]])):
        for method, tail in (("sad", ["wta", "median"]), ("sad", ["wta", "bilateral"]), ("sad", ["cbca", "wta"]),
                             ("census", ["wta", "median5"] if not quick else ["wta", "median"]),
                             ("sad", ["wta", "vfit", "median", "cross"])):
            c = _case(i, seed, method, tail, INTERVALS[0], 6, fixed=(3, 1), mask="none")
            c.update({"ny": ny, "nx": nx, "crops": crops})
            big.append(c)
            i += 1
    # ---- scale instances: 16-bit strips (420 columns, 320 rows), a 620-column 8-bit ssd line and a 1300-column
    # 12-bit line, cropped far from the first column / row: a running sum kept along a line or a column in float32
    # exceeds 2^24 before the tile and makes the tile depend on what lies before it
    scale = []
    wide = [[0, 300, 8, 120, 0], [1, 211, 7, 180, 1]]
    tall = [[280, 0, 40, 12, 0], [150, 1, 160, 10, 1]]
    for tail in (["wta"], ["wta", "vfit"]):
        for method, w, sp, ny, nx, hi, offset, crops in (
                ("sad", 3, 1, 8, 420, 65535, 0, wide), ("sad", 5, 2, 8, 420, 200, 65000, wide),
                ("ssd", 3, 1, 8, 620, 255, 0, [[0, 500, 8, 120, 0], [1, 411, 7, 180, 1]]),
                ("zncc", 3, 1, 320, 12, 65535, 0, tall), ("zncc", 5, 2, 320, 12, 200, 65000, tall),
                ("zncc", 5, 1, 8, 1300, 60, 3500, [[0, 1100, 8, 200, 0], [1, 1001, 7, 280, 1]])):
            # own counter: the cases of the other spaces keep the indices they had before this space existed
            c = _case(900000 + len(scale), seed, method, tail, INTERVALS[0], 6, fixed=(w, sp), mask="none")
            c.update({"ny": ny, "nx": nx, "crops": crops, "hi": hi, "offset": offset})
            scale.append(c)
    out.append({"name": "scale: 16-bit strips (420 columns, 320 rows), 620-column ssd line, 1300-column 12-bit line, "
                        "tiles far from the first column / row", "level": 1, "cases": scale, "chunk": 1})
    out.append({"name": "images larger than the 100-pixel processing blocks (44x230, 120x50)", "level": 1,
                "cases": big, "chunk": 1})
    out.append({"name": "12-bit radiometry (full range and bright weakly textured), zncc / sad / census without cbca",
                "level": 1, "cases": hi12})
    plans = [(2, CV_Q, DM_Q, 6)] if quick else [(2, CV_T, DM_T, 16), (3, CV_Q, DM_Q, 8)]
    done = set()
    for max_extra, cv, dm, ncrops in plans:
        by_extra = {}
        for tail in legal.shapes(max_extra, cv, dm):
            extra = len(tail) - 1
            if extra == 0 or tuple(tail) in done:
                continue
            done.add(tuple(tail))
            by_extra.setdefault(extra, []).append(tail)
        for extra in sorted(by_extra):
            cases = []
            for tail in by_extra[extra]:
                for method in legal.MC_METHODS:
                    for disp in INTERVALS:
                        cases.append(_case(i, seed, method, tail, disp, ncrops))
                        i += 1
            out.append({"name": f"local pipelines with {extra} step(s) besides matching cost and disparity "
                                f"(menus {'+'.join(cv)} | {'+'.join(dm)}, {ncrops} crops per case)",
                        "level": extra, "cases": cases})
    return out


# ----------------------------------------------------------------------------------------------
CROP_LAYOUTS = ["C", "tile", "F"]


def _run(arr, case, observe=False, **kw):
    left, right = F.datasets(arr, case["disp"], "none", **kw)
    return P.run_observed(left, right, legal.build(case["pipe"]), observe=observe, snapshot=("cv", "disp"))


def _neq(a, b):
    """boolean map of samples that differ (NaN == NaN)"""
    return ~((a == b) | ((a != a) & (b != b)))


def _products(obs):
    out = [("left", obs.left)]
    if obs.right is not None and "disparity_map" in obs.right:
        out.append(("right", obs.right))
    return out


def _compare_final(whole, other, region, shift, flip):
    """list of (side, var, n differing) on the region (r_lo, r_hi, c_lo, c_hi) of the whole frame"""
    bad = []
    rl, rh, cl, ch = region
    dr, dc = shift
    for (side, w), (_, o) in zip(_products(whole), _products(other)):
        for v in VARS:
            a = w[v].data
            b = o[v].data[::-1] if flip else o[v].data
            x, y = a[rl:rh, cl:ch], b[rl - dr: rh - dr, cl - dc: ch - dc]
            if x.shape != y.shape or x.dtype != y.dtype:
                bad.append((side, v, -1))
                continue
            n = int(_neq(x, y).sum())
            if n:
                bad.append((side, v, n))
    return bad


def _step_label(obs, rec):
    cfg = obs.cfg["pipeline"][rec["step"]]
    method = next((str(v) for k, v in cfg.items() if k.endswith("_method")), "?")
    return rec["step"].split(".")[0], method


def _localise(case, whole, other, window, flip):
    """
    first observed step whose product differs on the cone interior of the pipeline prefix ending at that step.
    Returns dict(index, kind, method, side, var, pixels (whole-frame indices), maxabs, entering) or None.
    """
    names, disp = case["pipe"], case["disp"]
    ny, nx = case["ny"], case["nx"]
    for i, (sw, so) in enumerate(zip(whole.steps, other.steps)):
        prefix = names[: i + 1]
        if flip:
            region, shift = (0, ny, 0, nx), (0, 0)
        else:
            region = C.interior(prefix, disp, window)
            shift = (window[0], window[1])
            if region is None:
                continue
        rl, rh, cl, ch = region
        kind, method = _step_label(whole, sw)
        in_cv = kind in ("matching_cost", "aggregation", "cost_volume_confidence")
        prod, variables = ("cv", ("cost_volume", "validity_mask")) if in_cv else ("disp", VARS)
        for side in ("left", "right"):
            a_ds, b_ds = sw.get(f"{side}_{prod}"), so.get(f"{side}_{prod}")
            if a_ds is None or b_ds is None:
                continue
            for v in variables:
                if v not in a_ds or v not in b_ds:
                    continue
                a = a_ds[v].data
                b = b_ds[v].data[::-1] if flip else b_ds[v].data
                x = a[rl:rh, cl:ch]
                y = b[rl - shift[0]: rh - shift[0], cl - shift[1]: ch - shift[1]]
                if x.shape != y.shape:
                    return {"index": i, "kind": kind, "method": method, "side": side, "var": v, "pixels": None,
                            "maxabs": float("inf"), "entering": None}
                ne = _neq(x, y)
                if ne.any():
                    if ne.ndim == 3:
                        pix = np.argwhere(ne.any(axis=2))
                    else:
                        pix = np.argwhere(ne)
                    pix = pix + np.array([rl, cl])
                    with np.errstate(invalid="ignore"):
                        diff = np.abs(x.astype(np.float64) - y.astype(np.float64))[ne]
                    maxabs = float(np.nanmax(diff)) if np.isfinite(diff).any() else float("inf")
                    with np.errstate(invalid="ignore"):
                        mag = np.abs(x.astype(np.float64))[ne]
                    scale = float(np.nanmax(mag)) if np.isfinite(mag).any() else 1.0
                    entering = None
                    if i > 0 and not in_cv:
                        prev = whole.steps[i - 1].get(f"{side}_disp")
                        if prev is not None and "disparity_map" in prev:
                            entering = prev["disparity_map"].data[pix[:, 0], pix[:, 1]]
                    return {"index": i, "kind": kind, "method": method, "side": side, "var": v, "pixels": pix,
                            "maxabs": maxabs, "entering": entering, "scale": scale}
    return None


def _classify(case, loc, window, flip):
    """input class of a localised divergence (see module docstring)"""
    if loc is None:
        return "final products only", "unlocalised"
    site = f"{loc['kind']}:{loc['method']}"
    method = legal.parse_mc(case["pipe"][0])["matching_cost_method"]
    # "rounding-level": 1e-5 relative to the values compared (at least 1e-5). cbca divides differences of float32
    # running sums accumulated over the whole frame (about rows x cols x cost, e.g. 2e4 for a 30x44 frame of costs
    # around 15, one ulp of which is 2e-3): observed differences reach 1e-5 for aggregated costs of about 10, while
    # two genuinely different averages of half-integer costs over at most 25 x 25 cells differ by 8e-4 or more
    tiny = max(TINY, 1e-5 * float(loc.get("scale") or 1.0))
    if (not flip and loc["kind"] == "validation" and loc["var"] == "validity_mask" and window[1] % 2 == 1
            and loc["entering"] is not None and loc["entering"].size
            and bool(np.all(np.abs(np.mod(loc["entering"].astype(np.float64), 1.0)) == 0.5))):
        return site, "half-integer disparity at cross-checking, odd column offset"
    if loc["kind"] == "aggregation" and method == "zncc" and loc["var"] == "cost_volume" and loc["maxabs"] <= tiny:
        return site, "zncc costs, rounding-level"
    kinds = [legal.kind_of(n) for n in case["pipe"]]
    if (loc["kind"] == "aggregation" and loc["var"] == "cost_volume" and loc["maxabs"] <= tiny
            and kinds.count("aggregation") >= 2 and loc.get("index", 0) > kinds.index("aggregation")):
        # a second cbca aggregates the (non-integer) averages produced by the first one: same float32 running sums
        return site, "already aggregated (non-integer) costs, rounding-level"
    return site, f"{loc['var']}, {'rounding-level' if loc['maxabs'] <= tiny else 'different values'}"


def _violation(case, arr, whole_obs_cache, clause, bad, window, keep, flip, layout="C"):
    if whole_obs_cache[0] is None:
        whole_obs_cache[0] = _run(arr, case, observe=True)
    wo = whole_obs_cache[0]
    oo = _run(arr, case, observe=True, window=window, keep_coords=keep, flip=flip, layout=layout)
    loc = _localise(case, wo, oo, window, flip) if not (wo.error or oo.error) else None
    site, cls = _classify(case, loc, window, flip)
    where = ""
    if loc is not None and loc["pixels"] is not None and len(loc["pixels"]):
        p = loc["pixels"][0]
        where = (f"; first divergence at step #{loc['index']} {site} in the {loc['side']} {loc['var']}: "
                 f"{len(loc['pixels'])} pixel(s), first at whole-frame (row {int(p[0])}, col {int(p[1])}), "
                 f"max |diff| {loc['maxabs']:.3g}")
        if loc["entering"] is not None and len(loc["entering"]):
            where += f", disparity entering the step there {float(loc['entering'][0])!r}"
    framing = "vertical flip" if flip else (f"crop origin ({window[0]},{window[1]}) size {window[2]}x{window[3]} "
                                            f"coordinates {'kept' if keep else 'restarted at 0'}")
    if layout != "C":
        framing += f", arrays handed over in memory layout '{layout}'"
        # the same framing with freshly copied C-ordered arrays: does the difference come from the layout alone?
        cc = _run(arr, case, window=window, keep_coords=keep, flip=flip)
        region = (0, case["ny"], 0, case["nx"]) if flip else C.interior(case["pipe"], case["disp"], window)
        shift = (0, 0) if flip else (window[0], window[1])
        if not cc.error and not _compare_final(wo, cc, region, shift, flip):
            cls += f", only with memory layout '{layout}'"
    return {
        "clause": clause, "key": f"C13/{clause}/{site}/{cls}",
        "detail": f"pipeline {legal.describe(case['pipe'])}, whole image {case['ny']}x{case['nx']} mask={case['mask']} "
                  f"interval {case['disp']}, {framing}: final products differ on cone-interior pixels "
                  f"{[(s, v, n) for s, v, n in bad]}{where}"}


def _is_a2(case, arr, error, kw):
    """
    anticipated defect A2 (property C06): the quadratic refinement raises on three equal costs.  A crop changes the
    costs of the pixels near its border (outside every cone interior), so the triple can exist in the crop only;
    the run then has no values to compare and says nothing about locality.
    """
    if type(error[1]).__name__ not in ("SystemError", "ZeroDivisionError"):
        return False
    obs = _run(arr, case, observe=True, **kw)
    names = case["pipe"]
    return len(obs.steps) < len(names) and names[len(obs.steps)] == "quad"


def _raises(case, arr, clause, error, kw, what):
    """the whole image runs but the re-framed pair raises: key by the step that raises and the exception type"""
    obs = _run(arr, case, observe=True, **kw)
    names = case["pipe"]
    failing = names[len(obs.steps)] if len(obs.steps) < len(names) else "?"
    kind, cfg = legal.step_of(failing) if failing != "?" else ("?", {})
    method = next((str(v) for k, v in cfg.items() if k.endswith("_method")), "?")
    coords = "kept coordinates" if kw.get("keep_coords") else ("restarted coordinates" if "window" in kw else "flip")
    return {"clause": clause,
            "key": f"C13/{clause}/{kind}:{method}/run raises {type(error[1]).__name__}",
            "detail": f"pipeline {legal.describe(names)} interval {case['disp']} whole image {case['ny']}x{case['nx']} "
                      f"mask={case['mask']}: the whole image runs, the {what} ({coords}) raises {error!r} in step {failing}"}


def run_case(case):
    arr = F.arrays(case["ny"], case["nx"], case["seed"], hi=case["hi"], mask=case["mask"])
    if case.get("offset"):
        # bright, weakly textured radiometry (e.g. 12-bit sensors): same integer samples shifted by a constant
        arr["L"] = (arr["L"] + np.float32(case["offset"])).astype(np.float32)
        arr["R"] = (arr["R"] + np.float32(case["offset"])).astype(np.float32)
    names, disp = case["pipe"], case["disp"]
    whole = _run(arr, case)
    if whole.error:
        # a local pipeline the library cannot run on the whole image says nothing about locality
        return {"n": 1, "sigs": [], "viol": [], "trivial": 1}
    viol = []
    cache = [None]
    n = 0
    trivial = 0
    distinct_vals = set()
    for k in case["crops"]:
        window, keep = ((tuple(k[:4]), bool(k[4])) if isinstance(k, (list, tuple)) else crop_of(k))
        region = C.interior(names, disp, window)
        if region is None:
            trivial += 1
            n += 1
            continue
        n += 1
        # how the tile is handed over: a fresh copy, a zero-copy window of a larger array, or column-major
        lay = CROP_LAYOUTS[(window[0] + 2 * window[1] + window[2] + int(keep)) % 3]
        crop = _run(arr, case, window=window, keep_coords=keep, layout=lay)
        if crop.error:
            if _is_a2(case, arr, crop.error, dict(window=window, keep_coords=keep, layout=lay)):
                trivial += 1
                continue
            viol.append(_raises(case, arr, "crop-invariance", crop.error,
                                dict(window=window, keep_coords=keep, layout=lay),
                                f"crop {window} (coordinates {'kept' if keep else 'restarted'})"))
            continue
        if len(_products(crop)) != len(_products(whole)):
            viol.append({"clause": "crop-invariance", "key": "C13/crop-invariance/run/right product missing",
                         "detail": f"pipeline {legal.describe(names)}: right product present in one run only"})
            continue
        bad = _compare_final(whole, crop, region, (window[0], window[1]), False)
        rl, rh, cl, ch = region
        distinct_vals.update(np.unique(whole.left["disparity_map"].data[rl:rh, cl:ch]).tolist()[:4])
        if bad:
            viol.append(_violation(case, arr, cache, "crop-invariance", bad, window, keep, False, lay))
    # ---- vertical flip
    n += 1
    flipped = _run(arr, case, flip=True)
    if flipped.error and _is_a2(case, arr, flipped.error, dict(flip=True)):
        trivial += 1
    elif flipped.error:
        viol.append(_raises(case, arr, "flip-equivariance", flipped.error, dict(flip=True), "flipped pair"))
    else:
        bad = _compare_final(whole, flipped, (0, case["ny"], 0, case["nx"]), (0, 0), True)
        if bad:
            viol.append(_violation(case, arr, cache, "flip-equivariance", bad, None, False, True))
    # de-duplicate by key inside the case (keep the first)
    seen = set()
    uniq = []
    for v in viol:
        if v["key"] not in seen:
            seen.add(v["key"])
            uniq.append(v)
    nontrivial = len(distinct_vals) >= 2
    sigs = [f"{legal.describe(names)}|{disp}|{P.digest(whole.left, VARS)}"] if nontrivial else []
    return {"n": n, "sigs": sigs, "viol": uniq, "trivial": trivial}


def compared_pixels(tier, seed):
    """cone-interior pixels compared by the crop clause, and frame pixels compared by the flip clause (pure
    function of the spaces: the interior of a crop depends on the pipeline, the interval and the crop only)"""
    crop_px = flip_px = crops = empty = 0
    smallest = None
    for sp in spaces(tier, seed):
        for case in sp["cases"]:
            sides = 2 if legal.has_validation(case["pipe"]) else 1
            flip_px += case["ny"] * case["nx"] * sides
            for k in case["crops"]:
                window, _ = crop_of(k)
                reg = C.interior(case["pipe"], case["disp"], window)
                crops += 1
                if reg is None:
                    empty += 1
                    continue
                npx = (reg[1] - reg[0]) * (reg[3] - reg[2])
                crop_px += npx * sides
                smallest = npx if smallest is None else min(smallest, npx)
    return {"crop_runs": crops, "crop_runs_without_interior_pixel": empty, "compared_pixels_crop": crop_px,
            "compared_pixels_flip": flip_px, "smallest_nonempty_interior": smallest}


def finalize(tier, seed, ctx):
    cov = compared_pixels(tier, seed)
    if ctx.get("budget_left", 1) <= 0:
        cov = {k + "_planned": v for k, v in cov.items()}
    cov["note"] = ("computed from the enumerated spaces: a pixel is counted when its cone lies inside the crop; exact "
                   "when the enumeration is exhaustive, except that a case whose whole-image run raises (A2, about "
                   "1.5 % of the cases) compares nothing")
    return {"coverage": {"pixels": cov}}


def init_worker():
    run_case(_case(0, 0, "sad", ["wta", "vfit", "median", "cross"], [-2, 2], 1))
    run_case(_case(1, 0, "zncc", ["cbca", "wta", "quad", "bilateral"], [0, 3], 1))
