"""warm-up: execute every lazily compiled numba kernel once so that the cache of the current tree is populated"""
import os
import subprocess
import sys


def run_all():
    import logging
    import warnings

    warnings.filterwarnings("ignore")
    logging.disable(logging.CRITICAL)
    from mc.props import c18

    for name in ("P0", "P1", "P2", "Q1", "Q2", "X0", "X1", "X2", "B0", "B1"):
        c18.run_pipeline(name)
    # the PANDORA_NUMBA_PARALLEL=False variant has its own cache directory (read at import time)
    if os.environ.get("PANDORA_NUMBA_PARALLEL", "True") == "True" and not os.environ.get("MC_WARM_CHILD"):
        env = dict(os.environ, PANDORA_NUMBA_PARALLEL="False", MC_WARM_CHILD="1")
        env.pop("NUMBA_CACHE_DIR", None)
        subprocess.run([sys.executable, os.path.join(os.path.dirname(os.path.dirname(os.path.dirname(
            os.path.abspath(__file__)))), "tools", "warm.py")], env=env, check=False)
