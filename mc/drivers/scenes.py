"""
Small stereo scenes (image pair + masks + interval or per-pixel grids) and post-disparity pipeline menus,
described by JSON-able dicts; shared by C04 and C06.

scene = {
  "ny", "nx"          image shape
  "win", "subpix"     matching-cost window / subpix
  "measure"           sad | ssd | census | zncc
  "dmin", "dmax"      global (constant) interval
  "lmask", "rmask"    None | [[row, col, value], ...] | {"pattern": name, "value": v}   (dataset convention:
                      0 valid, 1 nodata, anything else invalid)
  "grid"              None | [[row, col, lo, hi], ...] cells of the left per-pixel grids that differ from [dmin, dmax]
  "inv"               invalid_disparity: number | "NaN"
  "img"               radiometry: {"kind": "generic"|"flat"|"ramp", "seed": s, "shift": k}
}
"""
from __future__ import annotations

import itertools

import numpy as np

from mc.drivers import datasets as D
from mc.drivers import pipeline as P

# ----------------------------------------------------------------------------------------------
# scenes
# ----------------------------------------------------------------------------------------------
PATTERNS = ("row", "col", "checker", "lastcol", "all")


def mask_array(spec, ny, nx):
    """None (no msk variable) or int16 array"""
    if spec is None:
        return None
    m = np.zeros((ny, nx), dtype=np.int16)
    if isinstance(spec, dict):
        v = spec["value"]
        k = spec.get("k", 0)
        if spec["pattern"] == "row":
            m[k % ny, :] = v
        elif spec["pattern"] == "col":
            m[:, k % nx] = v
        elif spec["pattern"] == "lastcol":
            m[:, nx - 1] = v
        elif spec["pattern"] == "checker":
            rr, cc = np.meshgrid(np.arange(ny), np.arange(nx), indexing="ij")
            m[(rr + cc + k) % 2 == 0] = v
        elif spec["pattern"] == "all":
            m[:, :] = v
        else:
            raise ValueError(spec)
        for r, c, val in spec.get("cells", []):
            m[r, c] = val
        return m
    for r, c, v in spec:
        m[r, c] = v
    return m


def pair(ny, nx, shift, seed, noise=True):
    """generic distinct-valued integer pair: left pixel c matches right pixel c + shift; a few right samples perturbed"""
    a = abs(shift) + 1
    wide = D.generic_image(ny, nx + 2 * a, 0, seed)
    left = wide[:, a: a + nx].copy()
    right = wide[:, a - shift: a - shift + nx].copy()
    if noise:
        rng = np.random.RandomState(seed + 99)
        k = max(1, (ny * nx) // 6)
        idx = rng.choice(ny * nx, size=k, replace=False)
        right.reshape(-1)[idx] += rng.randint(-9, 10, size=k)
    return left, right


def radiometry(scene):
    img = scene.get("img") or {"kind": "generic", "seed": 0, "shift": 1}
    ny, nx = scene["ny"], scene["nx"]
    kind = img["kind"]
    if kind == "generic":
        return pair(ny, nx, img.get("shift", 1), img.get("seed", 0))
    if kind == "flat":
        # constant left half, generic elsewhere: flat and tied cost curves
        left, right = pair(ny, nx, img.get("shift", 1), img.get("seed", 0))
        left[:, : nx // 2 + 1] = 7
        right[:, : nx // 2 + 1] = 7
        return left, right
    if kind == "const":
        return np.full((ny, nx), 5, dtype=np.float32), np.full((ny, nx), 5, dtype=np.float32)
    if kind == "ramp":
        # quadratic ramp: strictly convex cost curves with many fitted pixels
        cc = np.arange(nx + 4, dtype=np.float32)
        base = (cc * cc + 3 * cc)[None, :] + 5 * np.arange(ny, dtype=np.float32)[:, None]
        s = img.get("shift", 1)
        return base[:, 2: 2 + nx].copy(), base[:, 2 + s: 2 + s + nx].copy()
    raise ValueError(kind)


def grids(scene):
    """(lo, hi) float32 arrays of the left image, or None when the interval is the constant one"""
    if not scene.get("grid"):
        return None
    ny, nx = scene["ny"], scene["nx"]
    lo = np.full((ny, nx), scene["dmin"], dtype=np.float32)
    hi = np.full((ny, nx), scene["dmax"], dtype=np.float32)
    for r, c, a, b in scene["grid"]:
        lo[r, c] = a
        hi[r, c] = b
    return lo, hi


def build(scene):
    """-> (left, right) image datasets in the form pandora.run takes"""
    ny, nx = scene["ny"], scene["nx"]
    limg, rimg = radiometry(scene)
    g = grids(scene)
    lm = mask_array(scene.get("lmask"), ny, nx)
    rm = mask_array(scene.get("rmask"), ny, nx)
    # "origin": first row / column coordinate of both datasets (a tile read with a ROI does not start at 0)
    org = tuple(scene.get("origin") or (0, 0))
    if g is None:
        left = D.image(limg, disp=(scene["dmin"], scene["dmax"]), msk=lm, origin=org)
        right = D.image(rimg, disp=None, msk=rm, origin=org)
    else:
        left = D.image(limg, disp=g, msk=lm, origin=org)
        # cross-checking refuses left grids without right grids: give the right image the mirrored constant interval
        rlo = np.full((ny, nx), -scene["dmax"], dtype=np.float32)
        rhi = np.full((ny, nx), -scene["dmin"], dtype=np.float32)
        right = D.image(rimg, disp=(rlo, rhi), msk=rm, origin=org)
    return left, right


def intervals(scene):
    """per-pixel intervals (lo, hi) of the left and of the right image as float64 arrays"""
    ny, nx = scene["ny"], scene["nx"]
    g = grids(scene)
    if g is None:
        llo = np.full((ny, nx), float(scene["dmin"]))
        lhi = np.full((ny, nx), float(scene["dmax"]))
    else:
        llo, lhi = g[0].astype(np.float64), g[1].astype(np.float64)
    if g is None:
        rlo, rhi = -lhi, -llo
    else:
        rlo = np.full((ny, nx), -float(scene["dmax"]))
        rhi = np.full((ny, nx), -float(scene["dmin"]))
    return (llo, lhi), (rlo, rhi)


def inv_value(inv):
    return float("nan") if inv == "NaN" else inv


# ----------------------------------------------------------------------------------------------
# pipelines
# ----------------------------------------------------------------------------------------------
MENU = {
    "rv": ("refinement", P.VFIT),
    "rq": ("refinement", P.QUAD),
    "fm": ("filter", P.MEDIAN),
    "fb": ("filter", P.BILATERAL),
    "v0": ("validation", P.CROSS),
    "vm": ("validation", P.CROSS_MCCNN),
    "vs": ("validation", P.CROSS_SGM),
}
MENU7 = ["rv", "rq", "fm", "fb", "v0", "vm", "vs"]
MENU5 = ["rv", "fm", "v0", "vm", "vs"]


def sequences(menu, maxlen, minlen=0):
    out = []
    for n in range(minlen, maxlen + 1):
        out += ["-".join(s) for s in itertools.product(menu, repeat=n)]
    return out


def pipeline(scene, post):
    """post: '-'-joined menu codes ('' for none)"""
    steps = [
        ("matching_cost", P.mc(scene["measure"], scene["win"], scene["subpix"])),
        ("disparity", {"disparity_method": "wta", "invalid_disparity": scene["inv"]}),
    ]
    for code in [c for c in post.split("-") if c]:
        steps.append(MENU[code])
    return P.name_steps(steps)


def step_code(cfg_step):
    """menu code of a checked step configuration"""
    if "refinement_method" in cfg_step:
        return "rv" if cfg_step["refinement_method"] == "vfit" else "rq"
    if "filter_method" in cfg_step:
        return "fm" if cfg_step["filter_method"] == "median" else "fb"
    if "validation_method" in cfg_step:
        return {"mc-cnn": "vm", "sgm": "vs"}.get(cfg_step.get("interpolated_disparity"), "v0")
    return "?"


def _hexless(exc):
    import re  # pylint: disable=import-outside-toplevel

    return re.sub(r"0x[0-9a-fA-F]+", "0x..", str(exc))[:200]


def failing_step(obs, pipe):
    """name of the step during which pandora.run raised (single scale: steps complete in pipeline order)"""
    names = list(pipe)
    return names[len(obs.steps)] if len(obs.steps) < len(names) else None


# ----------------------------------------------------------------------------------------------
# C06, level (iii)
# ----------------------------------------------------------------------------------------------
def c06_scenes(tier, seed):
    sc = []
    base = {"lmask": None, "rmask": None, "grid": None, "inv": -9999}
    for measure, win, subpix in (("sad", 1, 1), ("sad", 3, 2), ("zncc", 3, 1), ("ssd", 1, 4), ("census", 3, 1),
                                 ("zncc", 3, 2)):
        if tier == "quick" and (measure, win, subpix) in (("census", 3, 1), ("zncc", 3, 2)):
            continue
        ny, nx = (3, 7) if win == 1 else (5, 8)
        for kind in ("generic", "ramp", "flat"):
            sc.append(dict(base, ny=ny, nx=nx, win=win, subpix=subpix, measure=measure, dmin=-2, dmax=2,
                           img={"kind": kind, "seed": seed, "shift": 1}))
    # masks, per-pixel grids, one-sided intervals, NaN invalid value
    sc.append(dict(base, ny=4, nx=7, win=1, subpix=1, measure="sad", dmin=-2, dmax=1, inv="NaN",
                   lmask=[[1, 2, 1], [2, 4, 2]], rmask=[[0, 3, 1], [2, 2, 5]], img={"kind": "ramp", "seed": seed, "shift": -1}))
    sc.append(dict(base, ny=5, nx=8, win=3, subpix=2, measure="sad", dmin=-1, dmax=2, inv=-9999,
                   lmask=[[2, 3, 2]], rmask=[[1, 5, 1]], img={"kind": "generic", "seed": seed + 1, "shift": 1}))
    sc.append(dict(base, ny=3, nx=7, win=1, subpix=1, measure="sad", dmin=-2, dmax=2, inv=-9999,
                   grid=[[0, 2, -1, 1], [1, 3, 0, 0], [2, 4, -2, 0], [1, 1, 1, 2]],
                   img={"kind": "ramp", "seed": seed, "shift": 1}))
    sc.append(dict(base, ny=5, nx=8, win=3, subpix=2, measure="zncc", dmin=-2, dmax=2, inv="NaN",
                   grid=[[1, 2, -1, 1], [2, 3, 0, 1], [3, 4, -2, 0], [2, 5, 0.0, 2]],
                   img={"kind": "generic", "seed": seed, "shift": 1}))
    sc.append(dict(base, ny=3, nx=8, win=1, subpix=2, measure="ssd", dmin=1, dmax=3, inv=0,
                   img={"kind": "ramp", "seed": seed, "shift": 2}))
    sc.append(dict(base, ny=3, nx=8, win=1, subpix=1, measure="sad", dmin=-3, dmax=-1, inv=5.5,
                   img={"kind": "generic", "seed": seed + 2, "shift": -2}))
    sc.append(dict(base, ny=3, nx=6, win=1, subpix=1, measure="sad", dmin=-1, dmax=1, inv=-9999,
                   img={"kind": "const", "seed": 0, "shift": 0}))
    return sc


def c06_cases(tier, seed):
    maxlen = 3 if tier == "quick" else 4
    posts = [p for p in sequences(MENU7, maxlen, 1) if "rv" in p.split("-") or "rq" in p.split("-")]
    if tier == "thorough":
        # length 4 over the reduced menu only
        posts = [p for p in posts if len(p.split("-")) < 4 or all(c in ("rv", "rq", "fm", "vm", "fb") for c in p.split("-"))]
    return [{"kind": "pipeline", "scene": s, "post": p} for s in c06_scenes(tier, seed) for p in posts]


def c06_run(case, compare):
    """run one (scene, pipeline) and compare every refinement execution (left and right) with the reference"""
    from mc.ref import refine as R  # pylint: disable=import-outside-toplevel

    scene, post = case["scene"], case["post"]
    left, right = build(scene)
    pipe = pipeline(scene, post)
    obs = P.run_observed(left, right, pipe, snapshot=("cv", "disp"))
    viol, sigs = [], []
    n = trivial = 0
    if obs.error and obs.error[0] == "check":
        raise AssertionError(f"legal pipeline refused by the checker: {obs.error[1]!r}")  # harness: space is wrong
    (llo, lhi), (rlo, rhi) = intervals(scene)
    prev = None
    for rec in obs.steps:
        if rec["callback"] == "refinement_run" and prev is not None:
            method = obs.cfg["pipeline"][rec["step"]]["refinement_method"]
            for side, lo, hi in (("left", llo, lhi), ("right", rlo, rhi)):
                before, after, cv = prev[f"{side}_disp"], rec[f"{side}_disp"], rec[f"{side}_cv"]
                if before is None or "disparity_map" not in before or cv is None or "cost_volume" not in cv:
                    continue
                n += 1
                v, hist, _ = compare(
                    "subpixel_refinement", method, cv.attrs["type_measure"], int(cv.attrs["subpixel"]), cv["cost_volume"].data,
                    cv.coords["disp"].data, before["disparity_map"].data, before["validity_mask"].data,
                    after["disparity_map"].data, after["validity_mask"].data, after["interpolated_coeff"].data, lo, hi)
                for x in v:
                    x["detail"] = f"[{side} side, step {rec['step']} of {list(pipe)[2:]}] " + x["detail"]
                viol += v
                if not D.arr_eq(prev[f"{side}_cv"]["cost_volume"].data, cv["cost_volume"].data):
                    viol.append({"clause": "cost-volume-unchanged", "key": f"C06/cost-volume-unchanged/subpixel_refinement/{method}",
                                 "detail": f"{side} cost volume modified by step {rec['step']}"})
                if hist[6] > 0 and (hist[0] + hist[3] + hist[4] > 0):
                    sigs.append(f"r|{scene['measure']}|{scene['win']}|{scene['subpix']}|{post}|{rec['step']}|{side}|{hist}|"
                                f"{P.digest(after, ('disparity_map', 'validity_mask', 'interpolated_coeff'))}")
                else:
                    trivial += 1
        prev = rec
    if obs.error:
        step = failing_step(obs, pipe)
        e = obs.error[1]
        if step and step.startswith("refinement"):
            method = pipe[step]["refinement_method"]
            order = ["no flat triple", "flat triple"]
            cls = order[0]
            if prev is not None:
                for side in ("left", "right"):
                    b, cv = prev.get(f"{side}_disp"), prev.get(f"{side}_cv")
                    if b is not None and "disparity_map" in b and cv is not None and "cost_volume" in cv:
                        c = R.exception_class(cv["cost_volume"].data, b["disparity_map"].data, b["validity_mask"].data,
                                              float(cv.coords["disp"].data[0]), int(cv.attrs["subpixel"]),
                                              cv.attrs["type_measure"], method)
                        cls = max(cls, c, key=order.index)
            n += 1
            viol.append({"clause": "totality", "key": f"C06/totality/subpixel_refinement({method})/{type(e).__name__}/{cls}",
                         "detail": f"pandora.run raised {type(e).__name__}: {_hexless(e)} in step {step} of "
                                   f"{list(pipe)} on scene {scene}"})
        else:
            trivial += 1  # a failure of another step is not this property's business (C04/C14 look at those)
    seen = set()
    out = []
    for x in viol:
        if x["key"] not in seen:
            seen.add(x["key"])
            out.append(x)
    return {"n": max(n, 1), "sigs": sigs, "viol": out[:8], "trivial": trivial if n else 1}
