"""
C04 - validity flags, NaN costs and invalid disparities tell one coherent story (DESIGN.md section 3, C04).

Every case is one real `pandora.run` observed after every step (mc.drivers.pipeline.run_observed):
  space A (inputs, deviation levels 0-2): windows {1, 3} x subpix {1, 2} x every interval of the bound, every single
      and every pair of {left, right} x {nodata, invalid} mask cells, dense mask patterns over {nodata, invalid 2,
      invalid 5}, single / pairs of per-pixel grid cells shrunk inside the global interval, invalid_disparity in
      {-9999, NaN, just outside the interval}, each followed by a short post-disparity pipeline;
  space B (programs): every legal post-disparity pipeline up to the bound over the menu {vfit, quadratic, median,
      bilateral, cross-checking without / with mc-cnn / with sgm filling} (repeats allowed) on scenes whose masks,
      borders, partial ranges and noise make every documented bit occur.
Oracle: mc/ref/flags.py before validation (left and right products), then per step the set of flag values the step is
documented to produce from the value it received.
"""
from __future__ import annotations

import hashlib
import itertools

import numpy as np

from mc.drivers import pipeline as P
from mc.drivers import scenes as S
from mc.ref import flags as F

ID = "C04"
LEVEL = "exploration"
BUDGET = {"quick": 300, "thorough": 3600}
CHUNK = 16
RULE = (
    "one case = one observed pandora.run of (scene, post-disparity pipeline); one evaluation = one (step, side) "
    "validity mask compared with the oracle. Space A enumerates the inputs by deviation level (0: no mask, constant "
    "interval; 1: one mask cell / one grid cell / one dense pattern; 2: two cells), space B every pipeline of the menu "
    "up to the length bound on rich scenes. A case is non-trivial when its pre-validation mask holds at least two "
    "different flag values; distinct = distinct (parameters, per-step mask digests)."
)
ASSUMPTIONS = [
    "bit 1 is decided from the observed cost volume (no computable cost <=> all costs NaN) and, independently, "
    "predicted from the inputs (windows fit, no nodata in a window, centres not invalidated, disparity inside the "
    "pixel's interval; a fractional disparity needs both right columns it is interpolated from)",
    "intervals with |d| < image width only (a disparity reaching the width is C02's anticipated defect A8)",
    "per-pixel grids only shrink inside the global interval (no empty or NaN interval); with grids the right image "
    "gets the mirrored constant interval (cross-checking refuses left grids without right grids)",
    "a pandora.run that raises in a step is not a C04 verdict (totality belongs to C06/C14); the steps observed "
    "before the exception are still checked; space B uses radiometry without flat cost curves so that runs complete",
    "filling: C04 only asserts which flag values can follow which (8->4, 9->5, sgm 9->8->4, or unchanged), not which "
    "pixels are filled (C14)",
    "median_for_intervals (bit 11) and multiscale are not in the menu; aggregation / confidence steps are not inserted "
    "before the disparity step",
    "quick tier, window 3, pairs of mask cells: two of the four {nodata, invalid} x {nodata, invalid} value "
    "combinations per pair of cells (rotated with VERIF_SEED); all four in the thorough tier and for window 1",
    "quick tier: pipelines up to 3 post-disparity steps over the 7-entry menu plus length 4 over the 5-entry menu "
    "{vfit, median, cross-checking x3}; thorough: length 4 over 7 entries plus length 5 over 5 entries",
]

POSTS_SHORT = ["", "rv", "fm-rq", "vm", "rq-rv", "vs-fb"]


# ----------------------------------------------------------------------------------------------
# space A: inputs
# ----------------------------------------------------------------------------------------------
def _inv(i, dmin, dmax):
    far = max(abs(dmin), abs(dmax)) + 1   # outside the left interval and its mirror image searched for the right map
    return [-9999, "NaN", far, -far][i % 4]


def _scene(ny, nx, win, subpix, dmin, dmax, i, seed, **kw):
    sc = {"ny": ny, "nx": nx, "win": win, "subpix": subpix, "measure": ["sad", "ssd", "zncc", "census"][(i // 3) % 4],
          "dmin": dmin, "dmax": dmax, "lmask": None, "rmask": None, "grid": None, "inv": _inv(i, dmin, dmax),
          "img": {"kind": "generic", "seed": seed, "shift": [1, -1, 0, 2][i % 4]},
          # two scenes out of three are tiles whose coordinates do not start at 0 (flags are a matter of array
          # position relative to the image borders, never of the coordinate values)
          "origin": [(0, 0), (2, 5), (0, 11)][i % 3]}
    if sc["measure"] == "census" and win == 1:
        sc["measure"] = "sad"
    sc.update(kw)
    return sc


def _case(scene, i, level):
    return {"scene": scene, "post": POSTS_SHORT[i % len(POSTS_SHORT)], "lvl": level}


def shapes(win):
    return [(3, 5), (4, 6)] if win == 1 else [(5, 7), (6, 8)]


def level0(tier, seed):
    out = []
    i = 0
    for win in (1, 3):
        for subpix in (1, 2):
            for ny, nx in shapes(win):
                lim = min(nx - 1, 4 if tier == "quick" else 5)
                for dmin in range(-lim, lim + 1):
                    for dmax in range(dmin, lim + 1):
                        out.append(_case(_scene(ny, nx, win, subpix, dmin, dmax, i, seed), i, 0))
                        if win == 1 and subpix == 1 and (ny, nx) == shapes(1)[0]:
                            # repeated validation on the smallest scenes (keeps the witnesses of repeated-step defects small)
                            for post in ("vm-vm", "vs-vs"):
                                out.append({"scene": _scene(ny, nx, win, subpix, dmin, dmax, i, seed), "post": post, "lvl": 0})
                        i += 1
    return out


INTERVALS_L1 = [(-2, 2), (-1, 1), (0, 0), (1, 3), (-3, -1), (-4, 1)]


def level1(tier, seed):
    out = []
    i = 0
    # one mask cell
    for win in (1, 3):
        ny, nx = shapes(win)[0]
        for side in ("lmask", "rmask"):
            for r in range(ny):
                for c in range(nx):
                    for v in (1, 2):
                        for (dmin, dmax) in INTERVALS_L1:
                            for subpix in ((1, 2) if tier == "thorough" else (1 + (i % 2),)):
                                sc = _scene(ny, nx, win, subpix, dmin, dmax, i, seed, **{side: [[r, c, v]]})
                                out.append(_case(sc, i, 1))
                                i += 1
    # dense patterns
    for win in (1, 3):
        ny, nx = shapes(win)[1]
        specs = []
        for v in (1, 2, 5):
            for pat in ("row", "col", "checker", "all", "lastcol"):
                for k in ((0, 1, 2) if pat in ("row", "col") else (0, 1) if pat == "checker" else (0,)):
                    specs.append({"pattern": pat, "value": v, "k": k})
        for spec in specs:
            for side in ("lmask", "rmask", "both"):
                for (dmin, dmax) in [(-2, 2), (1, 2), (-3, -1)]:
                    kw = {"lmask": spec, "rmask": dict(spec, k=spec["k"] + 1)} if side == "both" else {side: spec}
                    if side == "both" and spec["pattern"] in ("all", "lastcol"):
                        kw["rmask"] = {"pattern": "checker", "value": 1 if spec["value"] != 1 else 2, "k": 0,
                                       "cells": [[1, 1, 5]]}
                    sc = _scene(ny, nx, win, 1 + (i % 2), dmin, dmax, i, seed, **kw)
                    out.append(_case(sc, i, 1))
                    i += 1
    # one grid cell shrunk to every sub-interval of [-2, 2]
    subs = [(a, b) for a in range(-2, 3) for b in range(a, 3) if (a, b) != (-2, 2)]
    for win in (1, 3):
        ny, nx = shapes(win)[0]
        o = (win - 1) // 2
        for r in range(o, ny - o):
            for c in range(o, nx - o):
                for (a, b) in subs:
                    sc = _scene(ny, nx, win, 1 + (i % 2), -2, 2, i, seed, grid=[[r, c, a, b]])
                    out.append(_case(sc, i, 1))
                    i += 1
    return out


def level2(tier, seed):
    out = []
    i = 0
    # two mask cells (any sides, any of nodata / invalid)
    for win in (1, 3):
        ny, nx = (3, 5) if win == 1 else ((4, 6) if tier == "quick" else (5, 7))
        cells = [(s, r, c) for s in ("lmask", "rmask") for r in range(ny) for c in range(nx)]
        ivs = [(-2, 2), (1, 2)] if win == 1 else ([(-2, 1)] if tier == "quick" else [(-2, 1), (1, 2)])
        combos = ((1, 1), (1, 2), (2, 1), (2, 2))
        for j, ((s1, r1, c1), (s2, r2, c2)) in enumerate(itertools.combinations(cells, 2)):
            # quick tier, window 3: each pair of cells gets two of the four value combinations, rotated with the seed
            for v1, v2 in (combos[(j + seed) % 2::2] if (tier == "quick" and win == 3) else combos):
                for (dmin, dmax) in ivs:
                    kw = {"lmask": [], "rmask": []}
                    kw[s1].append([r1, c1, v1])
                    kw[s2].append([r2, c2, v2])
                    kw = {k: (v or None) for k, v in kw.items()}
                    sc = _scene(ny, nx, win, 1 + (i % 2), dmin, dmax, i, seed, **kw)
                    out.append(_case(sc, i, 2))
                    i += 1
    # two grid cells
    subs = [(-2, -2), (0, 1), (2, 2)]
    for win in (1, 3):
        ny, nx = shapes(win)[0]
        o = (win - 1) // 2
        cells = [(r, c) for r in range(o, ny - o) for c in range(o, nx - o)]
        for (r1, c1), (r2, c2) in itertools.combinations(cells, 2):
            for s1 in subs:
                for s2 in subs:
                    sc = _scene(ny, nx, win, 1 + (i % 2), -2, 2, i, seed, grid=[[r1, c1, *s1], [r2, c2, *s2]])
                    out.append(_case(sc, i, 2))
                    i += 1
    # one mask cell and one grid cell
    for win in (1, 3):
        ny, nx = shapes(win)[0]
        o = (win - 1) // 2
        for side in ("lmask", "rmask"):
            for r in range(ny):
                for c in range(nx):
                    for v in (1, 2):
                        for (gr, gc) in [(o, o), (o, nx - 1 - o), (ny - 1 - o, o + 1)]:
                            for s in subs:
                                sc = _scene(ny, nx, win, 1 + (i % 2), -2, 2, i, seed, grid=[[gr, gc, *s]],
                                            **{side: [[r, c, v]]})
                                out.append(_case(sc, i, 2))
                                i += 1
    return out


# ----------------------------------------------------------------------------------------------
# space B: programs
# ----------------------------------------------------------------------------------------------
def rich_scenes(tier, seed):
    base = {"grid": None}
    sc = [
        dict(base, ny=6, nx=9, win=3, subpix=1, measure="sad", dmin=-2, dmax=2, inv=-9999,
             lmask=[[2, 2, 1], [3, 6, 2], [4, 4, 5]], rmask=[[1, 5, 1], [3, 3, 2], [3, 4, 2], [4, 7, 2]],
             img={"kind": "generic", "seed": seed, "shift": 1}),
        dict(base, ny=4, nx=8, win=1, subpix=2, measure="sad", dmin=-3, dmax=1, inv="NaN",
             lmask=[[0, 1, 2], [2, 5, 1]], rmask=[[1, 2, 2], [1, 3, 2], [3, 6, 1], [0, 0, 5]],
             img={"kind": "generic", "seed": seed + 1, "shift": -1}),
        dict(base, ny=5, nx=8, win=3, subpix=1, measure="zncc", dmin=-1, dmax=2, inv=3,
             lmask=None, rmask={"pattern": "col", "value": 2, "k": 4, "cells": [[2, 2, 1]]},
             grid=[[1, 2, 0, 1], [2, 3, -1, -1], [3, 5, 2, 2], [2, 6, 1, 2]],
             img={"kind": "generic", "seed": seed + 2, "shift": 1}),
    ]
    if tier == "thorough":
        sc += [
            dict(base, ny=5, nx=9, win=1, subpix=1, measure="ssd", dmin=1, dmax=3, inv=-9999,
                 lmask={"pattern": "checker", "value": 2, "k": 0, "cells": [[2, 2, 1]]}, rmask=[[2, 6, 1], [4, 4, 2]],
                 img={"kind": "generic", "seed": seed + 3, "shift": 2}),
            dict(base, ny=6, nx=8, win=3, subpix=2, measure="census", dmin=-2, dmax=1, inv="NaN",
                 lmask=[[3, 3, 2]], rmask=[[2, 2, 1], [3, 5, 5]],
                 img={"kind": "generic", "seed": seed + 4, "shift": -1}),
        ]
    return sc


def programs(tier, seed):
    scenes = rich_scenes(tier, seed)
    if tier == "quick":
        full = S.sequences(S.MENU7, 3)
        deep = S.sequences(S.MENU5, 4, 4)
        plan = [(scenes, full), (scenes[:2], deep)]
    else:
        full = S.sequences(S.MENU7, 4)
        deep = S.sequences(S.MENU5, 5, 5)
        plan = [(scenes, full), (scenes[:2], deep)]
    out = []
    for scs, posts in plan:
        for sc in scs:
            for p in posts:
                out.append({"scene": sc, "post": p, "lvl": 3})
    return out


def scale(tier, seed):
    """
    256 integer disparities ([-128, 127]) on a 300-column image with dense right masks: per-pixel counters of rejected
    right candidates go past every 8-bit width (one instance per mask pattern, the smallest image wider than the interval)
    """
    out = []
    i = 0
    for measure, win in (("sad", 1), ("census", 3)):
        for rmask in ({"pattern": "all", "value": 2}, {"pattern": "all", "value": 1},
                      {"pattern": "col", "value": 2, "k": 0}, {"pattern": "checker", "value": 2, "k": 0}):
            for post in ("", "vm"):
                sc = _scene(2 + win, 300, win, 1, -128, 127, i, seed, rmask=rmask)
                sc["measure"] = measure
                out.append({"scene": sc, "post": post, "lvl": 1})
                i += 1
    return out


def spaces(tier, seed):
    return [
        {"name": "A0 inputs: no mask, every interval", "level": 0, "cases": level0(tier, seed)},
        {"name": "A1 inputs: one mask cell / dense pattern / one grid cell", "level": 1, "cases": level1(tier, seed)},
        {"name": "A1 scale: 256 integer disparities on a 300-column image, dense right masks", "level": 1,
         "cases": scale(tier, seed), "chunk": 1},
        {"name": "B programs: every post-disparity pipeline of the menu on rich scenes", "level": 1,
         "cases": programs(tier, seed), "chunk": 8},
        {"name": "A2 inputs: two mask cells / two grid cells / mask + grid cell", "level": 2, "cases": level2(tier, seed)},
    ]


# ----------------------------------------------------------------------------------------------
# oracle
# ----------------------------------------------------------------------------------------------
def _first(mask):
    w = np.argwhere(mask)
    return (int(w[0][0]), int(w[0][1])), len(w)


def side_inputs(scene, side):
    """(own mask, other mask, lo, hi, gmin, gmax) of the left / right product"""
    ny, nx = scene["ny"], scene["nx"]
    lm = S.mask_array(scene.get("lmask"), ny, nx)
    rm = S.mask_array(scene.get("rmask"), ny, nx)
    (llo, lhi), (rlo, rhi) = S.intervals(scene)
    if side == "left":
        own, other, lo, hi = lm, rm, llo, lhi
    else:
        own, other, lo, hi = rm, lm, rlo, rhi
    return own, other, lo, hi, int(np.nanmin(lo)), int(np.nanmax(hi))


def check_pre(scene, side, site, cv, viol):
    """validity mask of a cost volume right after the matching cost step against ref/flags.py"""
    ny, nx, win, subpix = scene["ny"], scene["nx"], scene["win"], scene["subpix"]
    own, other, lo, hi, gmin, gmax = side_inputs(scene, side)
    static, bd = F.static_bits(own, other, ny, nx, win, gmin, gmax)
    costs = cv["cost_volume"].data
    allnan = np.isnan(costs).all(axis=2)
    exp = static.astype(np.int64) | np.where(allnan & ~bd, F.B1, 0)
    got = cv["validity_mask"].data.astype(np.int64)

    def bad(clause, cls, detail):
        viol.append({"clause": clause, "key": f"C04/{clause}/{site}/{cls}", "detail": f"[{side}] {detail}"})

    if got.shape != exp.shape:
        bad("pre-validation-bits", "shape", f"mask shape {got.shape} != image shape {exp.shape}")
        return None
    diff = got ^ exp
    if diff.any():
        for b in F.bits(np.bitwise_or.reduce(diff.reshape(-1))):
            m = (diff >> b) & 1 == 1
            spurious = m & ((got >> b) & 1 == 1)
            for name, mm in (("spurious", spurious), ("missing", m & ~spurious)):
                if mm.any():
                    p, k = _first(mm)
                    where = "border pixel" if bd[p] else "pixel"
                    bad("pre-validation-bits", f"bit {b} {name}" + (" on a border pixel" if bd[p] else ""),
                        f"{where} {p}: flags {got[p]} {F.bits(got[p])}, expected {exp[p]} {F.bits(exp[p])}; costs "
                        f"{costs[p].tolist()} ({k} pixels); scene {scene}")
    # the story: invalid flag <=> no computable cost
    inv_flag = (got & F.INVALID_PRE) != 0
    m = inv_flag & ~allnan
    if m.any():
        p, k = _first(m)
        bad("story", "invalid flag but a cost is computed", f"pixel {p} flags {got[p]} costs {costs[p].tolist()} ({k} pixels); "
            f"scene {scene}")
    m = ~inv_flag & allnan
    if m.any():
        p, k = _first(m)
        bad("story", "no cost but no invalid flag", f"pixel {p} flags {got[p]} costs all NaN ({k} pixels); scene {scene}")
    # prediction of "no computable cost" from the inputs
    comp = F.computable(own, other, ny, nx, win, subpix, lo, hi, gmin, gmax)
    if comp.shape == costs.shape:
        pred = ~comp.any(axis=2)
        m = pred != allnan
        if m.any():
            p, k = _first(m)
            bad("story", "costs all NaN" + (" although one is computable" if allnan[p] else " expected: none computable"),
                f"pixel {p}: costs {costs[p].tolist()}, computable per sample {comp[p].tolist()} ({k} pixels); scene {scene}")
    else:
        bad("story", "disparity axis", f"cost volume has {costs.shape[2]} samples, expected {comp.shape[2]}")
    return exp


def allowed_after(code, before):
    """set of flag values the step `code` may leave on a pixel that carried `before`"""
    b = int(before)
    if code in ("fm", "fb"):
        return {b}
    if b & F.INVALID_PRE:
        return {b}
    if code in ("rv", "rq"):
        return {b} if b & F.INVALID else {b, b | F.B3}
    if code == "v0":
        return {b} if b & F.INVALID else {b, b | F.B8, b | F.B9}
    if code in ("vm", "vs"):
        if b & F.INVALID == 0:
            return {b, b | F.B8, b | F.B9, b | F.B4, b | F.B5}
        out = {b}
        if b & F.B8:
            out.add((b & ~F.B8) | F.B4)
        if b & F.B9:
            out.add((b & ~F.B9) | F.B5)
            if code == "vs":
                out.add((b & ~F.B9) | F.B8)
                out.add((b & ~F.B9) | F.B4)
        return out
    raise ValueError(code)


KIND = {"rv": "refinement", "rq": "refinement", "fm": "filter", "fb": "filter", "v0": "validation",
        "vm": "validation+mc-cnn", "vs": "validation+sgm"}


def carried_bit(code, before, after):
    """
    index of the documented bit that was raised by integer addition on a pixel that already carried it, if `after`
    is exactly what that arithmetic gives (refinement: +8; filling: -256 +16 or -512 +32, the 256 / 512 possibly added
    by the cross-checking of the same validation step), else None
    """
    b, a = int(before), int(after)
    if code in ("rv", "rq"):
        return 3 if (b & F.B3) and a == b + F.B3 else None
    if code in ("vm", "vs"):
        for add in (F.B4, F.B5):
            if b & add:
                starts = [b]                      # the same step flagged the pixel 8 / 9 and then filled it
                if b & F.B8:
                    starts.append(b - F.B8)
                if b & F.B9:
                    starts.append(b - F.B9)
                if a in [x + add for x in starts]:
                    return int(add).bit_length() - 1
    return None


def check_step(code, side, before, after, viol, ctx):
    bf = before.astype(np.int64)
    af = after.astype(np.int64)
    kind = KIND[code]

    def bad(clause, cls, detail):
        viol.append({"clause": clause, "key": f"C04/{clause}/{kind}/{cls}", "detail": f"[{side}] {detail} {ctx}"})

    if (af >= 4096).any() or (af < 0).any():
        p, k = _first((af >= 4096) | (af < 0))
        bad("undocumented-bit", "bit >= 12", f"pixel {p}: {bf[p]} -> {af[p]} {F.bits(af[p])} ({k} pixels)")
    if np.array_equal(bf, af):
        return
    done = set()
    for r, c in np.argwhere(bf != af):
        b, a = bf[r, c], af[r, c]
        if a in allowed_after(code, b):
            continue
        k = carried_bit(code, b, a)
        if k is not None:
            key = ("carry", f"bit {k} already set")
            msg = (f"pixel ({r},{c}): {b} {F.bits(b)} -> {a} {F.bits(a)}: bit {k} was requested on a pixel that already "
                   f"carries it and was added arithmetically")
        else:
            cls = "invalid pixel" if b & F.INVALID else "valid pixel"
            key = ("only-own-bits", cls)
            msg = (f"pixel ({r},{c}): {b} {F.bits(b)} -> {a} {F.bits(a)}; the step may only leave one of "
                   f"{sorted(allowed_after(code, b))}")
        if key not in done:
            done.add(key)
            bad(key[0], key[1], msg)


def check_story_disp(scene, side, site, disp, viol, ctx):
    """before validation: invalid flag <=> disparity is the invalid_disparity value"""
    inv = S.inv_value(scene["inv"])
    d = disp["disparity_map"].data
    fl = disp["validity_mask"].data.astype(np.int64)
    is_inv = np.isnan(d) if np.isnan(inv) else (d == np.float32(inv))
    inv_flag = (fl & F.INVALID_PRE) != 0
    for cls, m in (("invalid flag but a disparity", inv_flag & ~is_inv), ("invalid disparity but no invalid flag", ~inv_flag & is_inv)):
        if m.any():
            p, k = _first(m)
            viol.append({"clause": "story", "key": f"C04/story/{site}/{cls}",
                         "detail": f"[{side}] pixel {p}: flags {fl[p]} {F.bits(fl[p])}, disparity {d[p]}, invalid_disparity "
                                   f"{scene['inv']} ({k} pixels) {ctx}"})


def run_case(case):
    scene, post = case["scene"], case["post"]
    left, right = S.build(scene)
    pipe = S.pipeline(scene, post)
    obs = P.run_observed(left, right, pipe, snapshot=("cv", "disp"))
    if obs.error and obs.error[0] == "check":
        raise AssertionError(f"legal pipeline refused by the checker: {obs.error[1]!r} {pipe}")
    viol = []
    n = 0
    digs = []
    validated = False
    pre = {}
    cvmask = {}
    prev = None
    ctx = f"(pipeline {list(pipe)[2:]} = {post!r}, scene {scene})"
    nontrivial = False
    for rec in obs.steps:
        cb = rec["callback"]
        for side in ("left", "right"):
            cv, disp = rec.get(f"{side}_cv"), rec.get(f"{side}_disp")
            has_cv = cv is not None and "cost_volume" in cv and "validity_mask" in cv
            has_disp = disp is not None and "disparity_map" in disp
            if cb == "matching_cost_run":
                if has_cv:
                    n += 1
                    pre[side] = check_pre(scene, side, "matching_cost", cv, viol)
                    cvmask[side] = cv["validity_mask"].data.copy()
                    if len(np.unique(cvmask[side])) > 1:
                        nontrivial = True
                continue
            if has_cv and side in cvmask and not np.array_equal(cvmask[side], cv["validity_mask"].data):
                viol.append({"clause": "cv-mask-unchanged", "key": f"C04/cv-mask-unchanged/{cb}/{side}",
                             "detail": f"validity mask of the {side} cost volume changed during step {rec['step']} {ctx}"})
                cvmask[side] = cv["validity_mask"].data.copy()
            if not has_disp:
                continue
            n += 1
            fl = disp["validity_mask"].data
            digs.append(hashlib.sha1(np.ascontiguousarray(fl).astype(np.int64).tobytes()).hexdigest()[:8])
            if cb == "disparity_run":
                if side in cvmask and not np.array_equal(fl.astype(np.int64), cvmask[side].astype(np.int64)):
                    p, k = _first(fl.astype(np.int64) != cvmask[side].astype(np.int64))
                    viol.append({"clause": "pre-validation-bits", "key": "C04/pre-validation-bits/disparity/differs from cost volume",
                                 "detail": f"[{side}] pixel {p}: disparity dataset flag {fl[p]}, cost volume flag "
                                           f"{cvmask[side][p]} ({k} pixels) {ctx}"})
                if (fl.astype(np.int64) >= 4096).any():
                    viol.append({"clause": "undocumented-bit", "key": "C04/undocumented-bit/disparity/bit >= 12",
                                 "detail": f"[{side}] flags {np.unique(fl).tolist()} {ctx}"})
                check_story_disp(scene, side, "disparity", disp, viol, ctx)
                if has_cv:
                    allnan = np.isnan(cv["cost_volume"].data).all(axis=2)
                    m = allnan != ((fl.astype(np.int64) & F.INVALID_PRE) != 0)
                    if m.any():
                        p, k = _first(m)
                        viol.append({"clause": "story", "key": "C04/story/disparity/invalid flag vs all-NaN costs",
                                     "detail": f"[{side}] pixel {p}: flags {fl[p]}, all costs NaN = {bool(allnan[p])} ({k} pixels) {ctx}"})
                continue
            code = S.step_code(obs.cfg["pipeline"][rec["step"]])
            pdisp = prev.get(f"{side}_disp") if prev else None
            if pdisp is None or "validity_mask" not in pdisp:
                continue
            check_step(code, side, pdisp["validity_mask"].data, fl, viol, f"step {rec['step']} {ctx}")
            if code.startswith("v"):
                validated = True
            if not validated:
                check_story_disp(scene, side, KIND[code], disp, viol, f"after step {rec['step']} {ctx}")
        prev = rec
    trivial = 0 if nontrivial else 1
    sigs = []
    if nontrivial:
        sigs = [f"{scene['win']}|{scene['subpix']}|{scene['measure']}|{scene['dmin']},{scene['dmax']}|{scene['inv']}|{post}|"
                + ".".join(digs)]
    seen = set()
    out = []
    for v in viol:
        if v["key"] not in seen:
            seen.add(v["key"])
            out.append(v)
    if obs.error:
        # not a verdict of this property; keep it visible in the signature
        sigs = [s + f"|raised in {S.failing_step(obs, pipe)}: {type(obs.error[1]).__name__}" for s in sigs]
    return {"n": max(n, 1), "sigs": sigs, "viol": out[:10], "trivial": trivial}


def init_worker():
    sc = rich_scenes("quick", 0)[0]
    for post in ("rv-fm-vm", "rq-fb-vs"):
        run_case({"scene": sc, "post": post, "lvl": 3})
    run_case({"scene": rich_scenes("quick", 0)[1], "post": "rv-v0", "lvl": 3})
