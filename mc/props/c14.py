"""
C14 - occlusion/mismatch filling touches only flagged pixels, fills from valid ones (DESIGN.md section 3, C14).

Enumerated on the real `validation.AbstractInterpolation(**cfg).interpolated_disparity(left)`, both methods
("mc-cnn", "sgm"), un-packed maps (filling scans the whole map), symbols a/b = valid with two different disparities,
i = invalid (bit 1), o = occluded (bit 8), m = mismatched (bit 9):
  * quick   : every 1x4, 4x1 and 2x3 map over {a,b,i,o,m}; every 3x3 and every 2x4 map over {a,i,o,m};
              offset 1 (window 3): every interior of shape 2x2, 1x3, 3x1, 2x3 over {a,b,i,o,m} inside a frame of
              border pixels (flag 1), as cross-checking leaves them;
  * thorough: + every 2x4 and every 3x3 map over {a,b,i,o,m}; every 3x3 interior over {a,i,o,m} at offset 1; every
              3x4 map over {a,b,o,m} with at most 4 flagged pixels;
  * machine level: real pipelines whose validation step has `interpolated_disparity`, compared with the same
    pipeline without it (= the input of the filling) and with a direct call of the method on that input.
Oracle: invariants of the statement (mc/ref/fill.py) - untouched pixels bit for bit, flag arithmetic, finite value
within the valid range that is a documented candidate / the median of the documented candidates, no fill without a
valid pixel in sight, borders.
"""
from __future__ import annotations

import numpy as np

from mc.drivers import datasets as D
from mc.drivers import validation_steps as VS
from mc.ref import fill as F

ID = "C14"
LEVEL = "exploration"
BUDGET = {"quick": 300, "thorough": 3600}
CHUNK = 2
RULE = (
    "cases = blocks of consecutive indices of the product enumeration (index -> base-k digits -> symbols of the map, "
    "row-major), every index of every declared space is executed for each method; evaluations = maps x methods; a "
    "map is non-trivial when it holds at least one flagged (bit 8/9) and one valid pixel; distinct = distinct "
    "(method, shape, sorted per-flagged-pixel outcomes: kind, unfilled / filled as occlusion / as mismatch, number "
    "of candidate directions capped at 3)"
)
ASSUMPTIONS = [
    "symbols: valid pixels carry flag 0 and a finite disparity (two values, rotated by VERIF_SEED), invalid pixels "
    "flag 2 with the invalid disparity (-9999 or NaN by seed), occluded pixels flag 256 / disparity 7, mismatched "
    "pixels flag 512 / disparity -7 (both outside the valid range so that a copy from a flagged pixel shows)",
    "no pixel carries bit 8 and bit 9 together (C07: never both); with offset > 0 the frame carries flag 1 on input, "
    "as left by the cross-checking step",
    "which candidate an occlusion takes, rasterisation of the slope-1/2 directions, validity read on input flags or "
    "after the method's first pass: all accepted (see mc/ref/fill.py)",
    "a flagged pixel that stays flagged although a valid pixel is in sight is accepted (the statement only forbids "
    "filling without one); the disparity of a pixel that stays flagged is not asserted",
    "medians compared with relative tolerance 1e-6 (float32 vs float64)",
]

VALID_VALUES = [(-1.0, 2.0), (-2.0, 1.0), (1.0, 3.0), (-1.5, 2.25)]
METHODS = ("mc-cnn", "sgm")
BLOCK = 2048


def symbols(names, seed):
    a, b = VALID_VALUES[seed % 4]
    inv = -9999.0 if seed % 2 == 0 else float("nan")
    # O / M: flagged again by a second cross-check although an earlier validation step already filled them
    # (they still carry the "filled" bit 4 / 5): the bit swap must not depend on it
    table = {"a": (a, 0), "b": (b, 0), "i": (inv, 2), "o": (7.0, 256), "m": (-7.0, 512),
             # ... and information bits of other steps (3: refinement stopped, 10: filled nodata, 11: interval
             # regularised) that the filling must carry over untouched
             "O": (6.0, 256 + 16 + 2048 + 8), "M": (-6.0, 512 + 32 + 1024)}
    disp = np.array([table[n][0] for n in names], dtype=np.float32)
    flag = np.array([table[n][1] for n in names], dtype=np.uint16)
    return disp, flag


def blocks(space, total, method_list, seed, extra=None):
    for method in method_list:
        for start in range(0, total, BLOCK):
            c = {"kind": "enum", "space": space, "method": method, "start": start, "stop": min(total, start + BLOCK),
                 "seed": seed}
            if extra:
                c.update(extra)
            yield c


SPACES = {
    # name: (shape of the enumerated part, symbol names, offset, max flagged or None)
    "3x3/4": ((3, 3), "aiom", 0, None),
    "3x3/5": ((3, 3), "abiom", 0, None),
    "2x4/5": ((2, 4), "abiom", 0, None),
    "2x4/4": ((2, 4), "aiom", 0, None),
    "2x3/5": ((2, 3), "abiom", 0, None),
    "o1-3x3/4": ((3, 3), "aiom", 1, None),
    "3x4/4<=4": ((3, 4), "abom", 0, 4),
    "o1-2x2/5": ((2, 2), "abiom", 1, None),
    "o1-1x3/5": ((1, 3), "abiom", 1, None),
    "o1-3x1/5": ((3, 1), "abiom", 1, None),
    "o1-2x3/5": ((2, 3), "abiom", 1, None),
    "1x4/5": ((1, 4), "abiom", 0, None),
    "2x3/7": ((2, 3), "abiomOM", 0, None),
    "1x4/7": ((1, 4), "abiomOM", 0, None),
    "4x1/5": ((4, 1), "abiom", 0, None),
}


def total_of(space):
    shape, names, _, _ = SPACES[space]
    return len(names) ** (shape[0] * shape[1])


def spaces(tier, seed):
    def sp(name, level, space):
        return {"name": f"{name} [{space}]", "level": level, "cases": blocks(space, total_of(space), METHODS, seed)}

    out = [
        sp("all 1x4 maps over 5 symbols", 0, "1x4/5"),
        sp("all 4x1 maps over 5 symbols", 0, "4x1/5"),
        sp("all 2x3 maps over 5 symbols", 0, "2x3/5"),
        sp("all 1x4 maps over 7 symbols (incl. pixels flagged again after an earlier fill)", 1, "1x4/7"),
        sp("all 2x3 maps over 7 symbols (incl. pixels flagged again after an earlier fill)", 1, "2x3/7"),
        sp("all 3x3 maps over {valid, invalid, occluded, mismatched}", 0, "3x3/4"),
        sp("all 2x4 maps over {valid, invalid, occluded, mismatched}", 0, "2x4/4"),
        sp("offset 1: all 2x2 interiors inside a border frame", 1, "o1-2x2/5"),
        sp("offset 1: all 1x3 interiors inside a border frame", 1, "o1-1x3/5"),
        sp("offset 1: all 3x1 interiors inside a border frame", 1, "o1-3x1/5"),
        sp("offset 1: all 2x3 interiors inside a border frame", 1, "o1-2x3/5"),
        {"name": "machine level: validation with interpolated_disparity vs without", "level": 1,
         "cases": machine_cases(tier, seed), "chunk": 1},
    ]
    if tier == "thorough":
        out += [
            sp("all 2x4 maps over 5 symbols", 2, "2x4/5"),
            sp("all 3x3 maps over 5 symbols (two valid values)", 2, "3x3/5"),
            sp("offset 1: all 3x3 interiors over 4 symbols inside a border frame", 2, "o1-3x3/4"),
            sp("all 3x4 maps over {valid a, valid b, occluded, mismatched} with <= 4 flagged pixels", 3, "3x4/4<=4"),
        ]
    return out


def machine_cases(tier, seed):
    out = []
    shapes = [(4, 7), (5, 9)] if tier == "quick" else [(4, 7), (5, 9), (6, 8), (3, 12)]
    for (ny, nx) in shapes:
        for method, window in (("sad", 1), ("census", 3), ("zncc", 3)):
            for subpix in (1, 2):
                for post in ("", "vfit", "median"):
                    for fill in METHODS:
                        k = ny * 3 + nx + window + subpix + len(post)
                        if tier == "quick" and (k + seed) % 3:
                            continue
                        out.append({"kind": "machine", "ny": ny, "nx": nx, "method": method, "window": window,
                                    "subpix": subpix, "post": post, "thr": [1.0, 0.0][k % 2], "shift": 1 + k % 2,
                                    "img": (seed * 7 + k) % 11, "disp": [-2, 2] if k % 4 else [-1, 3], "fill": fill})
    return out


# ----------------------------------------------------------------------------------------------
_FILLERS = {}


def filler(shape, offset):
    key = (shape, offset)
    if key not in _FILLERS:
        _FILLERS[key] = VS.Filler(shape, offset)
    return _FILLERS[key]


def decode(space, start, stop, seed):
    """-> (disp (n, ny, nx) float32, flags (n, ny, nx) uint16) for the indices start..stop-1 (filtered)"""
    shape, names, offset, maxflag = SPACES[space]
    k = len(names)
    ncell = shape[0] * shape[1]
    idx = np.arange(start, stop, dtype=np.int64)
    digits = (idx[:, None] // (k ** np.arange(ncell - 1, -1, -1, dtype=np.int64))[None, :]) % k
    sd, sf = symbols(names, seed)
    if maxflag is not None:
        nflag = ((sf[digits] & (F.OCC | F.MIS)) != 0).sum(axis=1)
        digits = digits[nflag <= maxflag]
    disp = sd[digits].reshape((-1,) + shape)
    flag = sf[digits].reshape((-1,) + shape)
    if offset:
        n = disp.shape[0]
        full = (shape[0] + 2 * offset, shape[1] + 2 * offset)
        d2 = np.full((n,) + full, sd[names.index("a")], dtype=np.float32)  # a valid-looking value under the border
        f2 = np.full((n,) + full, F.BORDER, dtype=np.uint16)
        d2[:, offset:-offset, offset:-offset] = disp
        f2[:, offset:-offset, offset:-offset] = flag
        disp, flag = d2, f2
    return disp, flag, offset


def _verdicts(method, din, fin, dout, fout, offset, err, site, viol, trace=None):
    if err is not None:
        key = f"C14/totality/{method}/{type(err).__name__}"
        viol.setdefault(key, {"clause": "totality", "key": key, "cls": type(err).__name__, "method": method,
                              "detail": f"interpolated_disparity raised {err!r} on disparity={np.asarray(din).tolist()} "
                                        f"flags={np.asarray(fin).tolist()}"})
        return
    skip = {(v["clause"], v["cls"]) for v in viol.values() if v.get("method") == method}
    for b in F.check_fill(method, din, fin, dout, fout, offset, trace, skip):
        key = f"C14/{b['clause']}/{method}/{b['cls']}"
        if key not in viol:
            viol[key] = {"clause": b["clause"], "key": key, "cls": b["cls"], "method": method,
                         "detail": f"[{site}] method {method} offset {offset} input disparity={np.asarray(din).tolist()} "
                                   f"flags={np.asarray(fin).tolist()} -> output disparity={np.asarray(dout).tolist()} "
                                   f"flags={np.asarray(fout).tolist()}: {b['detail']}"}


def run_case(case):
    if case["kind"] == "machine":
        return run_machine(case)
    method = case["method"]
    disp, flag, offset = decode(case["space"], case["start"], case["stop"], case["seed"])
    n = disp.shape[0]
    if n == 0:
        return {"n": 0, "sigs": [], "viol": []}
    fl = filler(disp.shape[1:], offset)
    viol = {}
    sigs = set()
    trivial = 0
    for j in range(n):
        din, fin = disp[j], flag[j]
        dout, fout, err = fl.run(method, din, fin)
        trace = []
        _verdicts(method, din, fin, dout, fout, offset, err, "interpolated_disparity", viol, trace)
        if trace and ((fin & F.INVALID) == 0).any():
            sigs.add(f"{method}|{case['space']}|" + ",".join(sorted(trace)))
        else:
            trivial += 1
        if (case["start"] + j) % 257 == 0 and err is None:
            d2, f2, _ = VS.fill_fresh(method, din, fin, offset)
            if not (D.arr_eq(d2, dout) and D.arr_eq(f2, fout)):
                # the same map gives two different results: at most one of them can be what the reference says, so
                # the fresh one is judged as well; only if BOTH pass is the harness (its re-used dataset) to blame
                _verdicts(method, din, fin, d2, f2, offset, None, "interpolated_disparity", viol, [])
                if not viol:
                    raise AssertionError("re-used dataset and fresh dataset give different results")  # self-check
    return {"n": n, "sigs": sorted(sigs), "viol": list(viol.values()), "trivial": trivial}


# ----------------------------------------------------------------------------------------------
def run_machine(case):
    from mc.drivers import pipeline as P  # pylint: disable=import-outside-toplevel
    from pandora import validation  # pylint: disable=import-outside-toplevel

    method = case["fill"]
    limg, rimg = VS.images_of(case)
    obs0 = P.run_observed(limg, rimg, VS.pipeline_of(dict(case, fill=None)), snapshot=("disp",))
    limg, rimg = VS.images_of(case)
    obs1 = P.run_observed(limg, rimg, VS.pipeline_of(case), snapshot=("disp",))
    for o in (obs0, obs1):
        if o.error is not None:
            raise RuntimeError(f"pipeline failed in {o.error[0]}: {o.error[1]!r}")  # harness: the menu must be legal
    pre0, pre1 = obs0.steps[-2], obs1.steps[-2]
    for k in ("left_disp", "right_disp"):
        if D.same_dataset(pre0[k], pre1[k]):
            raise RuntimeError("the two runs differ before validation (non-determinism)")
    viol = {}
    sigs = set()
    trivial = 0
    for side in ("left", "right"):
        a = obs0.steps[-1][f"{side}_disp"]
        b = obs1.steps[-1][f"{side}_disp"]
        off = int(a.attrs["offset_row_col"])
        din, fin = a["disparity_map"].data, a["validity_mask"].data
        dout, fout = b["disparity_map"].data, b["validity_mask"].data
        trace = []
        _verdicts(method, din, fin, dout, fout, off, None, f"validation_run/{side} map", viol, trace)
        direct = a.copy(deep=True)
        validation.AbstractInterpolation(**VS.pipeline_of(case)["validation"]).interpolated_disparity(direct)
        if not (D.arr_eq(direct["disparity_map"].data, dout) and D.arr_eq(direct["validity_mask"].data, fout)):
            key = f"C14/binding/validation_run/{side} map/{method}"
            viol.setdefault(key, {"clause": "binding", "key": key,
                                  "detail": "the pipeline's filled map differs from interpolated_disparity applied "
                                            "to the cross-checked map of the same pipeline without filling"})
        if trace and ((fin & F.INVALID) == 0).any():
            sigs.add(f"machine|{method}|{side}|" + ",".join(sorted(set(trace))))
        else:
            trivial += 1
    return {"n": 2, "sigs": sorted(sigs), "viol": list(viol.values()), "trivial": trivial}


def init_worker():
    run_case({"kind": "enum", "space": "1x4/5", "method": "mc-cnn", "start": 0, "stop": 4, "seed": 0})
    run_case({"kind": "enum", "space": "1x4/5", "method": "sgm", "start": 0, "stop": 4, "seed": 0})
