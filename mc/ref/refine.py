"""
Reference model of the sub-pixel refinement step (C06), written from
docs/source/userguide/step_by_step/refinement.rst and the statement of C06 - not from refinement.py.

V-fit (Haller 2010), p the slope of the steeper side of the symmetric V through (−1,c0) (0,c1) (+1,c2):
        y = c2 + (x − 1)·p ,  y = c0 + (x + 1)·(−p)      =>   x = (c0 − c2) / (2p)
Parabola:
        a = (c0 − 2c1 + c2)/2 , b = (c2 − c0)/2 , c = c1 ,   x = −b / 2a ,  y = a x² + b x + c
"If one of the coefficients is invalid, d, d−1 or d+1, interpolation is not performed."

Everything is float64; x is in *samples* (the caller divides by subpix).

decide(c0, c1, c2, measure, method) -> (status, x, y)
    status "centre-nan" : the sample itself has no cost (nothing is asserted about the flag, see C06 ASSUMPTIONS)
           "stopped"    : a neighbour is NaN or the sample is not an extremum of its neighbours -> x = 0, y = c1
           "flat"       : c0 == c1 == c2: every x of [−½, ½] is an optimum, y = c1
           "fit"        : x, y as above
"""
from __future__ import annotations

import math

import numpy as np

INVALID = 0b01111000011  # bits 0, 1, 6, 7, 8, 9: "the point is invalid" rows of output.rst
STOPPED = 1 << 3


def decide(c0, c1, c2, measure, method):
    c0, c1, c2 = float(c0), float(c1), float(c2)
    if math.isnan(c1):
        return "centre-nan", 0.0, c1
    if math.isnan(c0) or math.isnan(c2):
        return "stopped", 0.0, c1
    if measure == "min":
        extremum = c1 <= c0 and c1 <= c2
    else:
        extremum = c1 >= c0 and c1 >= c2
    if not extremum:
        return "stopped", 0.0, c1
    if c0 == c1 == c2:
        return "flat", 0.0, c1
    if method == "vfit":
        left, right = c0 - c1, c2 - c1
        p = left if abs(left) > abs(right) else right
        x = (c0 - c2) / (2.0 * p)
        y = c2 + (x - 1.0) * p
    else:
        a = (c0 - 2.0 * c1 + c2) / 2.0
        b = (c2 - c0) / 2.0
        x = -b / (2.0 * a)
        y = a * x * x + b * x + c1
    return "fit", x, y


# status codes of the vectorised twin
S_CENTRE_NAN, S_STOPPED, S_FLAT, S_FIT = 0, 1, 2, 3


def decide_vec(c0, c1, c2, measure, method):
    """vectorised twin of `decide` (cross-checked against it by the property module); returns status, x, y arrays"""
    c0 = np.asarray(c0, dtype=np.float64)
    c1 = np.asarray(c1, dtype=np.float64)
    c2 = np.asarray(c2, dtype=np.float64)
    status = np.full(c1.shape, S_FIT, dtype=np.int8)
    with np.errstate(all="ignore"):
        if measure == "min":
            extremum = (c1 <= c0) & (c1 <= c2)
        else:
            extremum = (c1 >= c0) & (c1 >= c2)
        neigh_nan = np.isnan(c0) | np.isnan(c2)
        flat = (c0 == c1) & (c1 == c2)
        status[flat] = S_FLAT
        status[~extremum] = S_STOPPED
        status[neigh_nan] = S_STOPPED
        status[np.isnan(c1)] = S_CENTRE_NAN
        if method == "vfit":
            left, right = c0 - c1, c2 - c1
            p = np.where(np.abs(left) > np.abs(right), left, right)
            x = (c0 - c2) / (2.0 * p)
            y = c2 + (x - 1.0) * p
        else:
            a = (c0 - 2.0 * c1 + c2) / 2.0
            b = (c2 - c0) / 2.0
            x = -b / (2.0 * a)
            y = a * x * x + b * x + c1
    fit = status == S_FIT
    x = np.where(fit, x, 0.0)
    y = np.where(fit, y, c1)
    return status, x, y


def on_grid_index(disp, d_min, subpix, nd):
    """index of the sample `disp` on the axis d_min + k/subpix, or -1 when disp is not one of the nd samples"""
    disp = np.asarray(disp, dtype=np.float64)
    with np.errstate(all="ignore"):
        k = (disp - float(d_min)) * subpix
        kr = np.rint(k)
        ok = np.isfinite(k) & (k == kr) & (kr >= 0) & (kr <= nd - 1)
    return np.where(ok, kr, -1).astype(np.int64)


def expected_map(costs, disp, flags, d_min, subpix, measure, method):
    """
    Per-pixel expectation for a whole (row, col, disp) volume and its disparity map.

    returns dict of (row, col) arrays:
      cls     0 invalid pixel | 1 off-grid disparity | 2 centre NaN | 3 interval end | 4 stopped | 5 flat | 6 fit
      disp    expected refined disparity (float64; meaningful for cls 0, 2, 3, 4, 6)
      coeff   expected interpolated coefficient (NaN for cls 0 and 2)
      c1      cost of the received sample (NaN where undefined)
    """
    costs = np.asarray(costs)
    ny, nx, nd = costs.shape
    disp64 = np.asarray(disp, dtype=np.float64)
    flags = np.asarray(flags).astype(np.int64)
    k = on_grid_index(disp64, d_min, subpix, nd)
    cls = np.full((ny, nx), 1, dtype=np.int8)
    rr, cc = np.meshgrid(np.arange(ny), np.arange(nx), indexing="ij")
    kk = np.clip(k, 0, nd - 1)
    c1 = costs[rr, cc, kk].astype(np.float64)
    c0 = costs[rr, cc, np.clip(kk - 1, 0, nd - 1)].astype(np.float64)
    c2 = costs[rr, cc, np.clip(kk + 1, 0, nd - 1)].astype(np.float64)
    status, x, y = decide_vec(c0, c1, c2, measure, method)
    ongrid = k >= 0
    end = ongrid & ((k == 0) | (k == nd - 1))
    interior = ongrid & ~end
    cls[interior & (status == S_FIT)] = 6
    cls[interior & (status == S_FLAT)] = 5
    cls[interior & (status == S_STOPPED)] = 4
    cls[end] = 3
    cls[ongrid & np.isnan(c1)] = 2
    invalid = (flags & INVALID) != 0
    cls[invalid] = 0
    exp_disp = disp64.copy()
    fit = cls == 6
    exp_disp[fit] = disp64[fit] + x[fit] / subpix
    coeff = np.where(fit, y, c1)
    coeff[(cls == 0) | (cls == 2)] = np.nan
    c1 = np.where(ongrid, c1, np.nan)
    return {"cls": cls, "disp": exp_disp, "coeff": coeff, "c1": c1, "x": np.where(fit, x, 0.0), "k": k}


def flat_inputs(costs, disp, flags, d_min, subpix, measure, method):
    """
    masks of the valid pixels on which a fit has no unique optimum: (a) on-grid sample with three equal costs around it,
    (b) off-grid disparity (the triple the step uses is unspecified) whose cost vector holds three equal finite costs
    """
    costs = np.asarray(costs)
    exp = expected_map(costs, disp, flags, d_min, subpix, measure, method)
    srt = np.sort(np.where(np.isnan(costs), np.inf, costs), axis=2)
    three = ((srt[:, :, :-2] == srt[:, :, 2:]) & np.isfinite(srt[:, :, :-2])).any(axis=2)
    return exp["cls"] == 5, (exp["cls"] == 1) & three


def exception_class(costs, disp, flags, d_min, subpix, measure, method):
    """input class of an exception: is there a valid pixel whose fit has no unique optimum?"""
    flat, off = flat_inputs(costs, disp, flags, d_min, subpix, measure, method)
    return "flat triple" if (flat.any() or off.any()) else "no flat triple"


CLS_NAMES = {0: "invalid pixel", 1: "off-grid disparity", 2: "sample cost NaN", 3: "interval end",
             4: "stopped (NaN neighbour or not an extremum)", 5: "flat triple", 6: "fit"}
