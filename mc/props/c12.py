"""
C12 - confidence bands follow their definitions, bracket the winner, only add bands (DESIGN.md section 3, C12).

Enumerated on the real code:
  level 0  "packed": every per-pixel cost vector over a small alphabet (NaN included) for 2..4 disparities laid out
           as the pixels of one synthetic cost volume (every vector present, position chosen by a stride/offset so
           that cross-pixel interference changes the expected band), x min/max measure x every ambiguity / risk /
           interval_bounds parameter set, step called exactly as the state machine calls it; interval bounds are
           followed by the real winner-takes-all step (bracket clause).
  level 2  "small": every volume of two pixels over the alphabet (global minimum / maximum / range of the volume vary,
           one- and two-pixel percentile normalisation), all parameter sets on each.
  level 1  "reg": ambiguity band + interval_bounds with and without regularisation (quantile 1) on the packed
           volumes, for every ambiguity threshold / kernel size / vertical depth of a small grid.
  level 0  "std": std_intensity on every few-symbol image of the smallest shapes and on generic images x windows.
  level 1  "pipe": the real `pandora.run` with every sequence of <= 3 confidence steps (4 methods, repetition
           allowed) x every placement of suffixed / unsuffixed step names, inserted after the matching cost and
           around an aggregation step, compared with the same pipeline without them (differential oracle), every
           band value checked against the reference on the cost volume the step really saw.
Oracle: mc/ref/confidence.py (float64) for the values, exact comparison for "only adds".
"""
from __future__ import annotations

import copy
import hashlib
import itertools
import json
import math

import numpy as np

from mc.drivers import datasets as D
from mc.ref import confidence as R

ID = "C12"
LEVEL = "exploration"
BUDGET = {"quick": 300, "thorough": 3600}
CHUNK = 4
RULE = (
    "cases = (packed) alphabet x number of disparities x measure type x layout x every step parameter set; "
    "(small) every two-pixel volume over the alphabet x all parameter sets; (reg) packed volumes x regularisation "
    "grid; (std) all few-symbol images of the smallest shapes + generic images x windows; (pipe) every sequence of "
    "<= 3 confidence steps x naming pattern x base pipeline. A case is trivial when its volume has fewer than two "
    "distinct finite costs (skipped, outside the quantifier). distinct = distinct (parameters, digest of the new bands)"
)
ASSUMPTIONS = [
    "a cost whose normalised distance to the best equals eta up to 1e-6 may count or not (doc writes '<', code '<='); "
    "the last eta k*eta_step == eta_max up to 1e-6 is optional (decimal steps are not binary numbers)",
    "a disparity without cost (NaN) is either always counted as within eta (and part of the spread) or never, "
    "consistently over a band: the statement is silent, the code comments document the first reading",
    "pixels without any finite cost are not constrained by the value clauses (only: normalised ambiguity in [0,1], "
    "risk NaN or ordered)",
    "normalised ambiguity: the statement does not fix the percentile; checked: finite, in [0,1], weakly decreasing "
    "in the count",
    "risk values are checked in samples of the disparity axis and only on unit-step axes (for subpix > 1 the "
    "statement's 'disparity spread' and '1+spread-count' cannot both be in disparity units)",
    "band names are the documented ones (docs/source/userguide/output.rst): confidence_from_intensity_std, "
    "confidence_from_ambiguity, confidence_from_risk_max/_min, confidence_from_interval_bounds_inf/_sup + '.suffix'",
    "std_intensity values are checked on the left product only (the right one is C08's mirrored problem); "
    "images without NaN samples",
    "regularisation: 'only widens' is evaluated where the unregularised bound is finite",
    "alphabets {NaN,0,2,4,8}, {NaN,0,1,3,16}, {NaN,4,5,8} ({NaN,0,2,8} for two-pixel volumes of 3 disparities); 2..4 disparities; images 6x8 / 8x10 (masked) / 9x12 (window 5) for pipelines",
]

ALPHAS = {"a8": [None, 0, 2, 4, 8], "a16": [None, 0, 1, 3, 16], "a48": [None, 4, 5, 8], "a8s": [None, 0, 2, 8]}
ETAS = [(0.5, 0.125), (0.75, 0.25), (0.7, 0.01)]
THRS = [0.0, 0.5, 0.9, 1.0]
INVALID_BITS = 0b01111000011
FTOL = 1e-5

DOC_NAMES = {
    "std_intensity": ["confidence_from_intensity_std"],
    "ambiguity": ["confidence_from_ambiguity"],
    "risk": ["confidence_from_risk_max", "confidence_from_risk_min"],
    "interval_bounds": ["confidence_from_interval_bounds_inf", "confidence_from_interval_bounds_sup"],
}


# ----------------------------------------------------------------------------------------------
# step parameter menus
# ----------------------------------------------------------------------------------------------
def amb_cfg(eta, norm):
    return {"confidence_method": "ambiguity", "eta_max": eta[0], "eta_step": eta[1], "normalization": bool(norm)}


def risk_cfg(eta):
    return {"confidence_method": "risk", "eta_max": eta[0], "eta_step": eta[1]}


def ib_cfg(thr):
    return {"confidence_method": "interval_bounds", "possibility_threshold": float(thr)}


def value_menu():
    out = [amb_cfg(e, n) for e in ETAS for n in (False, True)]
    out += [risk_cfg(e) for e in ETAS]
    out += [ib_cfg(t) for t in THRS]
    return out


def names_of(cfg, sfx):
    return [n + sfx for n in DOC_NAMES[cfg["confidence_method"]]]


# ----------------------------------------------------------------------------------------------
# spaces
# ----------------------------------------------------------------------------------------------
def _shapes(nvec, which):
    a = int(math.ceil(math.sqrt(nvec)))
    table = {
        "sq": (a, int(math.ceil(nvec / a))),
        "row": (1, nvec),
        "col": (nvec, 1),
        "wide": (3, int(math.ceil(nvec / 3))),
    }
    return list(table[which])


SEQ_NAMINGS = {
    1: [[""], ["a"]],
    2: [["", "a"], ["a", ""], ["a", "b"], ["b", "a"]],
    3: [["", "a", "b"], ["a", "", "b"], ["a", "b", ""], ["a", "b", "c"], ["c", "a", "b"]],
}
METHODS = ["std_intensity", "ambiguity", "risk", "interval_bounds"]

BASES = [
    {"mc": "sad", "win": 3, "subpix": 1, "agg": False, "post": [], "val": False, "mask": False},
    {"mc": "sad", "win": 3, "subpix": 1, "agg": True, "post": ["vfit"], "val": True, "mask": True},
    {"mc": "zncc", "win": 3, "subpix": 1, "agg": False, "post": ["median"], "val": False, "mask": False},
    {"mc": "sad", "win": 1, "subpix": 2, "agg": False, "post": [], "val": True, "mask": False},
    {"mc": "census", "win": 3, "subpix": 1, "agg": True, "post": ["vfit", "median"], "val": False, "mask": True},
    {"mc": "zncc", "win": 3, "subpix": 1, "agg": True, "post": [], "val": True, "mask": False},
    {"mc": "ssd", "win": 5, "subpix": 1, "agg": False, "post": ["median"], "val": True, "mask": True},
]


def _method_cfg(method, k):
    if method == "std_intensity":
        return {"confidence_method": "std_intensity"}
    if method == "ambiguity":
        return amb_cfg(ETAS[k % 3], (k // 3) % 2 == 0)
    if method == "risk":
        return risk_cfg(ETAS[(k + 1) % 3])
    return ib_cfg(THRS[k % 4])


def pipe_cases(tier, seed):
    cases = []
    idx = 0
    for length in (1, 2, 3):
        for seq in itertools.product(METHODS, repeat=length):
            for naming in SEQ_NAMINGS[length]:
                idx += 1
                k = idx + seed
                steps = [{"sfx": s, "cfg": _method_cfg(m, k + j)} for j, (m, s) in enumerate(zip(seq, naming))]
                variants = [steps]
                # regularised interval bounds need an ambiguity band before them: add that variant where possible
                for j, st in enumerate(steps):
                    if st["cfg"]["confidence_method"] != "interval_bounds":
                        continue
                    ambs = [i for i in range(j) if steps[i]["cfg"]["confidence_method"] == "ambiguity"]
                    if ambs:
                        reg = copy.deepcopy(steps)
                        reg[ambs[-1]]["cfg"]["normalization"] = True
                        reg[j]["cfg"].update({
                            "regularization": True, "ambiguity_indicator": steps[ambs[-1]]["sfx"],
                            "ambiguity_threshold": [0.6, 0.9, 0.3][k % 3], "ambiguity_kernel_size": [1, 3, 5][k % 3],
                            "vertical_depth": k % 3, "quantile_regularization": 1.0,
                        })
                        variants.append(reg)
                        break
                for vi, var in enumerate(variants):
                    if tier == "quick":
                        bases = [(k + vi) % len(BASES), (k + vi + 3) % len(BASES)]
                        imgs = [seed % 4]
                    else:
                        bases = list(range(len(BASES)))
                        imgs = [seed % 4, (seed + 1) % 4]
                    for b in bases:
                        for im in imgs:
                            base = dict(BASES[b])
                            splits = [0]
                            if base["agg"]:
                                splits = list(range(length + 1)) if tier == "thorough" else [(k + b) % (length + 1)]
                            for sp in splits:
                                cases.append({"kind": "pipe", "base": base, "split": sp, "steps": var, "img": im})
    return cases


def spaces(tier, seed):
    quick = tier == "quick"
    menu = value_menu()
    packed, reg = [], []
    layouts = ["sq", "row", "col", "wide"]
    alphas = ["a8", "a16", "a48"]
    for ai, alpha in enumerate(alphas):
        na = len(ALPHAS[alpha])
        for nd in (2, 3, 4):
            if quick and nd == 4 and alpha != "a8":
                continue
            nvec = na ** nd
            for t in ("min", "max"):
                for ci, cfg in enumerate(menu):
                    k = ai + nd + ci + seed
                    lays = layouts if not quick else [layouts[k % 4]]
                    for li, lay in enumerate(lays):
                        axes = ["int"]
                        if cfg["confidence_method"] == "interval_bounds":
                            axes = ["int", "half"] if not quick else [["int", "half"][(k + li) % 2]]
                        for axis in axes:
                            packed.append({
                                "kind": "packed", "alpha": alpha, "nd": nd, "type": t, "shape": _shapes(nvec, lay),
                                "stride": [7, 3, 11, 13][(k + li) % 4], "off": (seed * 17 + k * 5 + li) % nvec,
                                "pre": [0, 2][(k + li) % 2] if quick else [0, 2][li % 2],
                                "axis": axis, "sfx": ["", ".s1"][(k + li // 2) % 2], "step": cfg,
                            })
                # regularisation grid
                if nd == 4 and alpha != "a8":
                    continue
                grid = list(itertools.product([0.3, 0.6, 0.9, 1.0], [1, 3, 5], [0, 1, 2], [0.5, 0.9]))
                for gi, (ath, ker, depth, thr) in enumerate(grid):
                    k = ai + nd + gi + seed
                    if quick and (gi + ai + nd + seed) % 3 != 0:
                        continue
                    lays = ["sq", "wide"] if not quick else [["sq", "wide", "row"][k % 3]]
                    for li, lay in enumerate(lays):
                        reg.append({
                            "kind": "reg", "alpha": alpha, "nd": nd, "type": t, "shape": _shapes(nvec, lay),
                            "stride": [7, 3, 11, 13][(k + li) % 4], "off": (seed * 17 + k * 5 + li) % nvec,
                            "amb_sfx": ["", ".amb"][k % 2], "eta": ETAS[k % 3], "ath": ath, "ker": ker,
                            "depth": depth, "thr": thr, "axis": ["int", "half"][(k // 2) % 2],
                        })
    # tall volumes (more rows than any internal strip or block a step may cut the volume into): a statistic of the
    # whole volume (normalisation by its global extrema, percentiles) must not become one of a strip
    for t in ("min", "max"):
        for ci, cfg in enumerate(menu):
            if cfg["confidence_method"] not in ("risk", "ambiguity"):
                continue
            if quick and ci % 2 != seed % 2 and cfg["confidence_method"] == "ambiguity":
                continue
            packed.append({"kind": "packed", "alpha": "a16", "nd": 3, "type": t, "shape": [1100, 2],
                           "stride": 7, "off": (seed * 17 + ci) % 125, "pre": 0, "axis": "int", "sfx": "",
                           "step": cfg, "spike": True})
    # small volumes
    small = []
    for alpha in (["a8", "a16"] if quick else alphas):
        na = len(ALPHAS[alpha])
        for nd in ([2] if quick or alpha != "a8" else [2, 3]):
            if quick and alpha != "a8":
                continue  # quick: two-pixel volumes over {NaN,0,2,4,8} only
            shapes = [[1, 2], [2, 1]]
            alpha2, na2 = alpha, na
            if nd == 3:
                alpha2, na2 = "a8s", len(ALPHAS["a8s"])  # 3 disparities: {NaN,0,2,8} (4^6 volumes per type)
            total = na2 ** (2 * nd)
            block = 25 if nd == 2 else 125
            for t in ("min", "max"):
                for si, shape in enumerate(shapes):
                    if (quick or nd == 3) and (si + seed + (t == "max")) % 2:
                        continue
                    for lo in range(0, total, block):
                        small.append({"kind": "small", "alpha": alpha2, "nd": nd, "type": t, "shape": shape,
                                      "lo": lo, "hi": min(total, lo + block),
                                      "lean": 1 + seed % 3 if (quick or nd == 3) else 0})
        # single-pixel volumes (the volume's range is the pixel's range)
        for nd in (2, 3):
            for t in ("min", "max"):
                for lo in range(0, na ** nd, 25):
                    small.append({"kind": "small", "alpha": alpha, "nd": nd, "type": t, "shape": [1, 1],
                                  "lo": lo, "hi": min(na ** nd, lo + 25), "lean": 1 + seed % 3 if quick else 0})
    # std_intensity
    std = []
    for (ny, nx, win, nsym) in ([(3, 3, 3, 2), (1, 2, 1, 3)] if quick else
                                [(3, 3, 3, 2), (3, 4, 3, 2), (1, 2, 1, 3), (2, 2, 1, 3), (5, 5, 5, 1)]):
        if nsym == 1:
            continue
        total = nsym ** (ny * nx)
        for lo in range(0, total, 64):
            std.append({"kind": "stdsym", "ny": ny, "nx": nx, "win": win, "symbols": [[0, 7], [0, 1, 200]][nsym - 2],
                        "lo": lo, "hi": min(total, lo + 64), "sfx": ["", ".w"][(lo // 64) % 2]})
    for win in (1, 3, 5):
        for (ny, nx) in ([(5, 5), (6, 9)] if quick else [(5, 5), (5, 6), (6, 9), (7, 5), (11, 12)]):
            for variant in range(2 if quick else 4):
                for hi in (15, 255, 4095):
                    std.append({"kind": "stdgen", "ny": ny, "nx": nx, "win": win, "variant": variant, "seed": seed,
                                "hi": hi, "pre": variant % 2 * 2, "sfx": ["", ".w"][variant % 2]})
    return [
        {"name": "packed per-pixel vectors x step parameters", "level": 0, "cases": packed, "chunk": 4},
        {"name": "std_intensity on few-symbol and generic images", "level": 0, "cases": std, "chunk": 8},
        {"name": "interval regularisation grid on packed volumes", "level": 1, "cases": reg, "chunk": 4},
        {"name": "pipelines with <= 3 confidence steps vs the same pipeline without", "level": 1,
         "cases": pipe_cases(tier, seed), "chunk": 4},
        {"name": "all two-pixel and one-pixel volumes x step parameters", "level": 2, "cases": small, "chunk": 1},
    ]


# ----------------------------------------------------------------------------------------------
# helpers
# ----------------------------------------------------------------------------------------------
def _alpha_values(alpha):
    return [np.nan if v is None else float(v) for v in ALPHAS[alpha]]


def _vectors(alpha, n):
    return np.array(list(itertools.product(_alpha_values(alpha), repeat=n)), dtype=np.float32)


def packed_costs(case):
    vecs = _vectors(case["alpha"], case["nd"])
    rows, cols = case["shape"]
    k = np.arange(rows * cols)
    idx = (k * case["stride"] + case["off"]) % len(vecs)
    return vecs[idx].reshape(rows, cols, case["nd"])


def _axis(nd, axis):
    return np.arange(-1, nd - 1) if axis == "int" else (-1 + 0.5 * np.arange(nd)).astype(np.float32)


def _pre_bands(ny, nx, npre):
    if not npre:
        return None, None
    conf = (np.arange(ny * nx * npre, dtype=np.float32).reshape(ny, nx, npre) % 251) / 4
    conf[0, 0, 0] = np.nan
    return conf, ["confidence_from_a", "optimization_plugin_x.b"][:npre]


def make_cv(costs, disps, t, npre=0, window=1):
    ny, nx, _ = costs.shape
    allnan = np.isnan(costs).all(axis=2)
    rr, cc = np.meshgrid(np.arange(ny), np.arange(nx), indexing="ij")
    validity = np.where(allnan, 1, ((rr * 3 + cc) % 2) * 4).astype(np.uint16)
    conf, ind = _pre_bands(ny, nx, npre)
    step = float(disps[1] - disps[0]) if len(disps) > 1 else 1.0
    return D.cost_volume(costs, disps, type_measure=t, validity=validity, confidence=conf, indicators=ind,
                         subpix=1 if step == 1 else 2, window_size=window, origin=(ny % 3, nx % 5))


def apply_step(cv, cfg, sfx, img_left=None):
    """the call the state machine makes: indicator = '.suffix' or '', fresh instance, empty disparity dataset"""
    import xarray as xr  # pylint: disable=import-outside-toplevel
    from pandora import cost_volume_confidence as cvc  # pylint: disable=import-outside-toplevel

    before = cv.copy(deep=True)
    full = copy.deepcopy(cfg)
    full["indicator"] = sfx
    try:
        conf = cvc.AbstractCostVolumeConfidence(**full)
        disp_out, cv_out = conf.confidence_prediction(xr.Dataset(), img_left, None, cv)
    except Exception as e:  # pylint: disable=broad-except
        return before, None, None, e
    return before, cv_out, disp_out, None


class V:
    """violation collector"""

    def __init__(self):
        self.items = []

    def bad(self, clause, cls, detail):
        key = f"C12/{clause}/{cls}"
        if not any(v["key"] == key for v in self.items):
            self.items.append({"clause": clause, "key": key, "detail": detail})


def bands_of(ds):
    if ds is None or "confidence_measure" not in ds:
        return [], None
    return [str(x) for x in ds.coords["indicator"].data], ds["confidence_measure"].data


def check_bookkeeping(viol, site, before, after, names, method):
    """cost volume, flags, coordinates, attributes and earlier bands untouched; new bands appended under their names"""
    full, site = site, site.split("/")[0].split(" ")[0]
    if not D.arr_eq(before["cost_volume"].data, after["cost_volume"].data):
        viol.bad("cost-volume-unchanged", f"{site}/{method}", f"{full}: cost volume values changed by the confidence step")
    if "validity_mask" in before and ("validity_mask" not in after or not D.arr_eq(
            before["validity_mask"].data, after["validity_mask"].data)):
        viol.bad("flags-unchanged", f"{site}/{method}", f"{full}: validity mask of the cost volume changed by the confidence step")
    for c in ("row", "col", "disp"):
        if not np.array_equal(before.coords[c].data, after.coords[c].data):
            viol.bad("cost-volume-unchanged", f"{site}/{method}/coords", f"coordinate {c} changed")
    d = D.same_attrs(dict(before.attrs), dict(after.attrs))
    if d:
        viol.bad("cost-volume-unchanged", f"{site}/{method}/attrs", f"cost volume attributes changed: {d}")
    old_names, old = bands_of(before)
    new_names, new = bands_of(after)
    if new is None:
        viol.bad("band-names", f"{site}/{method}", f"{full}: no confidence_measure after the step (expected {names})")
        return {}
    if new.dtype != np.float32:
        viol.bad("band-names", f"{site}/{method}/dtype", f"confidence_measure dtype {new.dtype}")
    if new_names != old_names + names:
        viol.bad("band-names", f"{site}/{method}",
                 f"{full}: indicators after the step {new_names}, expected {old_names} + {names}")
        if len(new_names) != len(old_names) + len(names):
            return {}
    if old is not None and not D.arr_eq(old, new[:, :, : len(old_names)]):
        viol.bad("existing-bands", f"{site}/{method}", f"{full}: bands {old_names} altered by the step")
    return {n: new[:, :, len(old_names) + i] for i, n in enumerate(names)}


def _pix(costs, r, c):
    return "costs=" + str(np.asarray(costs[r, c]).tolist())


# ----------------------------------------------------------------------------------------------
# value oracles
# ----------------------------------------------------------------------------------------------
def _max_reading_class(checker, t, *args, **kwargs):
    """
    For a max-type measure whose value clause failed: does the observation match the documented definition
    evaluated with the MINIMUM as the pixel's best (the recorded finding A9)?  Anything else gets its own key,
    so the known finding does not hide a different failure on similarity measures.
    """
    if t != "max":
        return ""
    probe = V()
    checker(probe, *args, **kwargs)
    return "" if not probe.items else "/not even with the minimum taken as best"


def check_ambiguity(viol, site, costs, t, cfg, band, raw_counts=None):
    inner = V()
    _check_ambiguity(inner, site, costs, t, cfg, band, raw_counts)
    for it in inner.items:
        sfx = ""
        if it["clause"] == "ambiguity-definition":
            sfx = _max_reading_class(lambda pv: _check_ambiguity(pv, site, costs, "min", cfg, band, raw_counts), t)
        viol.bad(it["clause"], it["key"].split("/", 2)[2] + sfx, it["detail"])


def check_risk(viol, site, costs, t, cfg, rmax, rmin, values=True):
    inner = V()
    _check_risk(inner, site, costs, t, cfg, rmax, rmin, values)
    for it in inner.items:
        sfx = ""
        if it["clause"] == "risk-definition":
            sfx = _max_reading_class(lambda pv: _check_risk(pv, site, costs, "min", cfg, rmax, rmin, values), t)
        viol.bad(it["clause"], it["key"].split("/", 2)[2] + sfx, it["detail"])


def _check_ambiguity(viol, site, costs, t, cfg, band, raw_counts=None):
    em, es, norm = cfg["eta_max"], cfg["eta_step"], cfg["normalization"]
    readings = []
    allnan = np.isnan(costs).all(axis=2)
    for nan_in in (True, False):
        for gi, (lo, hi) in enumerate(R.ambiguity_counts(costs, t, em, es, nan_in)):
            # a pixel without any cost has no best: any count between "none" and "all" is accepted
            lo = np.where(allnan, 0, lo)
            hi = np.where(allnan, costs.shape[2] * (len(R.eta_grid(em, es)[0]) + 1), hi)
            readings.append((f"NaN {'counted' if nan_in else 'not counted'}, eta grid #{gi}", lo, hi))
    band = band.astype(np.float64)
    if not norm:
        count = 1.0 - band
        best = None
        for name, lo, hi in readings:
            ok = (count >= lo) & (count <= hi)
            if ok.all():
                return
            if best is None or ok.sum() > best[0]:
                best = (ok.sum(), name, lo, hi, ok)
        _, name, lo, hi, ok = best
        r, c = np.argwhere(~ok)[0]
        viol.bad("ambiguity-definition", f"type_measure=={t}",
                 f"{site}: {cfg} pixel ({r},{c}) {_pix(costs, r, c)} type={t}: sum over eta of #(within eta of the "
                 f"best) expected in [{lo[r, c]},{hi[r, c]}] ({name}), observed 1-band = {count[r, c]} "
                 f"({int((~ok).sum())} of {ok.size} pixels differ)")
        return
    if not np.isfinite(band).all():
        cls = "other"
        if raw_counts is None:
            raw_counts = _raw_counts(costs, np.arange(costs.shape[2]), t, cfg)
        if raw_counts is not None:
            p1, p99 = np.percentile(raw_counts, 1), np.percentile(raw_counts, 99)
            cl = np.clip(raw_counts, p1, p99)
            cls = "constant clipped count" if cl.max() == cl.min() else "non-constant count"
        r, c = np.argwhere(~np.isfinite(band))[0]
        viol.bad("ambiguity-normalised-finite", cls,
                 f"{site}: {cfg} volume shape {costs.shape} pixel ({r},{c}) {_pix(costs, r, c)}: normalised ambiguity "
                 f"confidence is {band[r, c]} (statement: finite values in [0,1] when normalised); "
                 f"un-normalised counts of the volume: {None if raw_counts is None else np.unique(raw_counts).tolist()[:8]}")
        return
    if (band < 0).any() or (band > 1).any():
        r, c = np.argwhere((band < 0) | (band > 1))[0]
        viol.bad("ambiguity-normalised-range", f"type_measure=={t}",
                 f"{site}: {cfg} pixel ({r},{c}) normalised ambiguity confidence {band[r, c]} outside [0,1]")
        return
    flat = band.reshape(-1)
    best = None
    for name, lo, hi in readings:
        lo_f, hi_f = lo.reshape(-1), hi.reshape(-1)
        wrong = (hi_f[:, None] < lo_f[None, :]) & (flat[:, None] < flat[None, :])
        if not wrong.any():
            return
        if best is None or wrong.sum() < best[0]:
            best = (wrong.sum(), name, lo, hi, wrong)
    _, name, lo, hi, wrong = best
    i, j = np.argwhere(wrong)[0]
    nx = costs.shape[1]
    viol.bad("ambiguity-definition", f"type_measure=={t}",
             f"{site}: {cfg} normalised confidence must decrease with the count: pixel {divmod(int(i), nx)} "
             f"{_pix(costs, *divmod(int(i), nx))} count<= {hi.reshape(-1)[i]} has confidence {flat[i]} < {flat[j]} of "
             f"pixel {divmod(int(j), nx)} {_pix(costs, *divmod(int(j), nx))} count>= {lo.reshape(-1)[j]} ({name}, type={t})")


def _check_risk(viol, site, costs, t, cfg, rmax, rmin, values=True):
    rmax = rmax.astype(np.float64)
    rmin = rmin.astype(np.float64)
    allnan = np.isnan(costs).all(axis=2)
    nan_both = np.isnan(rmax) & np.isnan(rmin)
    with np.errstate(invalid="ignore"):
        ordered = (rmin >= -1e-6) & (rmin <= rmax + 1e-6)
    ok = ordered | (allnan & nan_both)
    if not ok.all():
        r, c = np.argwhere(~ok)[0]
        viol.bad("risk-order", f"type_measure=={t}",
                 f"{site}: {cfg} pixel ({r},{c}) {_pix(costs, r, c)} risk_min={rmin[r, c]} risk_max={rmax[r, c]} "
                 f"(statement: 0 <= risk_min <= risk_max)")
    if not values:
        return
    best = None
    for nan_in in (True, False):
        for gi, ref in enumerate(R.risk_ranges(costs, t, cfg["eta_max"], cfg["eta_step"], nan_in)):
            free = np.isnan(ref["max_lo"])
            tol_max = FTOL * (1 + np.abs(np.nan_to_num(ref["max_hi"])))
            tol_min = FTOL * (1 + np.abs(np.nan_to_num(ref["min_hi"])))
            with np.errstate(invalid="ignore"):
                ok_max = free | ((rmax >= ref["max_lo"] - tol_max) & (rmax <= ref["max_hi"] + tol_max))
                ok_min = free | ((rmin >= ref["min_lo"] - tol_min) & (rmin <= ref["min_hi"] + tol_min))
            ok = ok_max & ok_min
            if ok.all():
                return
            if best is None or ok.sum() > best[0]:
                best = (ok.sum(), f"NaN {'counted' if nan_in else 'not counted'}, eta grid #{gi}", ref, ok)
    _, name, ref, ok = best
    r, c = np.argwhere(~ok)[0]
    viol.bad("risk-definition", f"type_measure=={t}",
             f"{site}: {cfg} pixel ({r},{c}) {_pix(costs, r, c)} type={t}: expected risk_max in "
             f"[{ref['max_lo'][r, c]:.6g},{ref['max_hi'][r, c]:.6g}] risk_min in [{ref['min_lo'][r, c]:.6g},"
             f"{ref['min_hi'][r, c]:.6g}] ({name}); observed risk_max={rmax[r, c]:.6g} risk_min={rmin[r, c]:.6g} "
             f"({int((~ok).sum())} of {ok.size} pixels differ)")


def _dyadic_range(costs):
    f = costs[np.isfinite(costs)]
    rng = float(f.max() - f.min())
    return rng > 0 and math.log2(rng) == int(math.log2(rng)) and bool((f == np.round(f)).all())


def check_interval(viol, site, costs, disps, t, cfg, inf, sup, exact):
    thr = cfg["possibility_threshold"]
    tol = 0.0 if exact else 1e-6
    ilo, ihi, slo, shi = R.interval_bounds(costs, disps, t, thr, tol)
    inf = inf.astype(np.float64)
    sup = sup.astype(np.float64)
    free = np.isnan(ilo)
    with np.errstate(invalid="ignore"):
        ok = free | ((inf >= ilo) & (inf <= ihi) & (sup >= slo) & (sup <= shi))
    if not ok.all():
        r, c = np.argwhere(~ok)[0]
        viol.bad("interval-definition", f"type_measure=={t}",
                 f"{site}: {cfg} pixel ({r},{c}) {_pix(costs, r, c)} disparities={np.asarray(disps).tolist()} type={t}: "
                 f"expected inf in [{ilo[r, c]},{ihi[r, c]}] sup in [{slo[r, c]},{shi[r, c]}], observed "
                 f"[{inf[r, c]},{sup[r, c]}] ({int((~ok).sum())} of {ok.size} pixels differ)")


def check_bracket(viol, site, disp_map, valid, inf, sup, t, what=""):
    d = np.asarray(disp_map, dtype=np.float64)
    with np.errstate(invalid="ignore"):
        ok = ~valid | ((inf <= d) & (d <= sup))
    if not ok.all():
        r, c = np.argwhere(~ok)[0]
        viol.bad("interval-brackets-wta", f"type_measure=={t}{what}",
                 f"{site}: valid pixel ({r},{c}) winner-takes-all disparity {d[r, c]} outside [{inf[r, c]},{sup[r, c]}]")


def check_std(viol, site, im, win, band):
    ref = R.window_std(im, win)
    got = band.astype(np.float64)
    scale = max(1.0, float(np.abs(im).max()))
    with np.errstate(invalid="ignore"):
        ok = (np.isnan(ref) & np.isnan(got)) | (np.abs(got - ref) <= 1e-5 * scale)
    if not ok.all():
        r, c = np.argwhere(~ok)[0]
        viol.bad("std-definition", f"window=={'1' if win == 1 else 'n'}",
                 f"{site}: window {win} image {np.asarray(im).tolist()} pixel ({r},{c}): expected standard deviation "
                 f"{ref[r, c]}, observed {got[r, c]}")


def check_values(viol, site, costs, disps, t, cfg, new, sfx, img_left=None, window=None, unit_axis=True,
                 exact=False, raw_counts=None):
    m = cfg["confidence_method"]
    names = names_of(cfg, sfx)
    if any(n not in new for n in names):
        return
    if m == "ambiguity":
        check_ambiguity(viol, site, costs, t, cfg, new[names[0]], raw_counts)
    elif m == "risk":
        check_risk(viol, site, costs, t, cfg, new[names[0]], new[names[1]], values=unit_axis)
    elif m == "interval_bounds":
        if not cfg.get("regularization"):
            check_interval(viol, site, costs, disps, t, cfg, new[names[0]], new[names[1]], exact)
    elif m == "std_intensity" and img_left is not None:
        check_std(viol, site, img_left, window, new[names[0]])


def _raw_counts(costs, disps, t, cfg):
    """Pandora's own un-normalised integral, used only to *classify* a non-finite normalised band"""
    c2 = dict(cfg, normalization=False)
    cv = make_cv(costs, disps, t)
    _, out, _, err = apply_step(cv, c2, "")
    if err is not None or out is None:
        return None
    return 1.0 - out["confidence_measure"].data[:, :, -1].astype(np.float64)


def _digest(*arrays):
    h = hashlib.sha1()
    for a in arrays:
        a = np.ascontiguousarray(np.nan_to_num(np.asarray(a, dtype=np.float64), nan=-7777.0))
        h.update(a.tobytes())
    return h.hexdigest()[:12]


def _wta(cv):
    from pandora import disparity  # pylint: disable=import-outside-toplevel

    w = disparity.AbstractDisparity(**{"disparity_method": "wta", "invalid_disparity": -9999})
    return w.to_disp(cv)


# ----------------------------------------------------------------------------------------------
# step-level cases
# ----------------------------------------------------------------------------------------------
def step_on_volume(viol, site, costs, disps, t, cfg, sfx, npre, exact):
    """one confidence step on one synthetic volume, all clauses; returns (number of Pandora calls, digest)"""
    cv = make_cv(costs, disps, t, npre)
    before, cv_out, disp_out, err = apply_step(cv, cfg, sfx)
    m = cfg["confidence_method"]
    if err is not None:
        viol.bad("step-raises", f"{site}/{m}/{type(err).__name__}", f"{site}: {cfg} on volume shape {costs.shape} "
                 f"raised {type(err).__name__}: {err}")
        return 1, "raise"
    names = names_of(cfg, sfx)
    new = check_bookkeeping(viol, site, before, cv_out, names, m)
    dn, dv = bands_of(disp_out)
    cn, cvv = bands_of(cv_out)
    if dn != cn or dv is None or not D.arr_eq(dv, cvv):
        viol.bad("band-names", f"{site}/{m}/disparity dataset", f"bands handed to the disparity dataset {dn} differ "
                 f"from the cost volume's {cn}")
    raw = None
    step = float(disps[1] - disps[0]) if len(disps) > 1 else 1.0
    check_values(viol, site, costs, disps, t, cfg, new, sfx, unit_axis=(step == 1.0), exact=exact, raw_counts=raw)
    calls = 1
    if m == "interval_bounds" and len(new) == 2:
        frozen = cv_out.copy(deep=True)
        out = _wta(cv_out)
        calls += 1
        valid = ~np.isnan(costs).all(axis=2)
        check_bracket(viol, site, out["disparity_map"].data, valid, new[names[0]].astype(np.float64),
                      new[names[1]].astype(np.float64), t)
        on, ov = bands_of(out)
        if on != cn or not D.arr_eq(ov, cvv):
            viol.bad("band-names", f"{site}/{m}/after wta", f"bands of the disparity map {on} differ from {cn}")
        if not D.arr_eq(frozen["cost_volume"].data, cv_out["cost_volume"].data):
            viol.bad("cost-volume-unchanged", f"{site}/wta", "cost volume changed by the disparity step")
    return calls, _digest(*[new[n] for n in names if n in new])


def run_packed(case):
    costs = packed_costs(case)
    if case.get("spike"):
        # the extrema of the whole volume sit on its first two pixels only (every other pixel holds costs strictly
        # inside them): a part of the volume processed on its own has other extrema
        costs[0, 0, :] = np.float32(64.0)
        costs[0, 0, 0] = np.float32(-32.0)
    disps = _axis(case["nd"], case["axis"])
    viol = V()
    calls, dig = step_on_volume(viol, "step", costs, disps, case["type"], case["step"], case["sfx"], case["pre"],
                                exact=True)
    sig = f"packed|{case['alpha']}|{case['nd']}|{case['type']}|{case['axis']}|{json.dumps(case['step'], sort_keys=True)}|{dig}"
    return {"n": calls, "sigs": [sig], "viol": viol.items[:6]}


def run_small(case):
    nd, t = case["nd"], case["type"]
    rows, cols = case["shape"]
    npix = rows * cols
    vals = _alpha_values(case["alpha"])
    na = len(vals)
    menu = value_menu()
    viol = V()
    n = trivial = 0
    sigs = []
    disps = _axis(nd, "int")
    for code in range(case["lo"], case["hi"]):
        digits = [(code // na ** i) % na for i in range(npix * nd)]
        costs = np.array([vals[d] for d in digits], dtype=np.float32).reshape(rows, cols, nd)
        fin = costs[np.isfinite(costs)]
        if len(np.unique(fin)) < 2:
            n += 1
            trivial += 1
            continue
        exact = _dyadic_range(costs)
        for ci, cfg in enumerate(menu):
            if case.get("lean") and cfg["confidence_method"] != "interval_bounds" and \
                    (cfg["eta_max"], cfg["eta_step"]) != ETAS[(code + case["lean"]) % 3]:
                continue  # quick tier / 3 disparities: one eta grid per volume (rotating), every threshold
            calls, dig = step_on_volume(viol, "step", costs, disps, t, cfg, ["", ".s1"][(code + ci) % 2],
                                        [0, 2][(code // 3 + ci) % 2], exact)
            n += calls
            sigs.append(f"small|{case['alpha']}|{code}|{case['shape']}|{t}|{ci}|{dig}")
    return {"n": n, "sigs": sigs, "viol": viol.items[:8], "trivial": trivial}


def run_reg(case):
    costs = packed_costs(case)
    nd, t = case["nd"], case["type"]
    disps = _axis(nd, case["axis"])
    viol = V()
    amb = amb_cfg(case["eta"], True)
    cv = make_cv(costs, disps, t)
    _, cv1, _, err = apply_step(cv, amb, case["amb_sfx"])
    if err is not None:
        viol.bad("step-raises", f"step/ambiguity/{type(err).__name__}", f"{amb} raised {err!r}")
        return {"n": 1, "sigs": [], "viol": viol.items}
    plain = ib_cfg(case["thr"])
    regc = dict(plain, regularization=True, ambiguity_indicator=case["amb_sfx"].lstrip("."),
                ambiguity_threshold=case["ath"], ambiguity_kernel_size=case["ker"], vertical_depth=case["depth"],
                quantile_regularization=1.0)
    res = {}
    for tag, cfg, sfx in (("plain", plain, ".p"), ("reg", regc, ".r")):
        before, out, _, err = apply_step(cv1.copy(deep=True), cfg, sfx)
        if err is not None:
            viol.bad("step-raises", f"step/interval_bounds/{type(err).__name__}",
                     f"{cfg} after {amb} (suffix {case['amb_sfx']!r}) raised {type(err).__name__}: {err}")
            return {"n": 3, "sigs": [], "viol": viol.items}
        names = names_of(cfg, sfx)
        new = check_bookkeeping(viol, "step", before, out, names, "interval_bounds" + ("+reg" if tag == "reg" else ""))
        if len(new) != 2:
            return {"n": 3, "sigs": [], "viol": viol.items}
        res[tag] = (new[names[0]].astype(np.float64), new[names[1]].astype(np.float64), out)
    pinf, psup, _ = res["plain"]
    rinf, rsup, rout = res["reg"]
    check_interval(viol, "step", costs, disps, t, plain, pinf, psup, True)
    fin = np.isfinite(pinf) & np.isfinite(psup)
    with np.errstate(invalid="ignore"):
        ok = ~fin | ((rinf <= pinf) & (rsup >= psup))
    if not ok.all():
        r, c = np.argwhere(~ok)[0]
        viol.bad("regularisation-widens", f"type_measure=={t}",
                 f"step: {regc} pixel ({r},{c}) {_pix(costs, r, c)}: unregularised [{pinf[r, c]},{psup[r, c]}] "
                 f"regularised (quantile 1) [{rinf[r, c]},{rsup[r, c]}]")
    out = _wta(rout)
    valid = ~np.isnan(costs).all(axis=2)
    check_bracket(viol, "step", out["disparity_map"].data, valid, rinf, rsup, t, "/regularised")
    changed = not (D.arr_eq(pinf, rinf) and D.arr_eq(psup, rsup))
    sig = (f"reg|{case['alpha']}|{nd}|{t}|{case['ath']}|{case['ker']}|{case['depth']}|{case['thr']}|"
           f"{_digest(rinf, rsup)}")
    return {"n": 4, "sigs": [sig] if changed else [], "viol": viol.items[:6], "trivial": 0 if changed else 1}


def _std_one(viol, im, win, sfx, npre):
    ny, nx = im.shape
    img = D.image(im)
    costs = np.zeros((ny, nx, 2), dtype=np.float32)
    costs[..., 1] = 1
    cv = make_cv(costs, np.arange(2), "min", npre, window=win)
    cfg = {"confidence_method": "std_intensity"}
    keep = img.copy(deep=True)
    before, out, _, err = apply_step(cv, cfg, sfx, img_left=img)
    if err is not None:
        viol.bad("step-raises", f"step/std_intensity/{type(err).__name__}",
                 f"std_intensity window {win} image shape {im.shape} raised {type(err).__name__}: {err}")
        return "raise"
    names = names_of(cfg, sfx)
    new = check_bookkeeping(viol, "step", before, out, names, "std_intensity")
    if D.same_dataset(keep, img):
        viol.bad("image-unchanged", "step/std_intensity", f"left image modified: {D.same_dataset(keep, img)}")
    if names[0] in new:
        check_std(viol, "step", im, win, new[names[0]])
        return _digest(new[names[0]])
    return "none"


def run_std(case):
    viol = V()
    sigs = []
    n = 0
    if case["kind"] == "stdsym":
        syms = case["symbols"]
        ny, nx = case["ny"], case["nx"]
        for code in range(case["lo"], case["hi"]):
            digits = [(code // len(syms) ** i) % len(syms) for i in range(ny * nx)]
            im = np.array([syms[d] for d in digits], dtype=np.float32).reshape(ny, nx)
            dig = _std_one(viol, im, case["win"], case["sfx"], code % 2 * 2)
            n += 1
            sigs.append(f"std|{ny}x{nx}|{case['win']}|{dig}")
    else:
        im = D.generic_image(case["ny"], case["nx"], case["variant"], case["seed"], 0, case["hi"])
        dig = _std_one(viol, im, case["win"], case["sfx"], case["pre"])
        n = 1
        sigs.append(f"std|{case['ny']}x{case['nx']}|{case['win']}|{case['hi']}|{dig}")
    return {"n": n, "sigs": sigs, "viol": viol.items[:6]}


# ----------------------------------------------------------------------------------------------
# pipelines
# ----------------------------------------------------------------------------------------------
_BASELINES = {}


def _images(base, img_seed):
    ny, nx = (9, 12) if base["win"] == 5 else ((8, 10) if base["mask"] else (6, 8))
    left, right = D.stereo_pair(ny, nx, shift=1, seed=img_seed)
    ml = mr = None
    if base["mask"]:
        ml = np.zeros((ny, nx), dtype=np.int16)
        mr = np.zeros((ny, nx), dtype=np.int16)
        ml[2, 3] = 1
        ml[ny - 2, nx - 3] = 2
        mr[3, 2] = 1
        mr[1, nx - 2] = 2
    disp = (-2, 2)
    return (D.image(left, disp=disp, msk=ml), D.image(right, disp=None, msk=mr)), left


def _pipeline(base, steps, split):
    from mc.drivers import pipeline as P  # pylint: disable=import-outside-toplevel

    pipe = {"matching_cost": P.mc(base["mc"], base["win"], base["subpix"])}
    conf_names = []

    def add(st):
        name = "cost_volume_confidence" + ("." + st["sfx"] if st["sfx"] else "")
        pipe[name] = copy.deepcopy(st["cfg"])
        conf_names.append(name)

    for st in steps[:split]:
        add(st)
    if base["agg"]:
        pipe["aggregation"] = dict(P.CBCA)
    for st in steps[split:]:
        add(st)
    pipe["disparity"] = dict(P.WTA)
    for p in base["post"]:
        if p == "vfit":
            pipe["refinement"] = dict(P.VFIT)
        elif p == "median":
            pipe["filter"] = dict(P.MEDIAN)
    if base["val"]:
        pipe["validation"] = dict(P.CROSS)
    return pipe, conf_names


def _run(base, steps, split, img_seed):
    from mc.drivers import pipeline as P  # pylint: disable=import-outside-toplevel

    (left, right), left_im = _images(base, img_seed)
    pipe, conf_names = _pipeline(base, steps, split)
    obs = P.run_observed(left, right, pipe, snapshot=("cv", "disp"))
    return obs, conf_names, left_im, pipe


def _baseline(base, img_seed):
    key = json.dumps([base, img_seed], sort_keys=True)
    if key not in _BASELINES:
        obs, _, _, pipe = _run(base, [], 0, img_seed)
        if obs.error is not None:
            raise RuntimeError(f"baseline pipeline {pipe} failed: {obs.error!r}")
        _BASELINES[key] = obs
    return _BASELINES[key]


def _has_cv(ds):
    return ds is not None and "cost_volume" in getattr(ds, "data_vars", {})


def run_pipe(case):
    base, steps, split = case["base"], case["steps"], case["split"]
    viol = V()
    ref = _baseline(base, case["img"])
    obs, conf_names, left_im, pipe = _run(base, steps, split, case["img"])
    desc = " > ".join(f"{k}[{v.get('confidence_method', '')}]" if k.startswith("cost_volume_confidence") else k
                      for k, v in pipe.items())
    if obs.error is not None:
        stage, err = obs.error
        viol.bad("step-raises", f"pipeline/{stage}/{type(err).__name__}",
                 f"pipeline {desc} raised at {stage}: {type(err).__name__}: {err}; configuration {pipe}")
        return {"n": 1, "sigs": [], "viol": viol.items}
    by_name = {st_name: st for st_name, st in zip(
        ["cost_volume_confidence" + ("." + s["sfx"] if s["sfx"] else "") for s in steps], steps)}
    sides = ["left"] + (["right"] if base["val"] else [])
    prev = None
    conf_so_far = []
    fresh = []
    digs = []
    for rec in obs.steps:
        name = rec["step"]
        if name in by_name:
            st = by_name[name]
            cfg = st["cfg"]
            sfx = "." + st["sfx"] if st["sfx"] else ""
            m = cfg["confidence_method"]
            names = names_of(cfg, sfx)
            for side in sides:
                before, after = prev[f"{side}_cv"], rec[f"{side}_cv"]
                site = "pipeline"
                if not _has_cv(before) or not _has_cv(after):
                    viol.bad("cost-volume-unchanged", f"{site}/{m}/missing", f"{desc}: no {side} cost volume around {name}")
                    continue
                new = check_bookkeeping(viol, f"pipeline/{side} {desc}", before, after, names, m)
                dn, dv = bands_of(rec[f"{side}_disp"])
                cn, cvv = bands_of(after)
                if dn != cn or dv is None or not D.arr_eq(dv, cvv):
                    viol.bad("band-names", f"{site}/{m}/disparity dataset",
                             f"{side} {desc}: bands of the pending disparity dataset {dn} != cost volume's {cn}")
                costs = after["cost_volume"].data
                disps = after.coords["disp"].data
                t = after.attrs["type_measure"]
                ddisp = float(disps[1] - disps[0])
                check_values(viol, f"pipeline/{side} {desc}", costs, disps, t, cfg, new, sfx,
                             img_left=left_im if side == "left" else None, window=base["win"],
                             unit_axis=(ddisp == 1.0), exact=False)
                digs.append(_digest(*new.values()))
            conf_so_far += names
            fresh += names
        else:
            if name.split(".")[0] != "disparity":
                fresh = []  # the cost volume may have changed: earlier intervals no longer describe it
            # differential: same step of the run without confidence steps
            other = [r for r in ref.steps if r["step"] == name]
            if len(other) != 1:
                raise RuntimeError(f"baseline has no unique step {name}")
            o = other[0]
            for side in sides:
                site = f"pipeline/{name.split('.')[0]}"
                desc_s = f"{side} product, {desc}"
                wcv, ocv = rec[f"{side}_cv"], o[f"{side}_cv"]
                if _has_cv(ocv):
                    if not _has_cv(wcv) or not D.arr_eq(wcv["cost_volume"].data, ocv["cost_volume"].data):
                        viol.bad("differential-cost-volume", site, f"{desc_s}: cost volume after {name} differs from the "
                                 f"run without confidence steps")
                    elif "validity_mask" in ocv and not D.arr_eq(wcv["validity_mask"].data, ocv["validity_mask"].data):
                        viol.bad("differential-flags", site + "/cv", f"{desc_s}: cost volume validity mask after {name} "
                                 f"differs from the run without confidence steps")
                wd, od = rec[f"{side}_disp"], o[f"{side}_disp"]
                if od is not None and "disparity_map" in od:
                    if wd is None or "disparity_map" not in wd or not D.arr_eq(
                            wd["disparity_map"].data, od["disparity_map"].data):
                        viol.bad("differential-disparity", site, f"{desc_s}: disparity map after {name} differs from "
                                 f"the run without confidence steps")
                    elif not D.arr_eq(wd["validity_mask"].data, od["validity_mask"].data):
                        viol.bad("differential-flags", site, f"{desc_s}: validity mask after {name} differs from the run "
                                 f"without confidence steps")
                    wn, wv = bands_of(wd)
                    on, ov = bands_of(od)
                    if wn != conf_so_far + on:
                        viol.bad("band-names", site, f"{desc_s}: bands after {name} are {wn}, expected "
                                 f"{conf_so_far} + {on}")
                    elif ov is not None and not D.arr_eq(wv[:, :, len(conf_so_far):], ov):
                        viol.bad("existing-bands", site, f"{desc_s}: bands {on} after {name} differ from the run without "
                                 f"confidence steps")
                    if name.split(".")[0] == "disparity":
                        # bands of the cost volume arrive unaltered in the disparity dataset; intervals bracket the WTA
                        cn, cvv = bands_of(wcv)
                        if wn != cn or (cvv is not None and not D.arr_eq(wv, cvv)):
                            viol.bad("band-names", site + "/carry", f"{desc_s}: disparity dataset bands {wn} != cost "
                                     f"volume bands {cn} (or values differ)")
                        valid = (wd["validity_mask"].data & INVALID_BITS) == 0
                        for i, bn in enumerate(wn):
                            # only bands computed on the volume the disparity step sees (none modified it since)
                            if bn.startswith("confidence_from_interval_bounds_inf") and bn in fresh:
                                sn = bn.replace("_inf", "_sup", 1)
                                if sn in wn:
                                    check_bracket(viol, f"{site} {desc_s}", wd["disparity_map"].data, valid,
                                                  wv[:, :, i].astype(np.float64),
                                                  wv[:, :, wn.index(sn)].astype(np.float64),
                                                  wcv.attrs["type_measure"], "/pipeline")
        prev = rec
    # final products
    for side, w, o in (("left", obs.left, ref.left), ("right", obs.right, ref.right)):
        if o is None or "disparity_map" not in o:
            continue
        if w is None or "disparity_map" not in w or not D.arr_eq(w["disparity_map"].data, o["disparity_map"].data):
            viol.bad("differential-disparity", "pipeline/final", f"{side} product, {desc}: final disparity map differs from the "
                     f"run without confidence steps")
        elif not D.arr_eq(w["validity_mask"].data, o["validity_mask"].data):
            viol.bad("differential-flags", "pipeline/final", f"{side} product, {desc}: final validity mask differs")
    sig = f"pipe|{desc}|{split}|{'/'.join(digs)}"
    return {"n": 2, "sigs": [sig], "viol": viol.items[:8]}


# ----------------------------------------------------------------------------------------------
def run_case(case):
    kind = case["kind"]
    if kind == "packed":
        return run_packed(case)
    if kind == "small":
        return run_small(case)
    if kind == "reg":
        return run_reg(case)
    if kind in ("stdsym", "stdgen"):
        return run_std(case)
    if kind == "pipe":
        return run_pipe(case)
    raise ValueError(kind)


def init_worker():
    run_case({"kind": "small", "alpha": "a8", "nd": 2, "type": "min", "shape": [1, 1], "lo": 7, "hi": 8})
    run_case({"kind": "stdgen", "ny": 3, "nx": 3, "win": 3, "variant": 0, "seed": 0, "hi": 15, "pre": 0, "sfx": ""})
    run_case({"kind": "pipe", "base": BASES[1], "split": 1, "img": 0,
              "steps": [{"sfx": "", "cfg": amb_cfg(ETAS[0], True)}, {"sfx": "a", "cfg": risk_cfg(ETAS[0])},
                        {"sfx": "b", "cfg": ib_cfg(0.9)}]})
