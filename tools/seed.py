#!/venv/bin/python
"""
tools/seed.py confirm <worktree> <k> <PID>   lead-side confirmation of a seeded change delivered in <worktree>/_seed/<k>:
        patch applies, demo fails with it, full test suite passes with it, demo passes without it;
        on success copies it to /verif/seeded/<PID>-<k>/ with the confirmation record in meta.json
tools/seed.py detect <PID>-<k> <CNN[,CNN..]> [budget]   runs quick checks against a scratch copy with the change applied
"""
import json
import os
import shutil
import subprocess
import sys
import time

PY = "/venv/bin/python"
SUITE = [PY, "-m", "pytest", "-q", "-p", "no:cacheprovider", "--timeout=900", "--deselect", "tests/test_notebooks.py",
         "--deselect", "tests/test_pandora.py::TestPandora::test_dataset_image"]


def sh(cmd, cwd, timeout=3600, env=None):
    r = subprocess.run(cmd, cwd=cwd, capture_output=True, text=True, timeout=timeout, env=env, check=False)
    return r.returncode, (r.stdout + r.stderr)


def confirm(wt, k, pid, dstname=None):
    sd = os.path.join(wt, "_seed", k)
    patch = os.path.join(sd, "patch.diff")
    rec = {"worktree": wt, "at": time.strftime("%Y-%m-%d %H:%M")}
    rc, out = sh(["git", "status", "--porcelain", "--untracked-files=no"], wt)
    if out.strip():
        sh(["git", "checkout", "--", "."], wt)
    rc, out = sh(["git", "apply", "--check", patch], wt)
    if rc:
        print("patch does not apply:", out)
        return 1
    env = dict(os.environ, PYTHONPATH=wt, NUMBA_CACHE_DIR=os.path.join(wt, "_nbcache"))
    rc0, out0 = sh([PY, os.path.join("_seed", k, "demo.py")], wt, env=env)
    rec["demo_on_original_exit"] = rc0
    sh(["git", "apply", patch], wt)
    try:
        rc1, out1 = sh([PY, os.path.join("_seed", k, "demo.py")], wt, env=env)
        rec["demo_with_change_exit"] = rc1
        rec["demo_with_change_tail"] = out1[-600:]
        rct, outt = sh(SUITE, wt, timeout=7200, env=env)
        rec["suite_exit"] = rct
        rec["suite_tail"] = outt.strip().splitlines()[-1] if outt.strip() else ""
    finally:
        sh(["git", "apply", "-R", patch], wt)
    ok = rc0 == 0 and rec["demo_with_change_exit"] != 0 and rec["suite_exit"] == 0 and "351 passed" in rec["suite_tail"]
    rec["confirmed"] = ok
    print(json.dumps(rec, indent=1))
    if ok:
        dst = os.path.join("/verif/seeded", dstname or f"{pid}-{k}")
        os.makedirs(dst, exist_ok=True)
        shutil.copy(patch, dst)
        shutil.copy(os.path.join(sd, "demo.py"), dst)
        meta = {}
        try:
            meta = json.load(open(os.path.join(sd, "meta.json")))
        except Exception:  # pylint: disable=broad-except
            pass
        meta["property"] = pid
        meta["lead_confirmation"] = {kk: rec[kk] for kk in ("at", "demo_on_original_exit", "demo_with_change_exit",
                                                            "suite_exit", "suite_tail")}
        meta["lead_confirmation"]["what_was_run"] = (
            "git apply patch.diff in a scratch worktree outside /repo; demo.py (expected non-zero); full pytest suite "
            "(351 passed); git apply -R; demo.py (expected 0)")
        json.dump(meta, open(os.path.join(dst, "meta.json"), "w"), indent=1)
    return 0 if ok else 1


def detect(name, checks, budget="240"):
    src = os.path.join("/verif/seeded", name, "patch.diff")
    scratch = f"/tmp/seeddet_{name}"
    shutil.rmtree(scratch, ignore_errors=True)
    os.makedirs(scratch)
    sh(["git", "-C", "/repo", "worktree", "add", "--detach", "-q", os.path.join(scratch, "repo"), "HEAD"], "/")
    root = os.path.join(scratch, "repo")
    res = {}
    try:
        rc, out = sh(["git", "apply", src], root)
        if rc:
            print("patch does not apply on current /repo HEAD:", out)
            return 1
        denv = dict(os.environ, PYTHONPATH=root, NUMBA_CACHE_DIR=os.path.join(scratch, "nbc"))
        shutil.copy(os.path.join("/verif/seeded", name, "demo.py"), os.path.join(root, "_demo.py"))
        os.makedirs(os.path.join(root, "_seed", "x"), exist_ok=True)
        shutil.copy(os.path.join("/verif/seeded", name, "demo.py"), os.path.join(root, "_seed", "x", "demo.py"))
        rcd, outd = sh([PY, os.path.join("_seed", "x", "demo.py")], root, env=denv)
        res["demo_on_current_head_with_change_exit"] = rcd
        print(f"== {name}: demo with the change on current /repo HEAD exits {rcd}")
        for c in checks.split(","):
            if not c:
                continue
            env = dict(os.environ, MC_REPO=root, MC_BUDGET=budget, MC_WORKERS=os.environ.get("MC_WORKERS", "8"))
            r = subprocess.run(["/verif/check", c, "--tier", "quick"], env=env, capture_output=True, text=True,
                               cwd="/verif", check=False)
            keys = [l.strip() for l in r.stdout.splitlines() if l.strip().startswith("clause=")]
            res[c] = {"exit": r.returncode, "keys": keys[:6]}
            print(f"== {name} vs {c}: exit={r.returncode}")
            for kline in keys[:4]:
                print("   ", kline[:230])
            if r.returncode == 2:
                print(r.stdout[-2000:], r.stderr[-1500:])
    finally:
        sh(["git", "-C", "/repo", "worktree", "remove", "--force", root], "/")
        shutil.rmtree(scratch, ignore_errors=True)
    mp = os.path.join("/verif/seeded", name, "meta.json")
    meta = json.load(open(mp))
    meta.setdefault("detection", {}).update(res)
    json.dump(meta, open(mp, "w"), indent=1)
    return 0


if __name__ == "__main__":
    if sys.argv[1] == "confirm":
        sys.exit(confirm(*sys.argv[2:6]))
    sys.exit(detect(*sys.argv[2:]))
