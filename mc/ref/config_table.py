"""
Oracle table for C05: per step kind / built-in method / parameter the documented default and a list of values
with their documented status.  Written from the statement of C05 and from
docs/source/userguide/step_by_step/*.rst (NOT from the json-checker schemas):

    "A"  inside the documented domain          -> the check must accept
    "R"  outside the documented domain / wrong type / unknown name -> the check must refuse (any exception)
    "?"  status left open by statement+docs     -> neither asserted (completion/idempotence/no-mutation are
                                                  still checked when the value happens to be accepted)

Open classes (never asserted): an int for a float parameter, a bool for an int parameter, an int for a bool
parameter, a float with integral value for an int parameter, eta = 1.0 and above (docs: ">0", code: "<1"),
subpix in {6, 8, ...} (docs: {1 2 4}, statement: "1 or even"), ambiguity_threshold exactly 0 or 1 (docs: open
interval), ambiguity_kernel_size 0 / even (docs: ">=0"), a negative cross-checking threshold, interpolated_disparity
"mc-cnn" vs "mc_cnn" (docs and registry spell it differently), the string "none" for a path.

`DEFAULTS[...]`: value = documented default that is asserted; PRESENT = documented optional parameters whose
presence in the completed configuration is asserted but whose value is not (docs table and docs prose / code
disagree: normalization, vertical_depth, quantile_regularization; or the parameter is not in the docs table).
"""
from __future__ import annotations

NAN = "NaN"  # case descriptors are JSON: the float nan is written {"$": "nan"} by the property module

WRONG_NUM = [("3", "R"), (None, "R"), ([3], "R")]  # wrong type for any numeric parameter


def _odd_positive(extra=()):
    return [(-1, "R"), (0, "R"), (1, "A"), (2, "R"), (3, "A"), (4, "R"), (5, "A"), (7, "A"), (3.5, "R"),
            (True, "?"), (3.0, "?")] + WRONG_NUM + list(extra)


def _pos_float(default):
    return [(-1.0, "R"), (0.0, "R"), (-0.0, "R"), (0.5, "A"), (1e-3, "A"), (default, "A"), (250.0, "A"),
            (int(default) or 1, "?"), (True, "?")] + WRONG_NUM


def _pos_int(default):
    return [(-1, "R"), (0, "R"), (1, "A"), (2, "A"), (default, "A"), (2.5, "R"), (True, "?"), (2.0, "?")] + WRONG_NUM


def _unit_closed(default):
    """float in [0, 1] (docs: '>=0 and <=1')"""
    return [(-0.1, "R"), (0.0, "A"), (0.5, "A"), (default, "A"), (1.0, "A"), (1.1, "R"), (1, "?"), (0, "?")] + WRONG_NUM


def _unit_open_doc(default):
    """docs '>0 and <1', code closed: the end points are open"""
    return [(-0.1, "R"), (0.0, "?"), (0.5, "A"), (default, "A"), (1.0, "?"), (1.1, "R"), (1, "?")] + WRONG_NUM


def _eta(default):
    """docs '>0' (statement: non-positive refused); code also wants < 1: 1.0 and above are open"""
    return [(-0.1, "R"), (0.0, "R"), (-0.0, "R"), (1e-3, "A"), (0.3, "A"), (default, "A"), (0.99, "A"),
            (1.0, "?"), (1.5, "?"), (1, "?")] + WRONG_NUM


def _nonneg_int(default):
    return [(-1, "R"), (0, "A"), (1, "A"), (2, "A"), (default, "A"), (1.5, "R"), (True, "?")] + WRONG_NUM


def _scales():
    return [(-1, "R"), (0, "R"), (1, "R"), (2, "A"), (3, "A"), (4, "A"), (2.5, "R"), (True, "?")] + WRONG_NUM


def _bool():
    return [(True, "A"), (False, "A"), ("true", "R"), (None, "R"), (1, "?"), (0, "?"), ([True], "R")]


def _name():
    """free string (indicator suffixes)"""
    return [("", "A"), ("_x", "A"), (".2", "A"), (3, "R"), (None, "R"), (["a"], "R")]


def _method(good, extra_open=()):
    return [(g, "A") for g in good] + [("nope", "R"), ("", "R"), (3, "R"), (None, "R"), ([good[0]], "R")] + [
        (o, "?") for o in extra_open
    ]


_REG = {  # regularization block shared by interval_bounds and median_for_intervals
    "regularization": {"default": False, "values": _bool()},
    "ambiguity_indicator": {"default": "", "values": _name()},
    "ambiguity_threshold": {"default": 0.6, "values": _unit_open_doc(0.6)},
    "ambiguity_kernel_size": {"default": 5, "values": [(-1, "R"), (0, "?"), (1, "A"), (2, "?"), (3, "A"), (5, "A"),
                                                       (7, "A"), (2.5, "R"), (True, "?")] + WRONG_NUM},
    "vertical_depth": {"present": True, "values": _nonneg_int(2)},
    "quantile_regularization": {"present": True, "values": _unit_closed(0.9)},
}

# kind -> method key, methods -> params
TABLE = {
    "matching_cost": {
        "key": "matching_cost_method",
        "methods": {
            m: {
                "window_size": {"default": 5, "values": _odd_positive([(11, "A"), (9, "A")])},
                "subpix": {"default": 1, "values": [(-2, "R"), (-1, "R"), (0, "R"), (1, "A"), (2, "A"), (3, "R"),
                                                    (4, "A"), (5, "R"), (6, "?"), (8, "?"), (7, "R"), (2.5, "R"),
                                                    (True, "?"), (2.0, "?")] + WRONG_NUM},
                "step": {"default": 1, "values": [(1, "A"), (2, "R"), (0, "R"), (-1, "R"), (3, "R"), (1.5, "R"),
                                                  ("1", "R"), (None, "R"), ([1], "R"), (True, "?"), (1.0, "?")]},
                # band: handled by the band space (depends on the image metadata); on monoband metadata:
                "band": {"default": None, "values": [(None, "A"), ("r", "R"), (3, "R"), (["r"], "R")]},
            }
            for m in ("sad", "ssd", "zncc")
        },
    },
    "aggregation": {
        "key": "aggregation_method",
        "methods": {
            "cbca": {
                "cbca_intensity": {"default": 30.0, "values": _pos_float(30.0)},
                "cbca_distance": {"default": 5, "values": _pos_int(5)},
            }
        },
    },
    "cost_volume_confidence": {
        "key": "confidence_method",
        "methods": {
            "std_intensity": {"indicator": {"default": "", "values": _name()}},
            "ambiguity": {
                "eta_max": {"default": 0.7, "values": _eta(0.7)},
                "eta_step": {"default": 0.01, "values": _eta(0.01)},
                "normalization": {"present": True, "values": _bool()},
                "indicator": {"default": "", "values": _name()},
            },
            "risk": {
                "eta_max": {"default": 0.7, "values": _eta(0.7)},
                "eta_step": {"default": 0.01, "values": _eta(0.01)},
                "indicator": {"default": "", "values": _name()},
            },
            "interval_bounds": dict(
                {
                    "possibility_threshold": {"default": 0.9, "values": _unit_closed(0.9)},
                    "indicator": {"default": "", "values": _name()},
                },
                **_REG,
            ),
        },
    },
    "disparity": {
        "key": "disparity_method",
        "methods": {
            "wta": {
                "invalid_disparity": {
                    "default": -9999,
                    "values": [(-9999, "A"), (0, "A"), (5, "A"), (5.5, "A"), (-1.25, "A"), (NAN, "A"),
                               ({"$": "nan"}, "A"), ("x", "R"), (None, "R"), ([1], "R")],
                }
            }
        },
    },
    "filter": {
        "key": "filter_method",
        "methods": {
            "median": {"filter_size": {"default": 3, "values": _odd_positive()}},
            "bilateral": {
                "sigma_color": {"default": 2.0, "values": _pos_float(2.0)},
                "sigma_space": {"default": 6.0, "values": _pos_float(6.0)},
            },
            "median_for_intervals": dict(
                {
                    "filter_size": {"default": 3, "values": _odd_positive()},
                    "interval_indicator": {"present": True, "values": _name()},
                },
                **_REG,
            ),
        },
    },
    "refinement": {"key": "refinement_method", "methods": {"vfit": {}, "quadratic": {}}},
    "validation": {
        "key": "validation_method",
        "methods": {
            "cross_checking_accurate": {
                "cross_checking_threshold": {
                    "default": 1.0,
                    "values": [(1.0, "A"), (1, "A"), (0, "A"), (0.5, "A"), (2, "A"), (2.5, "A"), (-1, "?"), (True, "?"),
                               ("1", "R"), (None, "R"), ([1], "R")],
                },
                "interpolated_disparity": {
                    "absent": True,  # optional without default: must stay absent when omitted
                    "values": [("sgm", "A"), ("mc-cnn", "?"), ("mc_cnn", "?"), ("nope", "R"), ("", "R"), (3, "R"),
                               (None, "R"), (["sgm"], "R")],
                },
            }
        },
    },
    "multiscale": {
        "key": "multiscale_method",
        "methods": {
            "fixed_zoom_pyramid": {
                "num_scales": {"default": 2, "values": _scales()},
                "scale_factor": {"default": 2, "values": _scales()},
                "marge": {"default": 1, "values": _nonneg_int(1)},
            }
        },
    },
}

# census: same parameters as the other measures, window restricted to {3, 5}
TABLE["matching_cost"]["methods"]["census"] = dict(
    TABLE["matching_cost"]["methods"]["sad"],
    window_size={"default": 5, "values": [(-1, "R"), (0, "R"), (1, "R"), (2, "R"), (3, "A"), (4, "R"), (5, "A"),
                                          (6, "R"), (7, "R"), (9, "R"), (11, "R"), (3.5, "R"), (True, "?"),
                                          (3.0, "?"), (5.0, "?")] + WRONG_NUM},
)

METHOD_VALUES = {kind: _method(sorted(TABLE[kind]["methods"])) for kind in TABLE}


def method_params(kind, method):
    return TABLE[kind]["methods"][method]


def expected_defaults(kind, method):
    """-> (asserted {param: default}, present-only [param], must-stay-absent [param])"""
    vals, present, absent = {}, [], []
    for p, spec in method_params(kind, method).items():
        if "default" in spec:
            vals[p] = spec["default"]
        elif spec.get("present"):
            present.append(p)
        elif spec.get("absent"):
            absent.append(p)
    return vals, present, absent
