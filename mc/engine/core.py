"""
Bounded exhaustive explorer: runner shared by all property modules.

A property module (mc/props/cNN.py) exposes

    ID, LEVEL ("exploration" | "model_checking"), RULE (str), ASSUMPTIONS (list[str])
    BUDGET = {"quick": seconds, "thorough": seconds}          (wall-clock cap of the enumeration)
    spaces(tier, seed) -> list[dict(name=str, level=int, cases=iterable, note=str)]
    run_case(case) -> dict(n=int, sigs=[str, ...], viol=[dict(clause, key, detail)], trivial=int)
    init_worker()                 optional, JIT warm-up etc.
    finalize(tier, seed, ctx)     optional, runs in the parent after the enumeration; returns
                                  dict(coverage={...}, viol=[dict(clause,key,detail,case)])
    WORKER_ENV                    optional dict of environment variables for workers

Every case of every space is executed on the real code (workers import pandora from MC_REPO).
Spaces are explored in order of deviation level; if the wall-clock cap is hit the evidence says so
and `exhaustive` is false.  Violations are de-duplicated by classification key, re-executed once
for determinism (divergence = harness error, exit 2), matched against /verif/known_findings.json,
and written as replay files.
"""
from __future__ import annotations

import hashlib
import importlib
import itertools
import json
import multiprocessing as mp
import os
import subprocess
import sys
import time
import traceback

VERIF = os.path.dirname(os.path.dirname(os.path.dirname(os.path.abspath(__file__))))
REPO = os.environ.get("MC_REPO", "/repo")
OUT = os.path.join(VERIF, "out")


class HarnessError(Exception):
    """raised when the harness itself is broken (exit 2, never a verdict)"""


# ----------------------------------------------------------------------------------------------
# environment
# ----------------------------------------------------------------------------------------------
def tree_hash() -> str:
    """hash of the pandora sources of the tree under check (keys the numba cache)"""
    h = hashlib.sha1()
    root = os.path.join(REPO, "pandora")
    for dirpath, dirnames, filenames in sorted(os.walk(root)):
        dirnames.sort()
        if "__pycache__" in dirpath:
            continue
        for fn in sorted(filenames):
            if fn.endswith(".py"):
                p = os.path.join(dirpath, fn)
                h.update(p.encode())
                with open(p, "rb") as f:
                    h.update(f.read())
    return h.hexdigest()[:16]


def setup_env() -> None:
    """environment shared by parent and workers; must run before numba/pandora are imported"""
    cache_root = os.path.join(VERIF, ".cache", "numba")
    th = tree_hash() + "-" + os.environ.get("PANDORA_NUMBA_PARALLEL", "True")
    cdir = os.path.join(cache_root, th)
    os.makedirs(cdir, exist_ok=True)
    # bound the disk used by caches of edited trees: drop caches unused for 3 hours beyond the 12 newest
    try:
        now = time.time()
        olds = sorted(
            (d for d in os.listdir(cache_root) if d != th),
            key=lambda d: os.path.getmtime(os.path.join(cache_root, d)),
        )
        for d in olds[:-12]:
            if now - os.path.getmtime(os.path.join(cache_root, d)) > 3 * 3600:
                subprocess.run(["rm", "-rf", os.path.join(cache_root, d)], check=False)
    except OSError:
        pass
    os.environ["NUMBA_CACHE_DIR"] = cdir
    os.environ.setdefault("PYTHONHASHSEED", "0")
    os.environ.setdefault("NUMBA_NUM_THREADS", "1")
    os.environ.setdefault("OMP_NUM_THREADS", "1")
    # idle OpenMP threads must sleep, not spin: 16 workers x N numba threads share 16 cores
    os.environ.setdefault("OMP_WAIT_POLICY", "passive")
    os.environ.setdefault("OPENBLAS_NUM_THREADS", "1")
    os.environ.setdefault("MKL_NUM_THREADS", "1")
    os.environ["PYTHONDONTWRITEBYTECODE"] = "1"
    sys.dont_write_bytecode = True
    _patch_numba_cache()
    if REPO != "/repo":
        # mutation demonstrations: make `import pandora` resolve to the scratch copy
        sys.path.insert(0, REPO)
        os.environ["PYTHONPATH"] = REPO + os.pathsep + os.environ.get("PYTHONPATH", "")


def _patch_numba_cache() -> None:
    """
    pandora.interval_tools compiles two parallel kernels eagerly at import (24 s per process, measured) and the
    other parallel kernels lazily (6 s per process).  The harness makes `numba.njit` default to cache=True so
    that every process after the first loads the machine code from NUMBA_CACHE_DIR.  The cache directory is keyed
    by a hash of *all* pandora sources and of PANDORA_NUMBA_PARALLEL, so an edited tree never meets a stale
    cache.  Compilation itself (options, signatures, generated code) is untouched.
    """
    if os.environ.get("MC_NO_CACHE_PATCH"):
        return
    import numba  # pylint: disable=import-outside-toplevel

    if getattr(numba, "_mc_cache_patch", False):
        return
    orig = numba.njit

    def _takes_callable(func):
        # kernels that receive another dispatcher as an argument (loop_refinement's `method`) cannot be cached
        # reliably: numba re-pickles the whole index, including Dispatcher-typed signatures whose weakly referenced
        # objects may be gone ("underlying object has vanished")
        code = getattr(func, "__code__", None)
        return code is not None and "method" in code.co_varnames[: code.co_argcount]

    def njit(*args, **kwargs):
        if "cache" in kwargs:
            return orig(*args, **kwargs)
        if args and callable(args[0]) and not isinstance(args[0], str):
            if _takes_callable(args[0]):
                return orig(*args, **kwargs)
            return orig(*args, cache=True, **kwargs)

        def deco(func):
            if _takes_callable(func):
                return orig(*args, **kwargs)(func)
            return orig(*args, cache=True, **kwargs)(func)

        return deco

    numba.njit = njit
    numba._mc_cache_patch = True  # pylint: disable=protected-access


def assert_tree() -> None:
    import pandora  # pylint: disable=import-outside-toplevel

    here = os.path.realpath(os.path.dirname(pandora.__file__))
    want = os.path.realpath(os.path.join(REPO, "pandora"))
    if here != want:
        raise HarnessError(f"pandora imported from {here}, expected {want}")


# ----------------------------------------------------------------------------------------------
# workers
# ----------------------------------------------------------------------------------------------
_MOD = None
_INIT_ERR = None


def _worker_init(modname: str, env: dict) -> None:
    global _MOD, _INIT_ERR  # pylint: disable=global-statement
    os.environ.update(env)
    setup_env()
    import warnings  # pylint: disable=import-outside-toplevel

    warnings.filterwarnings("ignore")
    import logging  # pylint: disable=import-outside-toplevel

    logging.disable(logging.CRITICAL)
    try:
        _MOD = importlib.import_module(modname)
        assert_tree()
        if hasattr(_MOD, "init_worker"):
            _MOD.init_worker()
    except BaseException:  # pylint: disable=broad-except
        # a failing Pool initializer makes multiprocessing respawn workers forever: record and report instead
        _INIT_ERR = traceback.format_exc()


def _run_one(mod, case) -> dict:
    try:
        res = mod.run_case(case)
    except Exception:  # pylint: disable=broad-except
        # an exception escaping run_case is a harness bug unless the module converts it itself
        return {"n": 1, "sigs": [], "viol": [], "trivial": 0, "harness_error": traceback.format_exc()}
    res.setdefault("n", 1)
    res.setdefault("sigs", [])
    res.setdefault("viol", [])
    res.setdefault("trivial", 0)
    return res


def _worker_chunk(args):
    space_idx, start, cases = args
    if _INIT_ERR:
        return {"space": space_idx, "start": start, "count": 0, "n": 0, "trivial": 0, "sigs": set(), "viol": [],
                "herr": {"case": "worker initialisation", "trace": _INIT_ERR}, "sample": None}
    n = 0
    trivial = 0
    sigs = set()
    viol = []
    herr = None
    sample = None
    for off, case in enumerate(cases):
        res = _run_one(_MOD, case)
        if "harness_error" in res and herr is None:
            herr = {"case": case, "trace": res["harness_error"]}
        n += res["n"]
        trivial += res["trivial"]
        for s in res["sigs"]:
            sigs.add(hashlib.blake2b(str(s).encode(), digest_size=8).hexdigest())
        for v in res["viol"]:
            if len(viol) < 200:
                viol.append(dict(v, case=v.get("case", case), space=space_idx, index=start + off))
        if sample is None and res["sigs"]:
            sample = {"case": case, "sig": str(res["sigs"][0])[:300]}
    return {
        "space": space_idx,
        "start": start,
        "count": len(cases),
        "n": n,
        "trivial": trivial,
        "sigs": sigs,
        "viol": viol,
        "herr": herr,
        "sample": sample,
    }


def _chunks(space_idx, cases, size):
    it = iter(cases)
    start = 0
    while True:
        block = list(itertools.islice(it, size))
        if not block:
            return
        yield (space_idx, start, block)
        start += len(block)


# ----------------------------------------------------------------------------------------------
# known findings
# ----------------------------------------------------------------------------------------------
def load_findings(pid: str) -> list:
    path = os.path.join(VERIF, "known_findings.json")
    if not os.path.exists(path):
        return []
    with open(path, encoding="utf8") as f:
        data = json.load(f)
    return [e for e in data.get("findings", []) if e.get("property") == pid and e.get("status") == "open"]


def key_hash(key: str) -> str:
    return hashlib.sha1(key.encode()).hexdigest()[:12]


# ----------------------------------------------------------------------------------------------
# evidence
# ----------------------------------------------------------------------------------------------
def write_evidence(pid: str, ev: dict) -> None:
    os.makedirs(os.path.join(VERIF, "evidence"), exist_ok=True)
    path = os.path.join(VERIF, "evidence", f"{pid}.json")
    tmp = path + ".tmp"
    with open(tmp, "w", encoding="utf8") as f:
        json.dump(ev, f, indent=1, sort_keys=True, default=str)
    os.replace(tmp, path)
    script = (
        "import json,sys,jsonschema;"
        "s=json.load(open('/root/.vp/EVIDENCE.schema.json'));"
        "jsonschema.validate(json.load(open(sys.argv[1])),s)"
    )
    if os.path.exists("/root/.vp/EVIDENCE.schema.json"):
        r = subprocess.run(["python3-vt", "-c", script, path], capture_output=True, text=True, check=False)
        if r.returncode != 0:
            raise HarnessError("evidence does not validate: " + r.stderr[-2000:])


# ----------------------------------------------------------------------------------------------
# main driver
# ----------------------------------------------------------------------------------------------
def jsonable(x):
    try:
        json.dumps(x)
        return x
    except TypeError:
        return json.loads(json.dumps(x, default=str))


def peek_worker_env(modname: str) -> dict:
    """
    WORKER_ENV of a property module, read from its source without importing it: the parent process must run with
    the same numba environment as its workers (it re-executes violating cases itself), and numba refuses a
    NUMBA_NUM_THREADS that changes after its threads were launched
    """
    import ast  # pylint: disable=import-outside-toplevel
    import importlib.util  # pylint: disable=import-outside-toplevel

    spec = importlib.util.find_spec(modname)
    if spec is None or not spec.origin:
        return {}
    with open(spec.origin, encoding="utf8") as f:
        tree = ast.parse(f.read())
    for node in tree.body:
        if isinstance(node, ast.Assign) and any(getattr(t, "id", None) == "WORKER_ENV" for t in node.targets):
            try:
                return dict(ast.literal_eval(node.value))
            except (ValueError, SyntaxError):
                return {}
    return {}


def run_property(modname: str, tier: str, seed: int) -> int:
    t0 = time.time()
    os.environ.update(peek_worker_env(modname))
    setup_env()
    mod = importlib.import_module(modname)
    assert_tree()
    pid = mod.ID
    budget = float(os.environ.get("MC_BUDGET", getattr(mod, "BUDGET", {"quick": 150, "thorough": 1500})[tier]))
    nworkers = int(os.environ.get("MC_WORKERS", os.cpu_count() or 4))
    chunk = int(getattr(mod, "CHUNK", {"quick": 32, "thorough": 64})[tier]) if isinstance(
        getattr(mod, "CHUNK", None), dict
    ) else int(getattr(mod, "CHUNK", 32))
    spaces = mod.spaces(tier, seed)
    spaces = sorted(spaces, key=lambda s: s["level"])  # stable: levels in order
    known = load_findings(pid)

    per_space = []
    all_sigs = set()
    evaluations = 0
    trivial = 0
    viol_by_key = {}
    viol_count = 0
    samples = []
    cap_hit = False
    herr = None

    worker_env = dict(getattr(mod, "WORKER_ENV", {}))
    use_pool = nworkers > 1 and not getattr(mod, "NO_POOL", False)
    pool = None
    if use_pool and any(True for _ in spaces):
        ctx = mp.get_context("spawn")
        pool = ctx.Pool(nworkers, initializer=_worker_init, initargs=(modname, worker_env))
    else:
        _worker_init(modname, worker_env)

    try:
        for si, sp in enumerate(spaces):
            st = {"name": sp["name"], "level": sp["level"], "cases": 0, "evaluations": 0, "complete": False,
                  "note": sp.get("note", "")}
            per_space.append(st)
            if cap_hit:
                continue
            gen = _chunks(si, sp["cases"], sp.get("chunk", chunk))
            deadline = t0 + budget
            stopped = False
            sp_sample = None

            def results_iter():
                """bounded in-flight submission so that the wall-clock cap really stops the enumeration"""
                nonlocal stopped
                if pool is None:
                    for item in gen:
                        if time.time() > deadline:
                            stopped = True
                            return
                        yield _worker_chunk(item)
                    return
                inflight = []
                exhausted = False
                while True:
                    while not exhausted and not stopped and len(inflight) < 3 * nworkers:
                        if time.time() > deadline:
                            stopped = True
                            break
                        item = next(gen, None)
                        if item is None:
                            exhausted = True
                            break
                        inflight.append(pool.apply_async(_worker_chunk, (item,)))
                    if not inflight:
                        return
                    # wait for the oldest (results are order-independent aggregates)
                    yield inflight.pop(0).get()

            for r in results_iter():
                st["cases"] += r["count"]
                st["evaluations"] += r["n"]
                evaluations += r["n"]
                trivial += r["trivial"]
                all_sigs |= r["sigs"]
                if r["herr"] and herr is None:
                    herr = r["herr"]
                if r["sample"] and (sp_sample is None or r["start"] < sp_sample[0]):
                    sp_sample = (r["start"], r["sample"])
                for v in r["viol"]:
                    viol_count += 1
                    k = v["key"]
                    cur = viol_by_key.get(k)
                    if cur is None or (v["space"], v["index"]) < (cur["space"], cur["index"]):
                        viol_by_key[k] = v
            if stopped:
                cap_hit = True
            else:
                st["complete"] = True
            if sp_sample:
                samples.append({"space": sp["name"], **sp_sample[1]})
            if herr:
                break
    finally:
        if pool:
            pool.close() if not herr else pool.terminate()
            pool.join()

    if herr:
        print("HARNESS ERROR in run_case:", json.dumps(herr["case"], default=str)[:2000])
        print(herr["trace"])
        return 2

    extra_cov = {}
    if hasattr(mod, "finalize"):
        fin = mod.finalize(tier, seed, {"budget_left": max(0.0, t0 + budget - time.time()), "workers": nworkers,
                                        "evaluations": evaluations, "distinct": len(all_sigs),
                                        "per_space": per_space})
        extra_cov = fin.get("coverage", {})
        for v in fin.get("viol", []):
            viol_count += 1
            v.setdefault("space", 10**6)
            v.setdefault("index", 0)
            viol_by_key.setdefault(v["key"], v)
        for s in fin.get("sigs", []):
            all_sigs.add(hashlib.blake2b(str(s).encode(), digest_size=8).hexdigest())
        evaluations += fin.get("n", 0)
        samples += fin.get("samples", [])
        if fin.get("cap_hit"):
            cap_hit = True

    # determinism: re-execute each violating case once (in this process)
    new_viol = []
    known_seen = []
    unconfirmed = []
    if viol_by_key:
        if pool is not None:
            _worker_init(modname, worker_env)
        for k, v in sorted(viol_by_key.items()):
            rekeys = []
            if v.get("no_replay"):
                confirmed = True
            else:
                res = _run_one(mod, v["case"])
                if "harness_error" in res:
                    print("HARNESS ERROR while re-executing", k)
                    print(res["harness_error"])
                    return 2
                confirmed = any(x["key"] == k for x in res["viol"])
                rekeys = [x["key"] for x in res["viol"]]
            if not confirmed and v.get("racy"):
                # thread-timing dependent observation (C18): a single observation is a violation by itself
                v["detail"] = str(v["detail"]) + " [observed once; did not recur on re-execution: timing dependent]"
                confirmed = True
            if not confirmed:
                unconfirmed.append((k, v, rekeys))
                continue
            match = [e for e in known if e["key"] == k]
            if match:
                known_seen.append((match[0], v))
            else:
                new_viol.append(v)

    if unconfirmed:
        # A violation that does not recur when its case is re-executed alone is never reported as a verdict.
        # If nothing else was confirmed it is a harness error (exit 2).  If other violations of this run DID
        # reproduce, the non-reproducing ones are dropped with a note: they are what a defect that depends on the
        # history of the worker process looks like from a case that does not contain that history (the spaces that
        # enumerate histories give it a reproducible witness).
        for k, v, rekeys in unconfirmed[:5]:
            print(f"NOT-REPRODUCED: violation {k} did not recur on re-execution of its case alone; re-execution gave "
                  f"{rekeys}")
        if not new_viol:
            print("HARNESS ERROR: no violation of this run reproduced on re-execution (non-determinism)")
            print(json.dumps(jsonable(unconfirmed[0][1]), default=str)[:3000])
            return 2
    os.makedirs(os.path.join(OUT, "replays", pid), exist_ok=True)
    for e, v in known_seen:
        print(f"KNOWN-FINDING: property={pid} {e['what']} [key={e['key']}]")
    printed = 0
    for v in new_viol:
        path = os.path.join(OUT, "replays", pid, key_hash(v["key"]) + ".json")
        with open(path, "w", encoding="utf8") as f:
            json.dump(jsonable({"property": pid, "key": v["key"], "clause": v["clause"], "detail": v["detail"],
                                "case": v["case"], "tree": tree_hash()}), f, indent=1, default=str)
        if printed < 10:
            print(f"VIOLATION property={pid} replay={path}")
            print(f"  clause={v['clause']} key={v['key']}\n  detail={str(v['detail'])[:600]}")
            printed += 1
    if len(new_viol) > printed:
        print(f"... {len(new_viol) - printed} more distinct violation keys")

    levels_completed = sorted({s["level"] for s in per_space if s["complete"]}
                              - {s["level"] for s in per_space if not s["complete"]})
    coverage = {
        "evaluations": int(evaluations),
        "distinct_nontrivial": len(all_sigs),
        "trivial_cases": int(trivial),
        "rule": mod.RULE,
        "samples": jsonable(samples[:12]) or [{"note": "no sample"}],
        "exhaustive": (not cap_hit) and all(s["complete"] for s in per_space),
        "cap_hit": cap_hit,
        "budget_s": budget,
        "levels_completed": levels_completed,
        "spaces": per_space,
        "violation_records": viol_count,
        "distinct_violation_keys": len(viol_by_key),
        "known_findings_seen": [e["key"] for e, _ in known_seen],
        "violations_not_reproduced_in_isolation": len(unconfirmed),
        "workers": nworkers,
        "tree": tree_hash(),
    }
    coverage.update(extra_cov)
    ev = {
        "property_id": pid,
        "tier": tier,
        "seed": int(seed),
        "level": mod.LEVEL,
        "coverage": coverage,
        "assumptions": list(getattr(mod, "ASSUMPTIONS", [])),
        "wall_s": round(time.time() - t0, 2),
        "violations": len(new_viol),
    }
    write_evidence(pid, ev)
    print(
        f"[{pid}] tier={tier} seed={seed} evaluations={evaluations} distinct={len(all_sigs)} trivial={trivial} "
        f"spaces={len(per_space)} exhaustive={coverage['exhaustive']} cap_hit={cap_hit} "
        f"violations={len(new_viol)} known={len(known_seen)} wall={ev['wall_s']}s"
    )
    return 1 if new_viol else 0


def replay(modname: str, path: str) -> int:
    os.environ.update(peek_worker_env(modname))
    setup_env()
    mod = importlib.import_module(modname)
    assert_tree()
    with open(path, encoding="utf8") as f:
        data = json.load(f)
    case = data["case"] if "case" in data else data
    _worker_init(modname, dict(getattr(mod, "WORKER_ENV", {})))
    res = _run_one(mod, case)
    if "harness_error" in res:
        print(res["harness_error"])
        return 2
    for v in res["viol"]:
        print(f"VIOLATION property={mod.ID} replay={path}")
        print(f"  clause={v['clause']} key={v['key']}\n  detail={str(v['detail'])[:2000]}")
    if not res["viol"]:
        print(f"[{mod.ID}] replay holds: n={res['n']} sigs={len(res['sigs'])}")
    return 1 if res["viol"] else 0
