"""
C07 - cross-checking flags exactly the left-right inconsistent pixels, nothing else (DESIGN.md section 3, C07).

Enumerated on the real `validation.AbstractValidation(**cfg).disparity_checking(left, right)`:
  * level 0 (all pixels valid, threshold 1.0, interval [-2, 2], offset 0): EVERY pair of 1-row left/right disparity
    rows of width 1 and 2 as single-row maps, and of width 3 (thorough: also width 4, 7 symbols) stacked as the rows of one map
    (cross-checking is per-row independent in the statement; the reference computes the whole stacked expectation,
    so any cross-row interference is a mismatch);
  * level 1 / 2: the same product at width 3 with one / two departures from level 0 among: one left validity pixel
    in {4, 1, 64, 256}, threshold in {0, 0.5, 1.5, int 1, default}, interval in {[0, 2], [-2, -1]}, offset 1
    (border rule), two pre-existing confidence bands;
  * machine level: real `pandora.run` pipelines ending with a validation step, the left AND the right result checked
    with the same oracle on the maps the step received (snapshots taken by the observed run).
Oracle: mc/ref/crosscheck.py (transcription of the statement), one rounding mode per map (see there).
"""
from __future__ import annotations

import functools
import itertools

import numpy as np

from mc.drivers import datasets as D
from mc.drivers import validation_steps as VS
from mc.ref import crosscheck as X

ID = "C07"
LEVEL = "exploration"
BUDGET = {"quick": 300, "thorough": 3600}
CHUNK = 4
RULE = (
    "cases = blocks of row pairs: for every left row index i a stack of ALL right rows k, paired with left row "
    "(i + stride*k) mod N, so that every (left row, right row) pair over the alphabet occurs exactly once per "
    "configuration; widths 1-2 additionally as single-row maps; evaluations = row pairs (+1 per pipeline side); a "
    "row pair is non-trivial when at least one previously valid pixel is flagged or has its correspondent outside; "
    "distinct = distinct (configuration, per-pixel class string of the row: invalid/consistent/occlusion/mismatch/"
    "outside/border)"
)
ASSUMPTIONS = [
    "disparity alphabet {-2,-1,0,1,2,-0.5,0.5,NaN} (quick, width 3; plus 1.5 at widths 1-2), plus {1.5,-9999} "
    "(thorough, widths 1-3); "
    "thorough width 4 over {-2,-1,0,1,-0.5,0.5,NaN}; level 1 in quick and level 2 in thorough use the sub-alphabets "
    "{-1,0,1,0.5,NaN} / {-2,-1,0,1,0.5,NaN}",
    "round() of an exact .5 is open in the statement: half-even, half-away and half-up are accepted, but ONE mode "
    "(one for the correspondent, one for the mismatch search) must explain the whole map - q = p + round(dL(p)) "
    "does not depend on the column",
    "a valid pixel whose correspondent is outside the image (or whose disparity is NaN) must be flagged; occlusion "
    "(code comment) and the statement's occlusion/mismatch decision are both accepted there",
    "confidence value asserted only where p was valid, q inside, both disparities finite and p not a border pixel",
    "the right dataset's validity mask is never read: it carries arbitrary flags and must come back untouched",
    "machine level: |dL+dR| within 1e-5 of the threshold (but not equal) is not judged (float32 vs float64)",
]

NAN = float("nan")
ALPHA = {
    "q8": [-2.0, -1.0, 0.0, 1.0, 2.0, -0.5, 0.5, NAN],
    "t10": [-2.0, -1.0, 0.0, 1.0, 2.0, -0.5, 0.5, NAN, 1.5, -9999.0],
    "q9": [-2.0, -1.0, 0.0, 1.0, 2.0, -0.5, 0.5, NAN, 1.5],
    "q7": [-2.0, -1.0, 0.0, 1.0, -0.5, 0.5, NAN],
    "s5": [-1.0, 0.0, 1.0, 0.5, NAN],
    "s6": [-2.0, -1.0, 0.0, 1.0, 0.5, NAN],
}
RIGHT_FLAGS = [0, 2, 256, 512, 4, 64, 1]
SITE = "CrossCheckingAccurate.disparity_checking"
CLS_NAMES = "ICOMXYB"  # invalid, consistent, occlusion, mismatch, outside, outside(+mismatch candidate), border


@functools.lru_cache(maxsize=None)
def rows_of(alpha, w):
    return np.array(list(itertools.product(ALPHA[alpha], repeat=w)), dtype=np.float32)


# ----------------------------------------------------------------------------------------------
# spaces
# ----------------------------------------------------------------------------------------------
def departures(level2=False):
    deps = []
    for pos in range(3):
        for val in (4, 1, 64, 256):
            deps.append((f"fl{pos}", {"flpos": pos, "flval": val}))
    for thr in ([0, 0.5, 1.5] if level2 else [0, 0.5, 1.5, 1, "default"]):
        deps.append(("thr", {"thr": thr}))
    for itv in ([0, 2], [-2, -1]):
        deps.append(("interval", {"interval": itv}))
    if not level2:
        deps.append(("off", {"off": 1}))
        deps.append(("conf", {"conf": 2}))
    return deps


def config_of(deps):
    cfg = {"thr": 1.0, "interval": [-2, 2], "off": 0, "conf": 0, "fl": [0, 0, 0]}
    for _, d in deps:
        if "flpos" in d:
            cfg["fl"] = list(cfg["fl"])
            cfg["fl"][d["flpos"]] = d["flval"]
        else:
            cfg.update(d)
    return cfg


def stack_cases(alpha, w, cfg, seed):
    n = len(ALPHA[alpha]) ** w
    stride = [1, 3, 5, 7][seed % 4]
    for i in range(n):
        c = {"kind": "stack", "alpha": alpha, "w": w, "i": i, "stride": stride, "rot": seed % len(RIGHT_FLAGS)}
        c.update(cfg)
        yield c


def spaces(tier, seed):
    a0 = "q8" if tier == "quick" else "t10"
    base = {"thr": 1.0, "interval": [-2, 2], "off": 0, "conf": 0}
    a_single = "q9" if tier == "quick" else "t10"
    singles = [
        {"kind": "single", "alpha": a_single, "w": w, "i": i, "rot": seed % len(RIGHT_FLAGS), **base}
        for w in (1, 2)
        for i in range(len(ALPHA[a_single]) ** w)
    ]
    sp = [
        {"name": f"level 0: all row pairs of width 1-2 over {a_single} as single-row maps", "level": 0,
         "cases": singles, "chunk": 2},
        {"name": f"level 0: all row pairs of width 3 over {a0}, stacked", "level": 0,
         "cases": stack_cases(a0, 3, dict(base, fl=[0, 0, 0]), seed)},
    ]
    if tier == "thorough":
        sp.append({"name": "level 0: all row pairs of width 4 over q7, stacked", "level": 0,
                   "cases": stack_cases("q7", 4, dict(base, fl=[0, 0, 0, 0]), seed), "chunk": 1})
    a1 = "s5" if tier == "quick" else "q8"
    lvl1 = itertools.chain.from_iterable(stack_cases(a1, 3, config_of([d]), seed) for d in departures())
    sp.append({"name": f"level 1: one departure (validity pixel | threshold | interval | offset | bands), width 3 "
                       f"over {a1}", "level": 1, "cases": lvl1, "chunk": 16 if tier == "quick" else 4})
    primed = itertools.chain.from_iterable(
        stack_cases(a1, 3, dict(config_of([]), interval=itv, primed=True), seed)
        for itv in ([0, 2], [-2, -1], [-1, 2], [-2, 0]))
    sp.append({"name": f"level 1: step object reused (first call on the mirrored problem), asymmetric intervals, width 3 "
                       f"over {a1}", "level": 1, "cases": primed, "chunk": 16 if tier == "quick" else 4})
    rechecked = itertools.chain.from_iterable(
        stack_cases(a1, 3, dict(config_of([]), interval=itv, rechecked=True), seed) for itv in ([-1, 1], [-2, 0]))
    sp.append({"name": f"level 1: second cross-checking of datasets that already carry the consistency band (disparities "
                       f"changed in between), width 3 over {a1}", "level": 1, "cases": rechecked,
               "chunk": 16 if tier == "quick" else 4})
    sp.append({"name": "level 1: machine-level binding, pipelines ending with validation (left and right maps)",
               "level": 1, "cases": machine_cases(tier, seed), "chunk": 1})
    if tier == "thorough":
        deps = departures(level2=True)
        pairs = [(a, b) for a, b in itertools.combinations(deps, 2) if a[0] != b[0]]
        lvl2 = itertools.chain.from_iterable(stack_cases("s6", 3, config_of(list(p)), seed) for p in pairs)
        sp.append({"name": "level 2: two departures among validity pixels / threshold / interval, width 3 over s6",
                   "level": 2, "cases": lvl2, "chunk": 8})
    return sp


def machine_cases(tier, seed):
    out = []
    shapes = [(4, 7), (5, 9)] if tier == "quick" else [(4, 7), (5, 9), (6, 8), (3, 12)]
    for (ny, nx) in shapes:
        for method, window in (("sad", 1), ("census", 3), ("zncc", 3), ("ssd", 1)):
            for subpix in (1, 2):
                for post in ("", "vfit", "median"):
                    for thr in (1.0, 0.0):
                        k = ny * 3 + nx + window + subpix + len(post) + int(thr)
                        if tier == "quick" and (k + seed) % 3:
                            continue
                        out.append({"kind": "machine", "ny": ny, "nx": nx, "method": method, "window": window,
                                    "subpix": subpix, "post": post, "thr": thr, "shift": 1 + k % 2,
                                    "img": (seed * 7 + k) % 11, "disp": [-2, 2] if k % 4 else [-1, 3]})
    return out


# ----------------------------------------------------------------------------------------------
# oracle
# ----------------------------------------------------------------------------------------------
def _name(flag_in, flag_out):
    add = int(flag_out) - int(flag_in)
    return {0: "unflagged", X.OCC: "occlusion", X.MIS: "mismatch", X.OCC + X.MIS: "both"}.get(add, "other")


def _is_half(x):
    return bool(np.isfinite(x) and abs(x - np.floor(x) - 0.5) == 0.0)


def judge(obs_flags, obs_conf, dl, dr, fl, thr, dmin, dmax, off, site="disparity_checking"):
    """
    :return: (violations, model, mismatching pixel count); one rounding-mode pair must explain the whole map
    """
    dl64 = np.asarray(dl, dtype=np.float64)
    dr64 = np.asarray(dr, dtype=np.float64)
    halves_l = bool((np.isfinite(dl64) & (np.abs(dl64 - np.floor(dl64) - 0.5) == 0)).any())
    halves_r = bool((np.isfinite(dr64) & (np.abs(dr64 - np.floor(dr64) - 0.5) == 0)).any())
    combos = [(mq, ms) for mq in (X.MODES if halves_l else X.MODES[:1]) for ms in (X.MODES if halves_r else X.MODES[:1])]
    best = None
    obs_flags = np.asarray(obs_flags).astype(np.int64)
    outside_any = np.zeros(dl64.shape, dtype=bool)
    for mq, ms in combos:
        m = X.stack_model(dl64, dr64, fl, thr, dmin, dmax, mq, ms, off)
        okf = (obs_flags == m["flags"]) | (obs_flags == m["flags_alt"])
        with np.errstate(invalid="ignore"):
            okc = ~m["conf_asserted"] | np.isclose(obs_conf, m["conf"], rtol=1e-6, atol=1e-6)
        bad = ~(okf & okc) & ~m["ambiguous"]
        nbad = int(bad.sum())
        if nbad == 0:
            return [], m, 0
        outside_any |= m["valid"] & ~m["inside"] & (m["cls"] != 6)
        if best is None or nbad < best[0]:
            best = (nbad, mq, ms, m, bad, okf, okc)
    nbad, mq, ms, m, bad, okf, okc = best
    viol = {}
    n = dl64.shape[1]
    pin = _pinning_row(obs_flags, obs_conf, dl64, dr64, fl, thr, dmin, dmax, off, mq, ms, combos)
    for r, p in np.argwhere(bad):
        f0 = int(np.asarray(fl)[r, p])
        o = int(obs_flags[r, p])
        e = int(m["flags"][r, p])
        d = float(dl64[r, p])
        c = int(m["cls"][r, p])
        ctx = (f"row dL={dl64[r].tolist()} dR={dr64[r].tolist()} flags_in={np.asarray(fl)[r].tolist()} thr={thr} "
               f"interval=[{dmin},{dmax}] offset={off} column p={p}: expected flag {e} "
               f"({'or ' + str(int(m['flags_alt'][r, p])) + ' ' if m['flags_alt'][r, p] != e else ''}"
               f"q={m['q'][r, p]:.0f}, conf {m['conf'][r, p] if m['conf_asserted'][r, p] else 'n/a'}) observed flag "
               f"{o} conf {obs_conf[r, p]}; observed row flags={obs_flags[r].tolist()} conf={obs_conf[r].tolist()}; "
               f"{len(combos)} rounding-mode pairs tried, none explains the map; closest (q:{mq}, search:{ms}) "
               f"[observed at {site}]{pin}")
        if c == 6:
            key, clause = f"C07/border/{site}/border pixel not left at bit 0 only", "border"
        elif c == 0:
            key, clause = f"C07/already-invalid/{site}/invalid pixel re-examined or altered", "already-invalid"
        elif o == f0 and outside_any[r, p] and (not okf[r, p] or np.isnan(obs_conf[r, p])):
            # left unflagged and without a consistency value (= not examined) although, under an accepted rounding of
            # dL, the correspondent is outside the image: "unflagged" needs a correspondent inside
            key = f"C07/flag/{SITE}/correspondent outside the right image left unflagged"
            clause = "outside-correspondent"
        elif _is_half(d) and _sum_rounding_explains(o, obs_conf[r, p], f0, p, d, dr64[r], thr, n, dmin,
                                                    dmax):
            key = f"C07/correspondent/{SITE}/half-integer dL: p+dL(p) rounded as a sum (depends on column parity)"
            clause = "correspondent"
        elif not okf[r, p]:
            key = (f"C07/flag/{site}/expected {_name(f0, e)} observed {_name(f0, o)} "
                   f"({'correspondent inside' if m['inside'][r, p] else 'correspondent outside'})")
            clause = "flag"
        else:
            key, clause = f"C07/confidence/{site}/left_right_consistency value", "confidence"
        viol.setdefault(key, {"clause": clause, "key": key, "detail": ctx})
    return list(viol.values()), m, nbad


def _sum_rounding_explains(o, oconf, f0, p, d, dr_row, thr, n, dmin, dmax):
    """diagnostic only (classification of an already established violation): does q' = rint(p + dL(p)) explain it?"""
    q = int(np.rint(p + d))
    kinds = set()  # occlusion / mismatch decisions under the accepted roundings of the mismatch search
    for ms in X.MODES:
        mism = any(0 <= p + k < n and np.isfinite(dr_row[p + k]) and X.round_scalar(float(dr_row[p + k]), ms) == -k
                   for k in range(int(dmin), int(dmax) + 1))
        kinds.add(f0 + (X.MIS if mism else X.OCC))
    if 0 <= q < n:
        r = dr_row[q]
        s = abs(d + r) if np.isfinite(r) else np.inf
        if np.isfinite(r) and not np.isclose(oconf, s, rtol=1e-6, atol=1e-6):
            return False
        if s <= thr:
            return o == f0
        return o in kinds
    return o in kinds or o in (f0, f0 + X.OCC)


def _pinning_row(obs_flags, obs_conf, dl, dr, fl, thr, dmin, dmax, off, mq, ms, combos):
    """a row of the same map that only the chosen mode pair explains (makes a 2-row witness self-contained)"""
    if len(combos) == 1 or off:
        return ""
    ok_rows = None
    for c in combos:
        m = X.stack_model(dl, dr, fl, thr, dmin, dmax, c[0], c[1], off)
        okf = (obs_flags == m["flags"]) | (obs_flags == m["flags_alt"])
        with np.errstate(invalid="ignore"):
            okc = ~m["conf_asserted"] | np.isclose(obs_conf, m["conf"], rtol=1e-6, atol=1e-6)
        rows_ok = (okf & okc).all(axis=1)
        if c == (mq, ms):
            mine = rows_ok
        else:
            ok_rows = rows_ok if ok_rows is None else (ok_rows | rows_ok)
    only = np.argwhere(mine & ~ok_rows)
    if len(only) == 0:
        return ""
    r = int(only[0][0])
    return (f"; a row of the same map explained by this mode pair only: dL={dl[r].tolist()} dR={dr[r].tolist()} "
            f"-> flags={obs_flags[r].tolist()} conf={obs_conf[r].tolist()}")


def _whole_map_clauses(res, conf_bands, site, viol):
    """clauses that do not depend on the rounding mode"""
    def bad(clause, what, detail):
        viol.append({"clause": clause, "key": f"C07/{clause}/{site}/{what}", "detail": detail})

    out, lb, rb = res["out"], res["left_before"], res["right_before"]
    if not D.arr_eq(out["disparity_map"].data, lb["disparity_map"].data) or not D.arr_eq(
        res["left"]["disparity_map"].data, lb["disparity_map"].data
    ):
        bad("disparity-unchanged", "left disparity map modified", "the step modified the left disparity map")
    why = D.same_dataset(res["right"], rb)
    if why:
        bad("right-untouched", "right dataset modified", f"the dataset passed as right was modified: {why}")
    if out["validity_mask"].data.dtype != np.uint16:
        bad("dtype", "validity mask dtype", f"validity_mask dtype {out['validity_mask'].data.dtype}")
    ok_band = "confidence_measure" in out and "indicator" in out.coords and \
        list(out.coords["indicator"].data)[-1:] == [VS.BAND] and \
        list(out.coords["indicator"].data).count(VS.BAND) == 1
    if not ok_band:
        bad("confidence-band", "band missing or misnamed",
            f"indicators={list(out.coords['indicator'].data) if 'indicator' in out.coords else None}")
        return None
    cm = out["confidence_measure"].data
    if cm.dtype != np.float32:
        bad("dtype", "confidence dtype", f"confidence_measure dtype {cm.dtype}")
    if conf_bands:
        if cm.shape[2] != conf_bands + 1 or not D.arr_eq(cm[:, :, :-1], lb["confidence_measure"].data) or \
                list(out.coords["indicator"].data)[:-1] != list(lb.coords["indicator"].data):
            bad("confidence-band", "existing bands altered", "pre-existing confidence bands not carried over")
    elif cm.shape[2] != 1:
        bad("confidence-band", "extra bands", f"{cm.shape[2]} bands, one expected")
    return cm[:, :, -1]


def _sigs(cfgkey, m):
    codes = m["cls"].astype(np.int64)
    w = codes.shape[1]
    weights = 7 ** np.arange(w)
    nontrivial_rows = ((codes >= 2) & (codes <= 5)).any(axis=1)
    ntvals = np.unique((codes @ weights)[nontrivial_rows])
    sigs = []
    for v in ntvals:
        s = ""
        v = int(v)
        for _ in range(w):
            s += CLS_NAMES[v % 7]
            v //= 7
        sigs.append(f"{cfgkey}|{s}")
    return sigs, int((~nontrivial_rows).sum())


def _cfgkey(case):
    return (f"w{case['w']}|fl{case.get('fl')}|t{case['thr']}|i{case['interval']}|o{case['off']}|c{case['conf']}"
            + ("|primed" if case.get("primed") else "") + ("|rechecked" if case.get("rechecked") else ""))


def _run_map(case, dl, dr, fl, fr):
    """one call of the real step on one (stacked) map + all oracle clauses"""
    thr = case["thr"]
    given = thr != "default"
    thr_val = 1.0 if not given else thr
    if case.get("rechecked"):
        res = _cross_check_rechecked(dl, dr, fl, fr, thr_val, case["interval"], case["off"])
    elif case.get("primed"):
        res = _cross_check_primed(dl, dr, fl, fr, thr_val, case["interval"], case["off"])
    else:
        res = VS.cross_check(dl, dr, fl, fr, thr=thr_val, interval=case["interval"], offset=case["off"],
                             conf=case["conf"], thr_given=given)
    viol = []
    if res["error"] is not None:
        viol.append({"clause": "totality", "key": f"C07/totality/disparity_checking/{type(res['error']).__name__}",
                     "detail": f"disparity_checking raised {res['error']!r} on dL={np.asarray(dl)[:3].tolist()}..."})
        return viol, None
    if case.get("rechecked"):
        out = res["out"]
        inds = list(out.coords["indicator"].data) if "confidence_measure" in out else []
        if VS.BAND not in inds:
            viol.append({"clause": "confidence-band", "key": "C07/confidence-band/disparity_checking/band missing after "
                         "a second check", "detail": f"indicators after the second cross-checking: {inds}"})
            return viol, None
        # the layer of that name written last is the one this check produced
        conf = out["confidence_measure"].data[:, :, max(i for i, x in enumerate(inds) if x == VS.BAND)]
    else:
        conf = _whole_map_clauses(res, case["conf"], "disparity_checking", viol)
    if conf is None:
        return viol, None
    v, m, _ = judge(res["out"]["validity_mask"].data, conf, dl, dr, fl, float(thr_val), case["interval"][0],
                    case["interval"][1], case["off"])
    return viol + v, m


def _cross_check_primed(dl, dr, fl, fr, thr, interval, offset):
    """
    the step object is used twice, as PandoraMachine.validation_run does (left against right, then right against
    left with the mirrored interval): the map under test goes through the SECOND call of the same object, the first
    call having seen the mirrored problem.  The result must not depend on what the object did before.
    """
    from pandora import validation  # pylint: disable=import-outside-toplevel

    dl = np.asarray(dl, dtype=np.float32)
    dr = np.asarray(dr, dtype=np.float32)
    window = 1 + 2 * offset
    left = D.disparity(dl, validity=fl, interval=[interval[0], interval[1]], window_size=window)
    right = D.disparity(dr, validity=fr, interval=[-interval[1], -interval[0]], window_size=window)
    res = {"left": left, "right": right, "left_before": left.copy(deep=True), "right_before": right.copy(deep=True),
           "out": None, "error": None}
    try:
        step = validation.AbstractValidation(validation_method="cross_checking_accurate", cross_checking_threshold=thr)
        step.disparity_checking(right.copy(deep=True), left.copy(deep=True))  # first use: the mirrored problem
        res["out"] = step.disparity_checking(left, right)
    except Exception as e:  # pylint: disable=broad-except
        res["error"] = e
    return res


def _cross_check_rechecked(dl, dr, fl, fr, thr, interval, offset):
    """
    the datasets were already cross-checked once (with other left disparities), so the consistency band exists when
    the map under test is checked: a band of that name must hold the distances of THIS check afterwards
    """
    from pandora import validation  # pylint: disable=import-outside-toplevel

    dl = np.asarray(dl, dtype=np.float32)
    dr = np.asarray(dr, dtype=np.float32)
    window = 1 + 2 * offset
    first = np.roll(dl, 1, axis=1)
    left = D.disparity(first, validity=fl, interval=[interval[0], interval[1]], window_size=window)
    right = D.disparity(dr, validity=fr, interval=[-interval[1], -interval[0]], window_size=window)
    res = {"left": left, "right": right, "left_before": None, "right_before": right.copy(deep=True),
           "out": None, "error": None}
    try:
        step = validation.AbstractValidation(validation_method="cross_checking_accurate", cross_checking_threshold=thr)
        step.disparity_checking(left, right)
        # a later step changed the disparities; the map is examined again from its incoming flags
        left["disparity_map"].data[...] = dl
        left["validity_mask"].data[...] = np.asarray(fl, dtype=left["validity_mask"].dtype)
        res["left_before"] = left.copy(deep=True)
        res["out"] = step.disparity_checking(left, right)
    except Exception as e:  # pylint: disable=broad-except
        res["error"] = e
    return res


def run_case(case):
    if case["kind"] == "machine":
        return run_machine(case)
    rows = rows_of(case["alpha"], case["w"])
    n = len(rows)
    w = case["w"]
    rflags = np.array(RIGHT_FLAGS, dtype=np.uint16)
    if case["kind"] == "single":
        viol = {}
        sigs = set()
        trivial = 0
        dl = rows[case["i"]][None, :]
        fl = np.zeros((1, w), dtype=np.uint16)
        for k in range(n):
            dr = rows[k][None, :]
            fr = rflags[(np.arange(w) + k + case["rot"]) % len(rflags)][None, :]
            v, m = _run_map(dict(case, fl=[0] * w), dl, dr, fl, fr)
            for x in v:
                viol.setdefault(x["key"], x)
            if m is not None:
                s, t = _sigs("single|" + _cfgkey(dict(case, fl=None)), m)
                sigs.update(s)
                trivial += t
                _cross_check_models(dl, dr, fl, case)
        return {"n": n, "sigs": sorted(sigs), "viol": list(viol.values()), "trivial": trivial}
    k = np.arange(n)
    li = (case["i"] + case["stride"] * k) % n
    dl = rows[li]
    dr = rows[k]
    fl = np.tile(np.array(case["fl"], dtype=np.uint16), (n, 1))
    fr = rflags[(k[:, None] * 3 + np.arange(w)[None, :] + case["rot"]) % len(rflags)]
    v, m = _run_map(case, dl, dr, fl, fr)
    if m is None:
        return {"n": n, "sigs": [], "viol": v}
    if case["i"] % 16 == 0:
        _cross_check_models(dl[:: max(1, n // 64)], dr[:: max(1, n // 64)], fl[:: max(1, n // 64)], case)
    sigs, trivial = _sigs(_cfgkey(case), m)
    return {"n": n, "sigs": sigs, "viol": v, "trivial": trivial}


def _cross_check_models(dl, dr, fl, case):
    """the vectorised model must agree with the plain-loop transcription (harness self-check, not a verdict)"""
    thr = 1.0 if case["thr"] == "default" else float(case["thr"])
    for mq, ms in (("even", "even"), ("away", "up"), ("up", "away")):
        mm = X.stack_model(dl, dr, fl, thr, case["interval"][0], case["interval"][1], mq, ms, 0)
        for r in range(len(dl)):
            f, a, c = X.row_model(dl[r], dr[r], fl[r], thr, case["interval"][0], case["interval"][1], mq, ms)
            if f != mm["flags"][r].tolist() or a != mm["flags_alt"][r].tolist():
                raise AssertionError(f"reference models disagree on flags: {dl[r]} {dr[r]} {fl[r]} {mq} {ms}")
            for p, cv in enumerate(c):
                if (cv is not None) != bool(mm["conf_asserted"][r, p]) or (cv is not None and cv != mm["conf"][r, p]):
                    raise AssertionError(f"reference models disagree on confidence: {dl[r]} {dr[r]} {mq} {ms}")


# ----------------------------------------------------------------------------------------------
# machine level
# ----------------------------------------------------------------------------------------------
def run_machine(case):
    from mc.drivers import pipeline as P  # pylint: disable=import-outside-toplevel

    limg, rimg = VS.images_of(case)
    obs = P.run_observed(limg, rimg, VS.pipeline_of(case), snapshot=("disp",))
    if obs.error is not None:
        raise RuntimeError(f"pipeline failed in {obs.error[0]}: {obs.error[1]!r}")  # harness: the menu must be legal
    steps = obs.steps
    if steps[-1]["step"] != "validation" or len(steps) < 2:
        raise RuntimeError("validation is not the last observed step")
    pre, post = steps[-2], steps[-1]
    viol = {}
    sigs = set()
    trivial = 0
    off = int(pre["left_disp"].attrs["offset_row_col"])
    sides = [("left", pre["left_disp"], pre["right_disp"], post["left_disp"]),
             ("right", pre["right_disp"], pre["left_disp"], post["right_disp"])]
    for side, a, b, out in sides:
        site = f"validation_run/{side} map"
        dl, dr, fl = a["disparity_map"].data, b["disparity_map"].data, a["validity_mask"].data
        itv = a["disparity_interval"].data
        dmin, dmax = int(itv[0]), int(itv[1])
        if not D.arr_eq(out["disparity_map"].data, dl):
            viol.setdefault(f"C07/disparity-unchanged/{site}", {
                "clause": "disparity-unchanged", "key": f"C07/disparity-unchanged/{site}",
                "detail": "validation without interpolation changed the disparity map"})
        inds = list(out.coords["indicator"].data) if "indicator" in out.coords else []
        if inds.count(VS.BAND) != 1:
            viol.setdefault(f"C07/confidence-band/{site}", {
                "clause": "confidence-band", "key": f"C07/confidence-band/{site}", "detail": f"indicators {inds}"})
            continue
        conf = out["confidence_measure"].data[:, :, inds.index(VS.BAND)]
        v, m, _ = judge(out["validity_mask"].data, conf, dl, dr, fl, float(case["thr"]), dmin, dmax, off, site)
        for x in v:
            viol.setdefault(x["key"], x)
        s, _ = _sigs(f"machine|{side}|t{case['thr']}|o{off}", m)
        sigs.update(s)
        trivial += 0 if s else 1
    return {"n": 2, "sigs": sorted(sigs), "viol": list(viol.values()), "trivial": trivial}


def init_worker():
    run_case({"kind": "single", "alpha": "s5", "w": 1, "i": 0, "rot": 0, "thr": 1.0, "interval": [-2, 2], "off": 0,
              "conf": 0})
