"""
C11 - cross-based aggregation averages costs over the combined support region (DESIGN.md section 3, C11).

Enumerated on the real `CrossBasedCostAggregation.cost_volume_aggregation`:
  * image pairs over the jump-rich alphabet {0,10,40,45,80} (differences equal to / just below the intensity
    thresholds 30 and 5.5), shapes 2x4 .. 6x7, window offset 0/1, subpix 1/2(/4), several disparity intervals,
    cbca_distance {1,2,3,5}, cbca_intensity {30, 5.5};
  * masks: level 0 none, level 1 every single masked pixel of either image, level 2 every pair of masked pixels
    (nodata and invalid mask values alternate);
  * three input cost volumes per configuration: the real matching cost (sad / ssd, exact in float32), a 'bitmask'
    volume with the real NaN pattern where the i-th pixel of a plane costs 2^i (the aggregated sum is the set of
    pixels included), and a bitmask volume that is finite wherever the corresponding column exists (so a masked
    pixel wrongly included shows in the sum, not only in the count);
  * machine level: the real `pandora.run` with matching_cost -> aggregation -> disparity (-> cross-checking, which
    aggregates the right cost volume with the images swapped), observed before/after the aggregation step.
Oracle: mc/ref/cbca.py (plain loops over pixels and arm pixels), exact float32 comparison; NaN in <=> NaN out;
each plane aggregated alone gives the same plane.
"""
from __future__ import annotations

import hashlib
import itertools

import numpy as np

from mc.drivers import cbca_inputs as CI
from mc.drivers import datasets as D
from mc.ref import cbca as RC

ID = "C11"
LEVEL = "exploration"
BUDGET = {"quick": 300, "thorough": 3600}
CHUNK = 4
RULE = (
    "cases = (shape, radiometry table, masked cells, window, subpix, interval) and inside each case the product "
    "cbca_distance x cbca_intensity x input volume kind (real cost, bitmask with the real NaN pattern, bitmask finite "
    "wherever the corresponding column exists); one evaluation = one aggregation call compared cell by cell with the "
    "reference; an evaluation is non-trivial when the input volume holds both NaN and finite costs and the aggregation "
    "changed at least one cost; distinct = distinct (parameters, digest of the aggregated volume)"
)
ASSUMPTIONS = [
    "the image the arms live in is the computable area of the cost volume (images cropped by the window offset), as "
    "the cost volume has no cost outside it",
    "cells whose corresponding column c + floor(d) does not exist in the (shifted) right image have no combined arm: "
    "they are NaN in every enumerated input volume and only the NaN in <=> NaN out clause applies to them",
    "radiometry over {0,10,40,45,80}, sad/ssd/census costs and bitmask costs: all sums exact in float32, so the "
    "comparison is exact",
    "shapes up to 6x7 (thorough 7x6), at most 2 masked pixels (thorough: 3 on 3x4), all placements, plus the "
    "machine-level pipelines; images with a single row or column - including the sub-pixel shifted right image of a "
    "2-column pair - are excluded (the internal 3x3 median filter raises on them: the C10 undersized-image clause)",
    "scalar disparity intervals only (a grid only changes the NaN pattern of the input volume), disparity magnitudes "
    "smaller than the image width (the matching cost step raises beyond, which is another property's finding)",
]

SITE = "cost_volume_aggregation"
DISTS = [1, 2, 3, 5]
TAUS = [30.0, 5.5]


# ----------------------------------------------------------------------------------------------
# spaces
# ----------------------------------------------------------------------------------------------
def _cells(ny, nx):
    return [(r, c) for r in range(ny) for c in range(nx)]


def _mask_value(r, c, side):
    return 1 + (r + c + side) % 2  # 1 = nodata, 2 = invalid


def _single_masks(ny, nx):
    out = []
    for side in (0, 1):
        for r, c in _cells(ny, nx):
            cell = [[r, c, _mask_value(r, c, side)]]
            out.append((cell, []) if side == 0 else ([], cell))
    return out


def _pair_masks(ny, nx):
    allc = [(s, r, c) for s in (0, 1) for r, c in _cells(ny, nx)]
    out = []
    for a, b in itertools.combinations(allc, 2):
        lm, rm = [], []
        for s, r, c in (a, b):
            (lm if s == 0 else rm).append([r, c, _mask_value(r, c, s)])
        out.append((lm, rm))
    return out


def _case(ny, nx, tab, lm, rm, win, subpix, interval, dists, taus, kinds, method="sad", indep=True):
    return {"kind": "direct", "ny": ny, "nx": nx, "tab": tab, "lm": lm, "rm": rm, "win": win, "subpix": subpix,
            "dmin": interval[0], "dmax": interval[1], "dists": dists, "taus": taus, "kinds": kinds,
            "method": method, "indep": indep}


def spaces(tier, seed):
    quick = tier == "quick"
    kinds3 = ["real", "bits", "bitsfull"]
    # ---- level 0: no mask
    l0 = []
    shapes0 = [(2, 4), (3, 3), (3, 4), (4, 5), (5, 6), (6, 7)] if quick else \
        [(2, 2), (2, 4), (3, 2), (3, 3), (3, 4), (4, 3), (4, 5), (5, 4), (5, 6), (6, 7), (7, 6)]
    tabs = [2 * seed, 2 * seed + 1] if quick else [4 * seed + i for i in range(4)]
    intervals = [(-2, 2), (1, 3)] if quick else [(-2, 2), (1, 3), (-3, -1), (0, 0), (-4, 4)]
    for (ny, nx) in shapes0:
        for tab in tabs:
            for win in (1, 3):
                if min(ny, nx) < win:
                    continue
                for subpix in ((1, 2) if quick else (1, 2, 4)):
                    if subpix > 1 and nx < 3:
                        continue  # the shifted right image has a single column (see ASSUMPTIONS)
                    for iv in intervals:
                        if max(abs(iv[0]), abs(iv[1])) >= nx:
                            continue  # the matching cost itself raises there (C02's business, see ASSUMPTIONS)
                        # ssd of quarter-pixel samples needs more than 24 bits in the integral images: not exact
                        methods = ["sad"] if quick or subpix == 4 else ["sad", "ssd"]
                        for m in methods:
                            l0.append(_case(ny, nx, tab, [], [], win, subpix, iv, DISTS, TAUS,
                                            kinds3 if m == "sad" else ["real"], m, indep=tab in tabs[:2]))
    if quick:
        # quarter-pixel planes (negative and positive fractional disparities select different shifted right images):
        # a slice of the thorough subpix-4 space so that the quick tier sees every plane class
        for (ny, nx) in [(3, 4), (4, 5)]:
            for iv in [(-2, 1), (-1, 2)]:
                l0.append(_case(ny, nx, tabs[0], [], [], 1, 4, iv, DISTS, TAUS, kinds3, "sad", indep=True))
    # ---- level 1: one masked pixel anywhere in either image
    l1 = []
    shapes1 = [((3, 4), (1, 3)), ((4, 5), (1, 3))] if quick else \
        [((2, 4), (1,)), ((3, 3), (1, 3)), ((3, 4), (1, 3)), ((4, 5), (1, 3)), ((5, 6), (1, 3)), ((6, 7), (1, 3))]
    for (ny, nx), wins in shapes1:
        for lm, rm in _single_masks(ny, nx):
            for win in wins:
                for subpix in (1, 2):
                    l1.append(_case(ny, nx, seed, lm, rm, win, subpix, (-1, 1), DISTS, TAUS, kinds3))
    # ---- level 2: two masked pixels
    l2 = []
    shapes2 = [(3, 4)] if quick else [(3, 4), (4, 5)]
    for (ny, nx) in shapes2:
        for i, (lm, rm) in enumerate(_pair_masks(ny, nx)):
            for subpix in (1, 2):
                l2.append(_case(ny, nx, seed + 1, lm, rm, 1, subpix, (-1, 1), DISTS, TAUS, ["real", "bits"],
                                indep=False))
    # ---- thorough only: three masked pixels
    l2b = []
    if not quick:
        allc = [(sd, r, c) for sd in (0, 1) for r, c in _cells(3, 4)]
        for trio in itertools.combinations(allc, 3):
            lm, rm = [], []
            for sd, r, c in trio:
                (lm if sd == 0 else rm).append([r, c, _mask_value(r, c, sd)])
            for subpix in (1 + (len(l2b) + seed) % 2,):
                l2b.append(_case(3, 4, seed + 2, lm, rm, 1, subpix, (-1, 1), DISTS, TAUS, ["real", "bits"],
                                 indep=False))
    # ---- level 3: the aggregation step inside the real machine
    l3 = []
    for (ny, nx) in ([(5, 6)] if quick else [(5, 6), (6, 7)]):
        for pi in range(4):
            for (lm, rm) in ([], []), ([[1, 2, 1]], [[3, 3, 2]]):
                for dist in ((1, 3) if quick else DISTS):
                    l3.append({"kind": "machine", "ny": ny, "nx": nx, "tab": seed, "lm": lm, "rm": rm, "pipe": pi,
                               "dist": dist, "tau": TAUS[(pi + dist) % 2]})
    return [
        {"name": "no mask: shapes x tables x window x subpix x interval x distance x intensity x volume kind",
         "level": 0, "cases": l0},
        {"name": "every single masked pixel (either image)", "level": 1, "cases": l1},
        {"name": "every pair of masked pixels (either image)", "level": 2, "cases": l2},
        {"name": "aggregation step observed inside pandora.run (left and right cost volumes)", "level": 3,
         "cases": l3, "chunk": 1},
    ] + ([{"name": "every triple of masked pixels (3x4, either image)", "level": 4, "cases": l2b}] if l2b else [])


# ----------------------------------------------------------------------------------------------
# oracle
# ----------------------------------------------------------------------------------------------
def _same(a, b):
    return (a == b) | (np.isnan(a) & np.isnan(b))


def _fmt_cells(cells):
    return "[" + " ".join(f"({r},{c})" for r, c in cells) + "]"


def compare(model, costs, disps, got, viol, ctx, bits_part=None):
    """all value clauses of one aggregation call; `costs` input volume, `got` aggregated volume"""
    def bad(clause, cls, detail):
        viol.append({"clause": clause, "key": f"C11/{clause}/{SITE}/{cls}", "detail": f"{ctx}: {detail}"})

    if got.dtype != np.float32 or got.shape != costs.shape:
        bad("dtype-shape", "any", f"aggregated volume is {got.dtype}{got.shape}, input float32{costs.shape}")
        return None
    nan_in, nan_out = np.isnan(costs), np.isnan(got)
    if (nan_in & ~nan_out).any():
        r, c, k = np.argwhere(nan_in & ~nan_out)[0]
        bad("nan-stays-nan", "NaN input cost", f"cost ({r},{c}) d={disps[k]} was NaN, is {got[r, c, k]} after aggregation")
    if (~nan_in & nan_out).any():
        r, c, k = np.argwhere(~nan_in & nan_out)[0]
        bad("no-new-nan", "finite input cost", f"cost ({r},{c}) d={disps[k]} was {costs[r, c, k]}, is NaN after "
            "aggregation")
    exp, und = model.aggregate(costs, disps)
    diff = ~_same(exp, got) & ~und & ~nan_in & ~nan_out
    if diff.any():
        off = model.offset
        r, c, k = np.argwhere(diff)[0]
        d = float(disps[k])
        reg = model.region(r - off, c - off, d)
        near = model.masked_near(r - off, c - off, d)
        cls = ("cbca_distance==1" if model.distance == 1 else "cbca_distance>=2") + (
            " next to a masked pixel" if near else ", no masked pixel near")
        regf = [(a + off, b + off) for a, b in reg]
        extra = ""
        if bits_part is not None:
            # diagnostics only: which pixel set does the observed value stand for (closest support size first)
            for n in sorted(range(1, 60), key=lambda m: abs(m - len(reg))):
                val = float(np.float64(got[r, c, k]) * n)
                if not np.isfinite(val) or abs(val - round(val)) > 1e-6 * max(1.0, abs(val)):
                    continue
                dec = CI.decode_bits(float(round(val)), bits_part, costs.shape[:2], off)
                if dec is not None:
                    extra = f"; observed value x {n} decodes to the pixel set {_fmt_cells(dec)}"
                    break
        bad("support-average", cls,
            f"pixel ({r},{c}) d={d}: expected {float(exp[r, c, k])!r} = sum of the computable costs over the {len(reg)}-pixel "
            f"region {_fmt_cells(regf)}, got {float(got[r, c, k])!r} (input cost {float(costs[r, c, k])!r}; "
            f"{int(diff.sum())} cells differ){extra}")
    return exp


def _aggregate(dl, dr, cv, dist, tau, viol, ctx):
    """
    the real aggregation.  The statement says what every cost becomes, so an exception on a well-formed input is a
    verdict (clause 'totality'), not a harness error: it is recorded in `viol` and None is returned.
    """
    from pandora import aggregation  # pylint: disable=import-outside-toplevel

    agg = aggregation.AbstractAggregation(
        **{"aggregation_method": "cbca", "cbca_intensity": tau, "cbca_distance": dist}
    )
    try:
        agg.cost_volume_aggregation(dl, dr, cv)
    except Exception as e:  # pylint: disable=broad-except
        viol.append({"clause": "totality", "key": f"C11/totality/{SITE}/{type(e).__name__}",
                     "detail": f"{ctx}: the aggregation raised {type(e).__name__}: {e}"})
        return None
    return cv["cost_volume"].data


def _digest(a):
    return hashlib.sha1(np.nan_to_num(np.ascontiguousarray(a), nan=-7777.0).tobytes()).hexdigest()[:12]


def _undefined(model, shape, disps):
    """cells without corresponding column, plus the window border"""
    ny, nx, nd = shape
    off = model.offset
    und = np.ones(shape, dtype=bool)
    for k, d in enumerate(disps):
        fl, p = RC.plane_of(float(d), model.subpix)
        w = model.right_f[p].shape[1]
        for c in range(nx - 2 * off):
            if 0 <= c + fl < w:
                und[off: ny - off, c + off, k] = False
    return und


def run_direct(case):
    ny, nx = case["ny"], case["nx"]
    dl, dr, left, right, lm, rm = CI.pair(ny, nx, case["tab"], case["lm"], case["rm"], case["dmin"], case["dmax"])
    cv0 = CI.real_cost_volume(dl, dr, case["method"], case["win"], case["subpix"])
    real = cv0["cost_volume"].data.copy()
    disps = np.asarray(cv0.coords["disp"].data, dtype=np.float64)
    off = int(cv0.attrs["offset_row_col"])
    viol, sigs = [], []
    n = trivial = 0
    for dist in case["dists"]:
        for tau in case["taus"]:
            model = RC.Model(left, lm, right, rm, case["subpix"], off, dist, tau)
            und = _undefined(model, real.shape, disps)
            if (~np.isnan(real) & und).any():
                # the real matching cost is finite where no corresponding column exists: not this property's
                # business (C02), but the reference has nothing to say there -> keep those cells out
                pass
            npix = (ny - 2 * off) * (nx - 2 * off)
            for kind in case["kinds"]:
                if kind == "real":
                    volumes = [(real, None)]
                else:
                    nanmask = (np.isnan(real) | und) if kind == "bits" else und
                    volumes = [(CI.bitmask_costs(real.shape, nanmask, p, off), p) for p in range((npix + 23) // 24)]
                for costs, part in volumes:
                    cv = cv0.copy(deep=True)
                    cv["cost_volume"].data[:] = costs
                    ctx = (f"{ny}x{nx} table {case['tab']} lmask={case['lm']} rmask={case['rm']} {case['method']} "
                           f"window={case['win']} subpix={case['subpix']} disp=[{case['dmin']},{case['dmax']}] "
                           f"cbca_distance={dist} cbca_intensity={tau} volume={kind}")
                    got = _aggregate(dl, dr, cv, dist, tau, viol, ctx)
                    n += 1
                    if got is None:
                        trivial += 1
                        continue
                    compare(model, costs, disps, got, viol, ctx, part)
                    changed = bool((~_same(costs, got)).any())
                    if np.isnan(costs).any() and np.isfinite(costs).any() and changed:
                        sigs.append(f"{case['win']}|{case['subpix']}|{dist}|{tau}|{kind}|{_digest(got)}")
                    else:
                        trivial += 1
                    if case.get("indep") and kind != "bitsfull":
                        for k in range(len(disps)):
                            one = cv0.isel(disp=[k]).copy(deep=True)
                            one["cost_volume"].data[:] = costs[:, :, k: k + 1]
                            g1 = _aggregate(dl, dr, one, dist, tau, viol, ctx + f" plane {disps[k]} alone")
                            n += 1
                            if g1 is not None and not D.arr_eq(g1[:, :, 0], got[:, :, k]):
                                w = np.argwhere(~_same(g1[:, :, 0], got[:, :, k]))[0]
                                viol.append({
                                    "clause": "plane-independence",
                                    "key": f"C11/plane-independence/{SITE}/plane aggregated alone",
                                    "detail": f"{ctx}: plane d={disps[k]} aggregated alone gives {g1[w[0], w[1], 0]!r} at "
                                              f"({w[0]},{w[1]}), inside the {len(disps)}-plane volume {got[w[0], w[1], k]!r}"})
    return {"n": n, "sigs": sigs, "viol": _dedup(viol), "trivial": trivial}


def _dedup(viol):
    seen, out = set(), []
    for v in viol:
        if v["key"] not in seen:
            seen.add(v["key"])
            out.append(v)
    return out


# ----------------------------------------------------------------------------------------------
# machine level
# ----------------------------------------------------------------------------------------------
def _pipeline(pi, dist, tau):
    from mc.drivers import pipeline as P  # pylint: disable=import-outside-toplevel

    cbca = {"aggregation_method": "cbca", "cbca_intensity": tau, "cbca_distance": dist}
    if pi == 0:
        steps = [("matching_cost", P.mc("sad", 1, 1)), ("aggregation", cbca), ("disparity", P.WTA)]
    elif pi == 1:
        steps = [("matching_cost", P.mc("sad", 3, 2)), ("aggregation", cbca), ("disparity", P.WTA)]
    elif pi == 2:
        steps = [("matching_cost", P.mc("census", 3, 1)), ("aggregation", cbca), ("disparity", P.WTA),
                 ("validation", P.CROSS)]
    else:
        steps = [("matching_cost", P.mc("ssd", 1, 2)), ("aggregation", cbca), ("disparity", P.WTA),
                 ("filter", P.MEDIAN), ("validation", P.CROSS)]
    return P.name_steps(steps)


def run_machine(case):
    from mc.drivers import pipeline as P  # pylint: disable=import-outside-toplevel

    ny, nx = case["ny"], case["nx"]
    dl, dr, left, right, lm, rm = CI.pair(ny, nx, case["tab"], case["lm"], case["rm"], -2, 1)
    pipe = _pipeline(case["pipe"], case["dist"], case["tau"])
    obs = P.run_observed(dl, dr, pipe, snapshot=("cv",))
    if obs.error:
        phase, err = obs.error
        done = [s["step"] for s in obs.steps]
        if phase == "run" and done == ["matching_cost"]:
            return {"n": 1, "sigs": [], "trivial": 1, "viol": [{
                "clause": "totality", "key": f"C11/totality/{SITE}/{type(err).__name__}",
                "detail": f"pandora.run {list(pipe)} on a {ny}x{nx} pair lmask={case['lm']} rmask={case['rm']}: the "
                          f"aggregation step raised {type(err).__name__}: {err}"}]}
        raise err
    before = [s for s in obs.steps if s["step"] == "matching_cost"][-1]
    after = [s for s in obs.steps if s["step"] == "aggregation"][-1]
    subpix = pipe["matching_cost"]["subpix"]
    viol, sigs = [], []
    n = trivial = 0
    sides = [("left_cv", left, lm, right, rm)]
    if "validation" in pipe:
        sides.append(("right_cv", right, rm, left, lm))
        if after["right_cv"] is None:
            viol.append({"clause": "machine-binding", "key": f"C11/machine-binding/aggregation_run/right volume",
                         "detail": "no right cost volume after the aggregation step of a cross-checking pipeline"})
            sides.pop()
    for name, im1, m1, im2, m2 in sides:
        cv_in, cv_out = before[name], after[name]
        costs = cv_in["cost_volume"].data
        disps = np.asarray(cv_in.coords["disp"].data, dtype=np.float64)
        off = int(cv_in.attrs["offset_row_col"])
        model = RC.Model(im1, m1, im2, m2, subpix, off, case["dist"], case["tau"])
        ctx = (f"pandora.run {list(pipe)} {name} {ny}x{nx} table {case['tab']} lmask={case['lm']} rmask={case['rm']} "
               f"matching_cost={pipe['matching_cost']} cbca_distance={case['dist']} cbca_intensity={case['tau']}")
        got = cv_out["cost_volume"].data
        und = _undefined(model, costs.shape, disps)
        # cells without corresponding column: only the NaN clauses apply (compare() skips them by `und`)
        compare(model, costs, disps, got, viol, ctx)
        if not np.isnan(costs[und]).all():
            trivial += 0  # nothing to assert: not C11's business
        n += 1
        if np.isnan(costs).any() and np.isfinite(costs).any() and (~_same(costs, got)).any():
            sigs.append(f"m|{case['pipe']}|{name}|{case['dist']}|{case['tau']}|{_digest(got)}")
        else:
            trivial += 1
    return {"n": n, "sigs": sigs, "viol": _dedup(viol), "trivial": trivial}


def run_case(case):
    if case["kind"] == "direct":
        return run_direct(case)
    return run_machine(case)


def init_worker():
    run_case(_case(3, 4, 0, [], [], 1, 2, (-1, 1), [2], [30.0], ["real"]))
