"""
In-memory datasets in exactly the forms Pandora's API documents / produces.

image(...)       what create_dataset_from_inputs returns (mono: 2-D im without band_im)
metadata(...)    what get_metadata returns (for check_conf / check_pipeline_section)
cost_volume(...) what allocate_cost_volume + validity_mask produce (synthetic costs allowed)
disparity(...)   what WinnerTakesAll.to_disp returns
"""
from __future__ import annotations

import copy

import numpy as np
import xarray as xr

VALID, NODATA, INVALID = 0, 1, 2  # msk conventions used by the driver (valid_pixels=0, no_data_mask=1)


def image(im, disp=None, msk=None, bands=None, origin=(0, 0), nodata=-9999, disparity_source="same",
          classif=None, segm=None, attrs=None) -> xr.Dataset:
    """
    :param im: (row, col) or (band, row, col) array
    :param disp: None | (dmin, dmax) scalars | (grid_min, grid_max) arrays
    :param msk: None or (row, col) int array using the dataset convention (0 valid, 1 nodata, other invalid)
    """
    im = np.asarray(im, dtype=np.float32)
    r0, c0 = origin
    if im.ndim == 2:
        ny, nx = im.shape
        data = {"im": (["row", "col"], im.copy())}
        coords = {"row": np.arange(r0, r0 + ny), "col": np.arange(c0, c0 + nx)}
    else:
        nb, ny, nx = im.shape
        data = {"im": (["band_im", "row", "col"], im.copy())}
        coords = {
            "band_im": list(bands) if bands is not None else [f"b{i}" for i in range(nb)],
            "row": np.arange(r0, r0 + ny),
            "col": np.arange(c0, c0 + nx),
        }
    at = {"no_data_img": nodata, "crs": None, "transform": None, "valid_pixels": 0, "no_data_mask": 1}
    ds = xr.Dataset(data, coords=coords, attrs=at)
    if disp is not None:
        ds.coords["band_disp"] = ["min", "max"]
        dmin, dmax = disp
        if np.ndim(dmin) == 0:
            # like add_disparity with a list: np.full of python ints -> int64 grid
            arr = np.array([np.full((ny, nx), dmin), np.full((ny, nx), dmax)])
            src = [dmin, dmax]
        else:
            arr = np.array([np.asarray(dmin, dtype=np.float32), np.asarray(dmax, dtype=np.float32)])
            src = "grid.tif"
        ds["disparity"] = xr.DataArray(arr, dims=["band_disp", "row", "col"])
        ds.attrs["disparity_source"] = src if disparity_source == "same" else disparity_source
    else:
        ds.attrs["disparity_source"] = None if disparity_source == "same" else disparity_source
    if classif is not None:
        classif = np.asarray(classif, dtype=np.int16)
        ds.coords["band_classif"] = [f"c{i}" for i in range(classif.shape[0])]
        ds["classif"] = xr.DataArray(classif, dims=["band_classif", "row", "col"])
    if segm is not None:
        ds["segm"] = xr.DataArray(np.asarray(segm, dtype=np.int16), dims=["row", "col"])
    if msk is not None:
        ds["msk"] = xr.DataArray(np.asarray(msk, dtype=np.int16).copy(), dims=["row", "col"])
    if attrs:
        ds.attrs.update(attrs)
    return ds


def metadata(ny, nx, bands=(None,), disp=(-2, 2), classif_bands=None, segm=False) -> xr.Dataset:
    """dataset as returned by img_tools.get_metadata (no image samples)"""
    ds = xr.Dataset(data_vars={}, coords={"band_im": list(bands), "row": np.arange(ny), "col": np.arange(nx)})
    if disp is not None:
        ds.coords["band_disp"] = ["min", "max"]
        if isinstance(disp, str):
            ds["disparity"] = xr.DataArray(np.zeros((2, ny, nx), dtype=np.float32), dims=["band_disp", "row", "col"])
        else:
            ds["disparity"] = xr.DataArray(
                np.array([np.full((ny, nx), disp[0]), np.full((ny, nx), disp[1])]), dims=["band_disp", "row", "col"]
            )
    ds.attrs["disparity_source"] = disp
    if classif_bands:
        ds.coords["band_classif"] = list(classif_bands)
        ds["classif"] = xr.DataArray(
            np.zeros((len(classif_bands), ny, nx), dtype=np.int16), dims=["band_classif", "row", "col"]
        )
    if segm:
        ds["segm"] = xr.DataArray(np.zeros((ny, nx), dtype=np.int16), dims=["row", "col"])
    return ds


def cost_volume(costs, disps, type_measure="min", window_size=1, subpix=1, validity=None, confidence=None,
                indicators=None, origin=(0, 0), cmax=None, measure="sad", extra_attrs=None) -> xr.Dataset:
    """
    synthetic cost volume dataset (row, col, disp) float32, as left by compute_cost_volume/cv_masked
    """
    costs = np.asarray(costs, dtype=np.float32)
    ny, nx, _ = costs.shape
    r0, c0 = origin
    ds = xr.Dataset(
        {"cost_volume": (["row", "col", "disp"], costs.copy())},
        coords={"row": np.arange(r0, r0 + ny), "col": np.arange(c0, c0 + nx), "disp": np.asarray(disps)},
    )
    ds.attrs = {
        "no_data_img": -9999,
        "crs": None,
        "transform": None,
        "valid_pixels": 0,
        "no_data_mask": 1,
        "disparity_source": [int(np.floor(min(disps))), int(np.ceil(max(disps)))],
        "sampling_interval": 1,
        "col_to_compute": np.arange(c0, c0 + nx),
        "window_size": window_size,
        "subpixel": subpix,
        "band_correl": None,
        "offset_row_col": int((window_size - 1) / 2),
        "measure": measure,
        "type_measure": type_measure,
        "cmax": cmax if cmax is not None else float(np.nanmax(costs)) if np.isfinite(costs).any() else 0.0,
    }
    if extra_attrs:
        ds.attrs.update(extra_attrs)
    vm = np.zeros((ny, nx), dtype=np.uint16) if validity is None else np.asarray(validity, dtype=np.uint16).copy()
    ds["validity_mask"] = xr.DataArray(vm, dims=["row", "col"])
    if confidence is not None:
        confidence = np.asarray(confidence, dtype=np.float32)
        ds.coords["indicator"] = list(indicators) if indicators else [f"ind{i}" for i in range(confidence.shape[2])]
        ds["confidence_measure"] = xr.DataArray(confidence.copy(), dims=["row", "col", "indicator"])
    return ds


def disparity(disp_map, validity=None, interval=None, confidence=None, indicators=None, origin=(0, 0),
              window_size=1, subpix=1, type_measure="min", extra_attrs=None) -> xr.Dataset:
    """disparity dataset as returned by WinnerTakesAll.to_disp"""
    d = np.asarray(disp_map, dtype=np.float32)
    ny, nx = d.shape
    r0, c0 = origin
    ds = xr.Dataset(
        {"disparity_map": (["row", "col"], d.copy())},
        coords={"row": np.arange(r0, r0 + ny), "col": np.arange(c0, c0 + nx)},
    )
    if interval is not None:
        ds["disparity_interval"] = xr.DataArray(np.asarray(interval), coords=[("disparity", ["min", "max"])])
    vm = np.zeros((ny, nx), dtype=np.uint16) if validity is None else np.asarray(validity, dtype=np.uint16).copy()
    ds["validity_mask"] = xr.DataArray(vm, dims=["row", "col"])
    if confidence is not None:
        confidence = np.asarray(confidence, dtype=np.float32)
        ds.coords["indicator"] = list(indicators) if indicators else [f"ind{i}" for i in range(confidence.shape[2])]
        ds["confidence_measure"] = xr.DataArray(confidence.copy(), dims=["row", "col", "indicator"])
    ds.attrs = {
        "no_data_img": -9999,
        "crs": None,
        "transform": None,
        "valid_pixels": 0,
        "no_data_mask": 1,
        "disparity_source": list(interval) if interval is not None else None,
        "sampling_interval": 1,
        "window_size": window_size,
        "subpixel": subpix,
        "band_correl": None,
        "offset_row_col": int((window_size - 1) / 2),
        "measure": "sad",
        "type_measure": type_measure,
        "cmax": 1.0,
    }
    if extra_attrs:
        ds.attrs.update(extra_attrs)
    return ds


# ----------------------------------------------------------------------------------------------
# generic radiometry
# ----------------------------------------------------------------------------------------------
def generic_image(ny, nx, variant=0, seed=0, lo=0, hi=255):
    """
    Deterministic integer-valued image with (almost) all values distinct and no translation
    symmetry: value = permutation of a quadratic lattice. `variant` distinguishes left/right/bands.
    """
    rng = np.random.RandomState(1000 * seed + 17 * variant + 3)
    n = ny * nx
    if hi - lo + 1 >= n:
        vals = rng.permutation(np.arange(lo, hi + 1))[:n]
    else:
        vals = rng.randint(lo, hi + 1, size=n)
    return vals.reshape(ny, nx).astype(np.float32)


def stereo_pair(ny, nx, shift=1, seed=0, noise=True):
    """left image generic; right = left shifted by `shift` columns with a few perturbed samples"""
    left = generic_image(ny, nx + abs(shift) + 2, 0, seed)
    right = left[:, abs(shift) + 1 - shift: abs(shift) + 1 - shift + nx].copy()
    left = left[:, abs(shift) + 1: abs(shift) + 1 + nx].copy()
    if noise:
        rng = np.random.RandomState(seed + 99)
        k = max(1, (ny * nx) // 6)
        idx = rng.choice(ny * nx, size=k, replace=False)
        right.reshape(-1)[idx] += rng.randint(-9, 10, size=k)
    return left, right


def deep_snapshot(ds: xr.Dataset):
    """deep copy used for before/after comparison of caller-owned datasets"""
    return ds.copy(deep=True), copy.deepcopy(dict(ds.attrs))


def relayout(a: np.ndarray, layout: str) -> np.ndarray:
    """
    the same values in another memory layout: "C" (as is), "F" (column-major), "tile" (zero-copy window of a
    larger C array: unit column stride, row pitch larger than the row), "strided" (every second sample of a larger
    array in each dimension)
    """
    if layout == "C":
        return a
    if layout == "F":
        return np.asfortranarray(a)
    if layout == "tile":
        big = np.zeros(a.shape[:-2] + (a.shape[-2] + 3, a.shape[-1] + 5), dtype=a.dtype)
        v = big[..., 1: 1 + a.shape[-2], 2: 2 + a.shape[-1]]
        v[...] = a
        return v
    if layout == "strided":
        big = np.zeros(tuple(2 * n for n in a.shape), dtype=a.dtype)
        v = big[tuple(slice(None, None, 2) for _ in a.shape)]
        v[...] = a
        return v
    raise KeyError(layout)


def relayout_dataset(ds: xr.Dataset, layout: str, variables=("im", "msk")) -> xr.Dataset:
    """in place: the listed variables of the dataset get the memory layout `layout` (values unchanged)"""
    if layout != "C":
        for v in variables:
            if v in ds.data_vars:
                ds[v].data = relayout(ds[v].data, layout)
    return ds


def same_dataset(a: xr.Dataset, b: xr.Dataset) -> str | None:
    """None if bit-identical (values NaN-aware, dtypes, coords, attrs), else a short description"""
    if set(a.data_vars) != set(b.data_vars):
        return f"variables {sorted(a.data_vars)} != {sorted(b.data_vars)}"
    if set(a.coords) != set(b.coords):
        return f"coords {sorted(a.coords)} != {sorted(b.coords)}"
    for k in a.coords:
        if not np.array_equal(np.asarray(a.coords[k].data), np.asarray(b.coords[k].data)):
            return f"coord {k} differs"
    for k in a.data_vars:
        x, y = a[k].data, b[k].data
        if x.dtype != y.dtype:
            return f"{k} dtype {x.dtype} != {y.dtype}"
        if x.shape != y.shape or a[k].dims != b[k].dims:
            return f"{k} shape/dims differ"
        if not np.array_equal(x, y, equal_nan=(x.dtype.kind == "f")):
            return f"{k} values differ"
    return same_attrs(a.attrs, b.attrs)


def same_attrs(a: dict, b: dict) -> str | None:
    if set(a) != set(b):
        return f"attrs keys {sorted(set(a) ^ set(b))} differ"
    for k in a:
        x, y = a[k], b[k]
        if isinstance(x, np.ndarray) or isinstance(y, np.ndarray):
            if not np.array_equal(np.asarray(x), np.asarray(y)):
                return f"attr {k} differs"
        else:
            try:
                eq = x == y or (x != x and y != y)  # pylint: disable=comparison-with-itself
            except ValueError:
                eq = False
            if not eq:
                return f"attr {k}: {x!r} != {y!r}"
    return None


def arr_eq(x, y) -> bool:
    """bitwise NaN-aware equality, dtype included"""
    x = np.asarray(x)
    y = np.asarray(y)
    if x.shape != y.shape:
        return False
    return bool(np.array_equal(x, y, equal_nan=(x.dtype.kind == "f" or y.dtype.kind == "f")))
