"""
E4 - iteration-schedule explorer for numba `prange` kernels.

A numba dispatcher exposes the Python source of the kernel as `.py_func`.  Re-instantiating its code object
with patched globals (`prange` -> a scheduler-controlled generator, `np` -> a proxy that tracks arrays allocated
outside the parallel loop) executes the *real loop body* under an iteration order chosen by the harness while
logging, per outermost prange loop ("epoch") and per array cell, which outer iterations read / wrote it.

  independence   no cell is written by two different outer iterations of the same loop, nor written by one and read
                 by another  =>  all iterations of the loop commute  =>  every interleaving at every granularity and
                 thread count is Mazurkiewicz-equivalent to the sequential one;
  enumeration    every permutation of the outer iterations (n <= bound), inner loops forward and reversed, must
                 give bit-identical outputs.

numba parallelises only the outermost prange of a nest (inner ones run serially inside the outer iteration), so
iteration identity = index of the outermost prange loop.
"""
from __future__ import annotations

import itertools
import types

import numpy as np


class Tracker:
    def __init__(self):
        self.epoch = 0
        self.depth = 0
        self.cur = None  # outer iteration index while inside the outermost loop
        self.arrays = []  # TrackedArray registry
        self.counter = 0
        self.order_fn = None
        self.inner_reverse = False
        self.loops = []  # (epoch, n iterations)

    # ---- scheduler-controlled prange ------------------------------------------------------------
    def prange(self, *args):
        idx = list(range(*args))
        if self.depth == 0:
            self.epoch += 1
            self.loops.append((self.epoch, len(idx)))
            order = self.order_fn(idx) if self.order_fn else idx
            if sorted(order) != idx:
                raise AssertionError("scheduler produced a non-permutation")
            self.depth = 1
            try:
                for i in order:
                    self.cur = i
                    yield i
            finally:
                self.cur = None
                self.depth = 0
        else:
            self.depth += 1
            try:
                for i in (reversed(idx) if self.inner_reverse else idx):
                    yield i
            finally:
                self.depth -= 1

    def in_loop(self):
        return self.cur is not None

    def track(self, arr, name=None):
        self.counter += 1
        return TrackedArray(arr, name or f"local{self.counter}", self)

    # ---- analysis -----------------------------------------------------------------------------------
    def conflicts(self):
        out = []
        for ta in self.arrays:
            for (epoch, cell), (w, r) in ta._acc.items():  # pylint: disable=protected-access
                if len(w) >= 2:
                    out.append({"array": ta._name, "cell": int(cell), "epoch": epoch, "kind": "W/W",
                                "iterations": sorted(w)[:4]})
                elif w and (r - w):
                    out.append({"array": ta._name, "cell": int(cell), "epoch": epoch, "kind": "R/W",
                                "iterations": sorted(w)[:2] + sorted(r - w)[:2]})
        return out


def _plain(x):
    if isinstance(x, TrackedArray):
        return x.view(np.ndarray)
    if isinstance(x, (list, tuple)):
        return type(x)(_plain(e) for e in x)
    if isinstance(x, dict):
        return {k: _plain(v) for k, v in x.items()}
    return x


def _collect(x, acc):
    if isinstance(x, TrackedArray):
        acc.append(x)
    elif isinstance(x, (list, tuple)):
        for e in x:
            _collect(e, acc)
    elif isinstance(x, dict):
        for e in x.values():
            _collect(e, acc)


class TrackedArray(np.ndarray):
    """ndarray whose element accesses are logged per (epoch, outer iteration)"""

    def __new__(cls, arr, name, tracker):
        base = np.array(arr, copy=True) if not isinstance(arr, np.ndarray) else arr
        obj = base.view(cls)
        obj._name = name
        obj._tr = tracker
        obj._ix = np.arange(base.size).reshape(base.shape)
        obj._acc = {}
        tracker.arrays.append(obj)
        return obj

    def __array_finalize__(self, obj):
        # derived arrays (views created by numpy internals) are never tracked themselves
        self._name = None
        self._tr = None
        self._ix = None
        self._acc = None

    # ---- logging ------------------------------------------------------------------------------------
    def _log(self, cells, write):
        tr = self._tr
        if tr is None or tr.cur is None:
            return
        it = tr.cur
        ep = tr.epoch
        acc = self._acc
        for c in np.asarray(cells).reshape(-1):
            e = acc.get((ep, int(c)))
            if e is None:
                e = (set(), set())
                acc[(ep, int(c))] = e
            e[0 if write else 1].add(it)

    def _log_all(self, write):
        if self._ix is not None:
            self._log(self._ix, write)

    def __getitem__(self, idx):
        if self._tr is None:
            return np.asarray(self.view(np.ndarray)[_plain(idx)])
        idx = _plain(idx)
        self._log(self._ix[idx], False)
        res = self.view(np.ndarray)[idx]
        if isinstance(res, np.ndarray):
            # hand out a private copy: `a[i] += x` then goes getitem -> iadd on the copy -> setitem (logged);
            # a write through an alias would be lost, which the conformance check against the compiled kernel
            # reports (no such aliasing exists in the kernels today)
            res = np.array(res.view(np.ndarray), copy=True)
        return res

    def __setitem__(self, idx, val):
        if self._tr is None:
            self.view(np.ndarray)[_plain(idx)] = _plain(val)
            return
        idx = _plain(idx)
        self._log(self._ix[idx], True)
        self.view(np.ndarray)[idx] = _plain(val)

    def __array_ufunc__(self, ufunc, method, *inputs, out=None, **kwargs):
        tas = []
        _collect(inputs, tas)
        for t in tas:
            t._log_all(False)
        kw = dict(kwargs)
        if out is not None:
            outs = []
            _collect(out, outs)
            for t in outs:
                t._log_all(True)
            kw["out"] = tuple(_plain(o) for o in out)
        res = getattr(ufunc, method)(*_plain(inputs), **kw)
        if out is not None:
            return out[0] if len(out) == 1 else out
        return self._result(res)

    def __array_function__(self, func, types_, args, kwargs):
        tas = []
        _collect(args, tas)
        _collect(kwargs, tas)
        for t in tas:
            t._log_all(False)
        res = func(*_plain(args), **_plain(kwargs))
        return self._result(res)

    def _result(self, res):
        tr = self._tr
        if tr is not None and not tr.in_loop() and isinstance(res, np.ndarray) and res.ndim > 0:
            return tr.track(np.array(res, copy=True))
        if isinstance(res, TrackedArray):
            return res.view(np.ndarray)
        return res

    # ndarray methods bypass __array_function__: route the ones kernels use
    def _method(self, name, *a, **k):
        self._log_all(False)
        res = getattr(self.view(np.ndarray), name)(*_plain(a), **_plain(k))
        if isinstance(res, np.ndarray) and res.ndim > 0:
            res = np.array(res, copy=True)
        return self._result(res)

    def copy(self, *a, **k):  # pylint: disable=arguments-differ
        return self._method("copy", *a, **k)

    def any(self, *a, **k):  # pylint: disable=arguments-differ
        return self._method("any", *a, **k)

    def all(self, *a, **k):  # pylint: disable=arguments-differ
        return self._method("all", *a, **k)

    def sum(self, *a, **k):  # pylint: disable=arguments-differ
        return self._method("sum", *a, **k)

    def min(self, *a, **k):  # pylint: disable=arguments-differ
        return self._method("min", *a, **k)

    def max(self, *a, **k):  # pylint: disable=arguments-differ
        return self._method("max", *a, **k)

    def cumsum(self, *a, **k):  # pylint: disable=arguments-differ
        return self._method("cumsum", *a, **k)

    def reshape(self, *a, **k):  # pylint: disable=arguments-differ
        return self._method("reshape", *a, **k)

    def flatten(self, *a, **k):  # pylint: disable=arguments-differ
        return self._method("flatten", *a, **k)

    def astype(self, *a, **k):  # pylint: disable=arguments-differ
        return self._method("astype", *a, **k)

    @property
    def T(self):  # pylint: disable=invalid-name
        return self._method("transpose")


class NPProxy:
    """stands for the module-level name `np` inside the kernel: arrays created outside the loop get tracked"""

    def __init__(self, tracker):
        self._tr = tracker

    def __getattr__(self, name):
        attr = getattr(np, name)
        if not callable(attr) or isinstance(attr, type):
            return attr
        tr = self._tr

        def call(*a, **k):
            res = attr(*a, **k)
            if not tr.in_loop() and type(res) is np.ndarray and res.ndim > 0:  # pylint: disable=unidiomatic-typecheck
                return tr.track(res)
            if isinstance(res, TrackedArray) and tr.in_loop():
                return res.view(np.ndarray)
            return res

        return call


def instantiate(pyfunc, tracker):
    """the kernel's code object with `prange` and `np` replaced"""
    g = dict(pyfunc.__globals__)
    g["prange"] = tracker.prange
    if "np" in g:
        g["np"] = NPProxy(tracker)
    return types.FunctionType(pyfunc.__code__, g, pyfunc.__name__, pyfunc.__defaults__, pyfunc.__closure__)


def to_plain(res):
    if isinstance(res, tuple):
        return tuple(to_plain(r) for r in res)
    if isinstance(res, np.ndarray):
        return np.array(res.view(np.ndarray), copy=True)
    return res


def run_schedule(pyfunc, make_args, order_fn=None, inner_reverse=False, track_args=True):
    """
    one execution of the kernel body under a schedule
    :param make_args: () -> fresh tuple of arguments (arrays are wrapped here)
    :return: (outputs as plain arrays, conflicts, loops) ; args that are arrays are returned too (in-place kernels)
    """
    tr = Tracker()
    tr.order_fn = order_fn
    tr.inner_reverse = inner_reverse
    args = list(make_args())
    names = pyfunc.__code__.co_varnames[: pyfunc.__code__.co_argcount]
    if track_args:
        args = [tr.track(a, names[i]) if isinstance(a, np.ndarray) else a for i, a in enumerate(args)]
    fn = instantiate(pyfunc, tr)
    res = fn(*args)
    outs = to_plain(res)
    finals = tuple(to_plain(a) for a in args if isinstance(a, np.ndarray))
    return outs, finals, tr.conflicts(), tr.loops


def same(a, b):
    if isinstance(a, tuple):
        return isinstance(b, tuple) and len(a) == len(b) and all(same(x, y) for x, y in zip(a, b))
    if isinstance(a, np.ndarray):
        return isinstance(b, np.ndarray) and a.shape == b.shape and a.dtype == b.dtype and np.array_equal(
            a, b, equal_nan=a.dtype.kind == "f")
    return a == b or (a != a and b != b)  # pylint: disable=comparison-with-itself


def all_orders(n, bound):
    """every permutation for n <= bound; identity, reversed and the n rotations beyond"""
    idx = list(range(n))
    if n <= bound:
        return [list(p) for p in itertools.permutations(idx)]
    outs = [idx, idx[::-1]] + [idx[k:] + idx[:k] for k in range(1, n)]
    uniq = []
    for o in outs:
        if o not in uniq:
            uniq.append(o)
    return uniq
