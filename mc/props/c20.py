"""
C20 - reported margins are a pure, monotone function of the checked pipeline (DESIGN.md section 3, C20).

The pipeline-extension graph is walked completely up to a length bound: a case is a parent pipeline P (a list of
menu tokens); run_case checks P and every one-step extension P+s the documented automaton allows on FRESH
machines with the real `check_pipeline_section`, in every environment (image shape x matching-cost step x step
naming), and compares `machine.margins.to_dict()` with mc/ref/margins.py:

  * exact entries (keys = step names, cumulative / non-cumulative classification, values) and global margins;
  * non-negative;
  * unaffected by the second (right/left) round of a validation step (first-round-only check gives the same);
  * never decreasing along the edge P -> P+s (every edge of the graph is visited once);
  * independent of what other machines checked before / after in the same process;
  * equal to `margins` in the configuration saved by the command-line entry point `pandora.main` (a smaller set of
    runnable pipelines on GeoTIFF inputs).

matching-cost step 2 is reached the documented way (a `pandora2d` module in sys.modules, see
AbstractMatchingCost.check_conf); optimisation is a stub plug-in registered through the public registry (its
margins come from AbstractOptimization).
"""
from __future__ import annotations

import copy
import json
import os
import sys
import types

from mc.ref import margins as M

ID = "C20"
LEVEL = "exploration"
BUDGET = {"quick": 300, "thorough": 3600}
CHUNK = 8
RULE = (
    "cases = every pipeline of the documented automaton over the step menu up to the length bound, as parent; each "
    "evaluates itself and all its one-step extensions (= every edge once) in every environment (shape x mc step x "
    "naming); non-trivial = the pipeline is accepted; distinct = distinct (pipeline, environment, margins dictionary)"
)
ASSUMPTIONS = [
    "a pipeline the checker refuses (optimisation with step 2) has no margins to report and is counted as trivial; "
    "which pipelines are accepted is C01's and C05's business",
    "semantic_segmentation is not in the menu (no built-in method; it bears no margin)",
    "quick: length <= 5, menu of 5 matching costs, 3 cost-volume steps, 10 disparity-map steps, 6 of the 12 environments "
    "(complete on shape x step, naming alternating); thorough: length <= 5 on the full menu with all 12 environments, "
    "length 6 on the quick menu with the 4 environments, "
    "length 7 on a reduced menu (no state merging is used: everything is enumerated unmerged)",
    "other machines = fresh PandoraMachine objects of the same process checking margin-heavy pipelines before and after",
]

STUB = "verif_stub_b6"

# token -> (kind, cfg)
MENU = {
    "sad1": ("matching_cost", {"matching_cost_method": "sad", "window_size": 1}),
    "sad3": ("matching_cost", {"matching_cost_method": "sad", "window_size": 3}),
    "sad5": ("matching_cost", {"matching_cost_method": "sad", "window_size": 5}),
    "sad7": ("matching_cost", {"matching_cost_method": "sad", "window_size": 7}),
    "ssd": ("matching_cost", {"matching_cost_method": "ssd"}),  # window omitted: default 5
    "census3": ("matching_cost", {"matching_cost_method": "census", "window_size": 3, "subpix": 2}),
    "zncc9": ("matching_cost", {"matching_cost_method": "zncc", "window_size": 9}),
    "cbca": ("aggregation", {"aggregation_method": "cbca"}),
    "opt": ("optimization", {"optimization_method": STUB}),
    # the documented default prior spelled out by the user: same margins as when it is omitted
    "optgp": ("optimization", {"optimization_method": STUB, "geometric_prior": {"source": "internal"}}),
    # priors taken from the optional inputs: same margins again
    "optsegm": ("optimization", {"optimization_method": STUB, "geometric_prior": {"source": "segm"}}),
    "optcls": ("optimization", {"optimization_method": STUB,
                                "geometric_prior": {"source": "classif", "classes": ["ca"]}}),
    "std": ("cost_volume_confidence", {"confidence_method": "std_intensity"}),
    "amb": ("cost_volume_confidence", {"confidence_method": "ambiguity"}),
    "wta": ("disparity", {"disparity_method": "wta"}),
    "med1": ("filter", {"filter_method": "median", "filter_size": 1}),
    "med3": ("filter", {"filter_method": "median", "filter_size": 3}),
    "med5": ("filter", {"filter_method": "median", "filter_size": 5}),
    "med": ("filter", {"filter_method": "median"}),  # size omitted: default 3
    "bil0.5": ("filter", {"filter_method": "bilateral", "sigma_space": 0.5}),
    "bil1": ("filter", {"filter_method": "bilateral", "sigma_space": 1.0}),
    "bil6": ("filter", {"filter_method": "bilateral", "sigma_space": 6.0, "sigma_color": 3.0}),
    "bil": ("filter", {"filter_method": "bilateral"}),  # sigma omitted: default 6.0
    "mfi3": ("filter", {"filter_method": "median_for_intervals", "filter_size": 3}),
    "mfi5": ("filter", {"filter_method": "median_for_intervals", "filter_size": 5}),
    # regularisation parameters do not enter the documented margin (filter_size on the four sides)
    "mfi3r": ("filter", {"filter_method": "median_for_intervals", "filter_size": 3, "regularization": True,
                         "vertical_depth": 5}),
    "vfit": ("refinement", {"refinement_method": "vfit"}),
    "quad": ("refinement", {"refinement_method": "quadratic"}),
    "cross": ("validation", {"validation_method": "cross_checking_accurate"}),
    "ms": ("multiscale", {"multiscale_method": "fixed_zoom_pyramid"}),
}
MENUS = {
    "quick": {"mc": ["sad1", "sad3", "sad5", "sad7", "ssd"], "cv": ["cbca", "opt", "optgp", "optsegm", "amb"],
              "dm": ["med1", "med3", "med5", "bil0.5", "bil1", "bil6", "bil", "mfi3", "mfi3r", "vfit", "cross", "ms"]},
    "full": {"mc": ["sad1", "sad3", "sad5", "sad7", "ssd", "census3", "zncc9"], "cv": ["cbca", "opt", "optgp", "optsegm", "optcls", "std", "amb"],
             "dm": ["med1", "med3", "med5", "med", "bil0.5", "bil1", "bil6", "bil", "mfi3", "mfi3r", "vfit", "quad", "cross",
                    "ms"]},
    "reduced": {"mc": ["sad3", "sad7"], "cv": ["cbca", "opt"], "dm": ["med3", "bil1", "vfit", "cross", "ms"]},
}
# small images in both orientations (the bilateral margin is min(rows, cols, int(3 sigma + 1)): rows < cols and
# cols < rows must both occur, each smaller than the window), and a large one
SHAPES = [(6, 8), (200, 300), (9, 5)]
ENVS_ALL = [(sh, st, nm) for sh in (0, 1, 2) for st in (1, 2) for nm in ("plain", "sfx")]
ENVS_QUICK = [(0, 1, "plain"), (1, 1, "sfx"), (0, 2, "sfx"), (1, 2, "plain"), (2, 1, "sfx"), (2, 2, "plain")]

NOISE_BEFORE = ["zncc9", "opt", "cbca", "wta", "med5", "bil6", "cross"]
NOISE_AFTER = ["sad7", "opt", "opt", "wta", "mfi5", "bil", "vfit"]


# ----------------------------------------------------------------------------------------------
def state_after(tokens):
    """state of the documented automaton after the pipeline (tokens are legal by construction)"""
    st = "begin"
    for t in tokens:
        kind = MENU[t][0]
        if kind == "matching_cost":
            st = "cost_volume"
        elif kind == "disparity":
            st = "disp_map"
    return st


def extensions(tokens, menu):
    st = state_after(tokens)
    if st == "begin":
        return list(menu["mc"])
    if st == "cost_volume":
        return list(menu["cv"]) + ["wta"]
    return list(menu["dm"])


def walk(menu, maxlen):
    """every pipeline of length <= maxlen, shorter first"""
    level = [[]]
    out = [[]]
    for _ in range(maxlen):
        nxt = []
        for p in level:
            for t in extensions(p, menu):
                nxt.append(p + [t])
        out += nxt
        level = nxt
    return out


def build(tokens, mc_step, naming):
    """-> [(name, cfg)] ordered user pipeline"""
    steps = []
    seen = {}
    for i, t in enumerate(tokens):
        kind, cfg = MENU[t]
        cfg = copy.deepcopy(cfg)
        if kind == "matching_cost" and mc_step != 1:
            cfg["step"] = mc_step
        k = seen.get(kind, 0)
        seen[kind] = k + 1
        if naming == "plain":
            name = kind if k == 0 else f"{kind}.{k}"
        else:
            name = f"{kind}.s{i}"
        steps.append((name, cfg))
    return steps


_STUB_DONE = False


def ensure_stub():
    global _STUB_DONE  # pylint: disable=global-statement
    if _STUB_DONE:
        return
    from pandora.optimization import AbstractOptimization  # pylint: disable=import-outside-toplevel

    @AbstractOptimization.register_subclass(STUB)
    class VerifStubOptimization(AbstractOptimization):  # pylint: disable=unused-variable
        """identity optimisation: only there so that pipelines with an optimisation step can be checked / run"""

        def __init__(self, _img, **cfg):
            self.cfg = dict(cfg)

        def desc(self):
            pass

        def optimize_cv(self, cv, img_left, img_right):  # pylint: disable=unused-argument
            return cv

    _STUB_DONE = True


class Pandora2D:
    """the documented switch: matching-cost step != 1 is allowed when pandora2d is loaded"""

    def __init__(self, on):
        self.on = on
        self.prev = None

    def __enter__(self):
        self.prev = sys.modules.get("pandora2d")
        if self.on:
            sys.modules["pandora2d"] = types.ModuleType("pandora2d")
        else:
            sys.modules.pop("pandora2d", None)

    def __exit__(self, *a):
        if self.prev is not None:
            sys.modules["pandora2d"] = self.prev
        else:
            sys.modules.pop("pandora2d", None)


_METAS = {}


def metas(shape):
    from mc.drivers import datasets as D  # pylint: disable=import-outside-toplevel

    if shape not in _METAS:
        # both images carry a segmentation and a two-class classification (optional inputs; only the optimisation
        # priors look at them)
        _METAS[shape] = (D.metadata(shape[0], shape[1], disp=(-2, 2), classif_bands=["ca", "cb"], segm=True),
                         D.metadata(shape[0], shape[1], disp=None, classif_bands=["ca", "cb"], segm=True))
    return _METAS[shape]


def real_margins(steps, shape, first_round_only=False, via="section"):
    """-> ("ok", to_dict, machine) | ("exc", type name)"""
    from pandora import check_configuration as cc  # pylint: disable=import-outside-toplevel
    from pandora.state_machine import PandoraMachine  # pylint: disable=import-outside-toplevel

    left, right = metas(shape)
    machine = PandoraMachine()
    user = {"pipeline": {n: copy.deepcopy(c) for n, c in steps}}
    try:
        if first_round_only:
            machine.check_conf(user, left, right, True)
        elif via == "section":
            cc.check_pipeline_section(user, left, right, machine)
        else:
            machine.check_conf(user, left, right)
    except Exception as e:  # pylint: disable=broad-except
        return ("exc", type(e).__name__, None)
    return ("ok", machine.margins.to_dict(), machine)


def _norm(d):
    """plain ints / dicts (to_dict values are python ints already; be strict about it)"""
    return json.loads(json.dumps(d))


def evaluate(tokens, env, viol, sigs, independence=False):
    """-> global margins dict of the accepted pipeline, or None"""
    shape = SHAPES[env[0]]
    mc_step, naming = env[1], env[2]
    steps = build(tokens, mc_step, naming)
    envs = f"shape={list(shape)} mc_step={mc_step} naming={naming}"

    def bad(clause, tail, detail):
        viol.append({"clause": clause, "key": f"C20/{clause}/{tail}",
                     "detail": f"{detail}; pipeline={json.dumps(steps)} {envs}"})

    with Pandora2D(mc_step != 1):
        if independence:
            real_margins(build(NOISE_BEFORE, 1, "plain"), SHAPES[(env[0] + 1) % len(SHAPES)])
        res = real_margins(steps, shape)
        if res[0] != "ok":
            return None
        got = res[1]
        machine = res[2]
        if independence:
            real_margins(build(NOISE_AFTER, 1, "sfx"), SHAPES[(env[0] + 1) % len(SHAPES)])
            later = machine.margins.to_dict()
            if later != got:
                bad("independence", "changed-by-later-check", f"margins of a machine changed after ANOTHER machine "
                    f"checked a pipeline: {json.dumps(got)} -> {json.dumps(later)}")
        exp = M.expected(steps, shape)
        kinds = [MENU[t][0] for t in tokens]
        if _norm(got) != exp or any(type(v) is not int for sec in got.values() for v in _flat(sec)):
            for cls in _diff_classes(got, exp, steps):  # one record per kind of step that is wrong
                bad("values", cls, f"margins {json.dumps(got)} != documented {json.dumps(exp)}")
        if any(v < 0 for sec in got.values() for v in _flat(sec)):
            bad("non-negative", "negative", f"negative margin in {json.dumps(got)}")
        if independence and "validation" not in kinds:
            # with noise around, through the machine's own entry point too
            r2 = real_margins(steps, shape, via="machine")
            if r2[0] != "ok" or r2[1] != got:
                bad("independence", "entry-point", f"PandoraMachine.check_conf gives {json.dumps(r2[1])}, "
                    f"check_pipeline_section {json.dumps(got)}")
        if "validation" in kinds:
            r1 = real_margins(steps, shape, first_round_only=True)
            if r1[0] != "ok" or r1[1] != got:
                bad("second-round", "validation", f"margins after the first checking round only {json.dumps(r1[1])} != "
                    f"after both rounds {json.dumps(got)}")
        if independence:
            # the caller edits the report it was given (pads every entry): neither a later report of the same machine
            # nor the report of another machine for the same pipeline may move
            snapshot = _norm(got)
            _pad(got)
            again = machine.margins.to_dict()
            other = real_margins(steps, shape)
            if _norm(again) != snapshot or other[0] != "ok" or _norm(other[1]) != snapshot:
                bad("independence", "report-aliases-the-margins", f"after the caller added 2 to every entry of the "
                    f"report it was given, the same machine reports {json.dumps(again)} and a fresh machine "
                    f"{json.dumps(other[1])} instead of {json.dumps(snapshot)}")
            got = snapshot
    sigs.append(f"{tokens}|{env}|{json.dumps(got, sort_keys=True)}")
    return got["global margins"]


def _pad(sec):
    for k, v in list(sec.items()):
        if isinstance(v, dict):
            _pad(v)
        elif isinstance(v, int):
            sec[k] = v + 2


def _flat(sec):
    for v in sec.values():
        if isinstance(v, dict):
            yield from _flat(v)
        else:
            yield v


def _diff_classes(got, exp, steps):
    """narrow, stable class of a value mismatch: which kind of step / which part differs"""
    by_name = {n: (n.split(".")[0] + ("." + c.get("filter_method") if n.split(".")[0] == "filter" else ""))
               for n, c in steps}
    out = set()
    for part in ("cumulative margins", "non-cumulative margins"):
        g, e = got.get(part, {}), exp[part]
        for n in set(g) | set(e):
            if g.get(n) != e.get(n):
                where = "missing" if n not in g else ("unexpected" if n not in e else "value")
                out.add(f"{part.split()[0]}:{by_name.get(n, 'unknown-key')}:{where}")
    if not out and got.get("global margins") != exp["global margins"]:
        out.add("global")
    if not out:
        out.add("layout-or-type")
    return sorted(out)


def _run_graph(case, viol, sigs):
    menu = MENUS[case["menu"]]
    parent = case["p"]
    envs = ENVS_ALL if case["envs"] == "all" else ENVS_QUICK
    n = trivial = 0
    for ei, env in enumerate(envs):
        env = tuple(env)
        indep = ei < 2
        gp = None
        if parent:
            gp = evaluate(parent, env, viol, sigs, independence=indep)
            n += 1
            if gp is None:
                trivial += 1
        for t in extensions(parent, menu):
            child = parent + [t]
            gc = evaluate(child, env, viol, sigs, independence=indep and (len(child) + ei) % 2 == 0)
            n += 1
            if gc is None:
                trivial += 1
                continue
            if gp is not None and not M.leq(gp, gc):
                kind = MENU[t][0] + ("." + MENU[t][1]["filter_method"] if MENU[t][0] == "filter" else "")
                viol.append({"clause": "monotone", "key": f"C20/monotone/adding {kind}",
                             "detail": f"global margins decrease from {gp} to {gc} when step '{t}' {MENU[t][1]} is added "
                                       f"to pipeline {parent} (shape={list(SHAPES[env[0]])} mc_step={env[1]})"})
    return n, trivial


# ---- saved configuration (pandora.main) -------------------------------------------------------------
SAVED_Q = [["sad1", "wta"], ["sad3", "wta", "med3"], ["sad5", "cbca", "wta", "bil1"], ["ssd", "opt", "wta", "vfit"],
           ["sad7", "wta", "med5", "cross"], ["sad3", "opt", "cbca", "wta", "bil6", "med1"],
           ["sad3", "amb", "wta", "med", "vfit"], ["sad5", "opt", "opt", "wta", "cross", "bil0.5"]]


def saved_pipelines(tier):
    if tier == "quick":
        return SAVED_Q
    out = []
    for p in walk(MENUS["reduced"], 5):
        if "ms" in p or "wta" not in p:
            continue
        out.append(p)
    return SAVED_Q + out


def _run_saved(case, viol, sigs):
    import pandora  # pylint: disable=import-outside-toplevel
    from mc.drivers import files as F  # pylint: disable=import-outside-toplevel

    tokens = case["p"]
    shape = (12, 14)
    lib = F.library(*shape)
    steps = build(tokens, 1, case["naming"])
    cfg = {"input": {"left": {"img": lib["img_l"], "disp": [-2, 2]}, "right": {"img": lib["img_r"]}},
           "pipeline": dict(steps)}
    tag = "saved_" + "_".join(tokens).replace(".", "p") + "_" + case["naming"]
    cfg_path = F.write_json(tag + ".json", cfg)
    outdir = F.new_dir(tag)
    desc = f"pipeline={json.dumps(steps)} shape={list(shape)}"
    try:
        with Pandora2D(False):
            pandora.main(cfg_path, outdir, False)
        with open(os.path.join(outdir, "cfg", "config.json"), encoding="utf8") as f:
            saved = json.load(f)
    except Exception as e:  # pylint: disable=broad-except
        # running is not this property's business; a pipeline that cannot run stores nothing
        sigs.append(f"saved|{tokens}|{case['naming']}|exc:{type(e).__name__}")
        return 1, 1
    exp = M.expected(steps, shape)
    got = saved.get("margins")
    sigs.append(f"saved|{tokens}|{case['naming']}|{json.dumps(got, sort_keys=True)}")
    if got != exp:
        viol.append({"clause": "saved", "key": "C20/saved/margins of cfg/config.json",
                     "detail": f"'margins' stored by pandora.main {json.dumps(got)} != documented {json.dumps(exp)}; "
                               f"{desc}"})
    return 1, 0


# ----------------------------------------------------------------------------------------------
def spaces(tier, seed):
    if tier == "quick":
        parents = walk(MENUS["quick"], 4)
        graph = [{"sp": "graph", "menu": "quick", "envs": "quick", "p": p} for p in parents]
        extra = []
    else:
        # full menu and all 12 environments up to length 5; the layer 5 -> 6 on the quick menu with the 4
        # (shape x step)-complete environments
        graph = [{"sp": "graph", "menu": "full", "envs": "all", "p": p} for p in walk(MENUS["full"], 4)]
        graph += [{"sp": "graph", "menu": "quick", "envs": "quick", "p": p} for p in walk(MENUS["quick"], 5)
                  if len(p) == 5]
        extra = [{"sp": "graph", "menu": "reduced", "envs": "all", "p": p} for p in walk(MENUS["reduced"], 6)
                 if len(p) == 6]
    by_len = {}
    for c in graph:
        by_len.setdefault(len(c["p"]), []).append(c)
    out = []
    for ln in sorted(by_len):
        cs = by_len[ln]
        cs = cs[seed % len(cs):] + cs[:seed % len(cs)]  # the seed only rotates the order
        out.append({"name": f"pipelines of length {ln} and all their one-step extensions", "level": ln, "cases": cs,
                    "chunk": 8 if ln >= 3 else 1})
    if extra:
        out.append({"name": "pipelines of length 6 -> 7, reduced menu", "level": 6, "cases": extra, "chunk": 8})
    saved = [{"sp": "saved", "p": p, "naming": nm} for p in saved_pipelines(tier) for nm in ("plain", "sfx")]
    out.append({"name": "margins stored by pandora.main in cfg/config.json", "level": 2, "cases": saved, "chunk": 2})
    return out


def run_case(case):
    ensure_stub()
    viol, sigs = [], []
    n, trivial = (_run_graph if case["sp"] == "graph" else _run_saved)(case, viol, sigs)
    seen, out = set(), []
    for v in viol:
        if v["key"] not in seen:
            seen.add(v["key"])
            out.append(v)
    return {"n": n, "sigs": sigs, "viol": out[:40], "trivial": trivial}


def init_worker():
    run_case({"sp": "graph", "menu": "reduced", "envs": "quick", "p": ["sad3"]})
