"""
Reference predicates for C17, written from the property statement (not from check_configuration.py).

dataset_pair_ok(left, right)   the contract of check_datasets
section_status(section, props) the contract of check_input_section over a file library described by `props`
"""
from __future__ import annotations

import math

import numpy as np

MANDATORY_ATTRS = ("no_data_img", "valid_pixels", "no_data_mask", "crs", "transform")


def _side_reasons(ds, need_disparity, side):
    """list of contract clauses the dataset of one side breaks"""
    out = []
    if "im" not in ds.data_vars:
        return [f"{side}: no image"]
    im = np.asarray(ds["im"].values)
    if im.dtype.kind == "f" and im.size and bool(np.isnan(im).all()):
        out.append(f"{side}: image entirely NaN")
    if "band_im" in ds.coords:
        if not all(isinstance(b, str) for b in list(ds.coords["band_im"].values)):
            out.append(f"{side}: band names not strings")
    grid = tuple(im.shape[-2:])
    for name in ds.data_vars:
        if name == "im":
            continue
        if tuple(ds[name].shape[-2:]) != grid:
            out.append(f"{side}: variable {name} not on the image grid")
    for a in MANDATORY_ATTRS:
        if a not in ds.attrs:
            out.append(f"{side}: attribute {a} missing")
    if "disparity" in ds.data_vars:
        d = ds["disparity"]
        if "band_disp" not in d.coords:
            out.append(f"{side}: disparity without band_disp coordinate")
        else:
            names = [str(b) for b in d.coords["band_disp"].values]
            if "min" not in names or "max" not in names:
                out.append(f"{side}: disparity without min/max band")
            else:
                lo = np.asarray(d.values[names.index("min")], dtype=np.float64)
                hi = np.asarray(d.values[names.index("max")], dtype=np.float64)
                if bool((lo > hi).any()):
                    out.append(f"{side}: min > max")
    elif need_disparity:
        out.append(f"{side}: disparity missing")
    return out


def dataset_pair_reasons(left, right):
    out = _side_reasons(left, True, "left") + _side_reasons(right, False, "right")
    if "im" in left.data_vars and "im" in right.data_vars:
        if tuple(left["im"].shape[-2:]) != tuple(right["im"].shape[-2:]):
            out.append("left and right images of different size")
    return out


def dataset_pair_ok(left, right) -> bool:
    return not dataset_pair_reasons(left, right)


# ----------------------------------------------------------------------------------------------
# input sections.  A section is {"left": {...}, "right": {...}} whose path values are ROLE names of a file
# library; `props[role]` = {"readable": bool, "size": (rows, cols), "count": bands, "minmax": bool}
# ----------------------------------------------------------------------------------------------
ABSENT = object()


def _is_int(v):
    return isinstance(v, int) and not isinstance(v, bool)


def _raster(v, props):
    """-> props of a readable raster role or None"""
    if isinstance(v, str) and v in props and props[v]["readable"]:
        return props[v]
    return None


def section_status(section, props):
    """
    -> ("A" | "R" | "?", [reasons]).  "?" = a corner the statement leaves open and nothing else is wrong:
    a bool as nodata, a 2-band grid of the right size with min > max somewhere, the string "none" as a path.
    """
    reasons, opened = [], []
    left = section.get("left", {})
    right = section.get("right", {})
    imgs = {}
    for side, sec in (("left", left), ("right", right)):
        v = sec.get("img", ABSENT)
        r = _raster(v, props)
        if r is None:
            reasons.append(f"{side}.img is not a readable image path")
        imgs[side] = r
        nd = sec.get("nodata", ABSENT)
        if nd is not ABSENT:
            if isinstance(nd, bool):
                opened.append(f"{side}.nodata is a bool")
            elif _is_int(nd) or (isinstance(nd, float) and math.isnan(nd)) or (isinstance(nd, str) and nd == "NaN"):
                pass
            else:
                reasons.append(f"{side}.nodata is neither an integer nor NaN")
        for opt in ("mask", "classif", "segm"):
            v = sec.get(opt, ABSENT)
            if v is ABSENT or v is None:
                continue
            if isinstance(v, str) and v == "none":
                opened.append(f"{side}.{opt} is the string 'none'")
                continue
            r = _raster(v, props)
            if r is None:
                reasons.append(f"{side}.{opt} is not readable")
            elif imgs[side] is not None and r["size"] != imgs[side]["size"]:
                reasons.append(f"{side}.{opt} does not have the image size")
    if imgs["left"] is not None and imgs["right"] is not None and imgs["left"]["size"] != imgs["right"]["size"]:
        reasons.append("left and right images of different size")

    def grid_status(v, side):
        r = _raster(v, props)
        if r is None:
            reasons.append(f"{side}.disp is not a readable grid")
            return
        if r["count"] != 2:
            reasons.append(f"{side}.disp grid does not have 2 bands")
            return
        if imgs[side] is not None and r["size"] != imgs[side]["size"]:
            reasons.append(f"{side}.disp grid does not have the image size")
            return
        if not r["minmax"]:
            opened.append(f"{side}.disp grid has min > max somewhere")

    ld = left.get("disp", ABSENT)
    left_is_grid = False
    if ld is ABSENT or ld is None:
        reasons.append("left.disp missing")
    elif isinstance(ld, list):
        if len(ld) != 2:
            reasons.append("left.disp is not a two-element list")
        elif not all(_is_int(x) for x in ld):
            if all(isinstance(x, bool) or _is_int(x) for x in ld):
                opened.append("left.disp holds booleans")
            else:
                reasons.append("left.disp entries are not integers")
        elif ld[0] > ld[1]:
            reasons.append("left.disp min > max")
    elif isinstance(ld, str):
        left_is_grid = True
        grid_status(ld, "left")
    else:
        reasons.append("left.disp of a wrong type")
    rd = right.get("disp", ABSENT)
    if rd is ABSENT or rd is None:
        pass
    elif isinstance(rd, str):
        if not left_is_grid:
            reasons.append("right.disp grid without a left grid")
        grid_status(rd, "right")
    else:
        reasons.append("right.disp must be absent or a grid")
    if reasons:
        return "R", reasons
    if opened:
        return "?", opened
    return "A", []
