"""
C19 - saved products equal the computed ones and the saved configuration replays (DESIGN.md section 3, C19).

Every case writes a tiny stereo pair (6x8, thorough also 5x7 two-band) and a JSON configuration into a scratch
directory (mc/drivers/files_io.py) and then, in the same process,
  1. runs the command-line entry point `pandora.main(cfg, out, verbose=False)`;
  2. runs the same computation through the API (read_config_file, PandoraMachine, check_conf,
     create_dataset_from_inputs, check_datasets, pandora.run) and compares every written raster with the in-memory
     product: set of files (right_* <=> validation step, confidence file <=> bands exist), dtype float32 / uint16, one
     band per indicator named after it, pixels value for value (NaN included), CRS and transform of the input image;
  3. loads out/cfg/config.json with Pandora's reader and compares it with the completed configuration returned by
     check_conf plus `margins` = machine.margins.to_dict();
  4. feeds out/cfg/config.json back to `pandora.main`: it must be accepted and write identical rasters.
Configurations are the complete product pipeline skeleton x confidence-band set x invalid_disparity x disparity form
(interval / left grid / both grids) x georeferenced or not x masks+nodata or not.
"""
from __future__ import annotations

import copy
import hashlib
import itertools
import math
import os

import numpy as np

from mc.drivers import datasets as D
from mc.drivers import files_io as F

ID = "C19"
LEVEL = "exploration"
BUDGET = {"quick": 300, "thorough": 3600}
CHUNK = 4
RULE = (
    "one case = one accepted configuration (pipeline skeleton x confidence set x invalid_disparity x disparity form x "
    "georeferencing x mask/nodata; thorough: x matching cost method/window/subpix x shape/bands): pandora.main, the same "
    "run through the API, pandora.main again from the written cfg/config.json; non-trivial when the left validity mask "
    "holds at least two different values and the disparity map has a finite value; distinct = (configuration class, "
    "list of written files, digest of every written raster)"
)
ASSUMPTIONS = [
    "the in-memory products are those of a second execution of the same computation through the API in the same "
    "process (determinism of a run is property C18)",
    "the API run derives the right interval [-max, -min] from an integer left interval as documented in input.rst",
    "config.json 'records the completed configuration': pipeline and input sections must equal check_conf's result; "
    "for an integer left interval input.right.disp may be either null (completed configuration) or the documented "
    "derived interval [-max, -min]; the pipeline section may equal check_conf's result either before or after "
    "pandora.run has used it (the run writes the band suffix into the 'indicator' entry of confidence steps)",
    "when the replay of config.json is refused for an integer interval because input.right.disp was written back "
    "(anticipated defect A6), the replay is repeated with that single field reset to null so that 'reproduces the same "
    "rasters' is still checked; its violations carry their own keys",
    "right products must carry the georeferencing of the right image; left and right inputs share the CRS and differ "
    "in the transform origin",
    "only built-in methods (no optimization / semantic_segmentation plug-in exists in this image); multiscale only "
    "with an integer interval (documented restriction)",
    "two-band pairs (thorough) never with cbca: pandora.main raises on accepted two-band configurations with cbca "
    "(aggregation assumes a 2-D image); that crash is about band handling, not about saving, and was reported to the "
    "lead separately",
    "images hold the matching window at every scale (a 6x8 pair with windows <= 3, a 10x12 pair with window 5)",
    "loadable JSON = loads with Pandora's own reader (python json, which accepts the NaN literal)",
]

INVALIDS = [-9999, "NaN", 5]

# pipeline skeletons: list of (step name, cfg) with "@conf" where the confidence set is spliced in
SKELETONS = {
    "wta": [("matching_cost", None), "@conf", ("disparity", None)],
    "refine-filter": [("matching_cost", None), "@conf", ("disparity", None), ("refinement", {"refinement_method": "vfit"}),
                      ("filter", {"filter_method": "median", "filter_size": 3})],
    "cbca-bilateral": [("matching_cost", None), ("aggregation", {"aggregation_method": "cbca", "cbca_intensity": 30.0,
                                                                 "cbca_distance": 3}), "@conf", ("disparity", None),
                       ("filter", {"filter_method": "bilateral", "sigma_color": 2.0, "sigma_space": 1.0})],
    "validation": [("matching_cost", None), "@conf", ("disparity", None),
                   ("validation", {"validation_method": "cross_checking_accurate", "cross_checking_threshold": 1.0})],
    "validation-fill": [("matching_cost", None), "@conf", ("disparity", None),
                        ("refinement", {"refinement_method": "quadratic"}),
                        ("filter", {"filter_method": "median", "filter_size": 3}),
                        ("validation", {"validation_method": "cross_checking_accurate", "cross_checking_threshold": 0.5,
                                        "interpolated_disparity": "mc-cnn"}),
                        ("filter.after", {"filter_method": "median", "filter_size": 3})],
    "validation-sgm": [("matching_cost", None), "@conf", ("disparity", None),
                       ("validation", {"validation_method": "cross_checking_accurate", "cross_checking_threshold": 1.0,
                                       "interpolated_disparity": "sgm"})],
    "multiscale": [("matching_cost", None), "@conf", ("disparity", None), ("filter", {"filter_method": "median",
                                                                                      "filter_size": 3}),
                   ("multiscale", {"multiscale_method": "fixed_zoom_pyramid", "num_scales": 2, "scale_factor": 2,
                                   "marge": 1})],
}
CONFSETS = {
    "none": [],
    "std": [("cost_volume_confidence", {"confidence_method": "std_intensity"})],
    "amb+std": [("cost_volume_confidence.amb", {"confidence_method": "ambiguity", "eta_max": 0.7, "eta_step": 0.1}),
                ("cost_volume_confidence.std", {"confidence_method": "std_intensity"})],
    "amb+risk": [("cost_volume_confidence", {"confidence_method": "ambiguity", "eta_max": 0.5, "eta_step": 0.1}),
                 ("cost_volume_confidence.r", {"confidence_method": "risk", "eta_max": 0.5, "eta_step": 0.1})],
    "std+std": [("cost_volume_confidence", {"confidence_method": "std_intensity"}),
                ("cost_volume_confidence.again", {"confidence_method": "std_intensity"})],
    "amb+bounds": [("cost_volume_confidence", {"confidence_method": "ambiguity", "eta_max": 0.7, "eta_step": 0.1}),
                   ("cost_volume_confidence.ib", {"confidence_method": "interval_bounds"})],
}
MATCHING = {  # name -> matching cost cfg
    "sad3": {"matching_cost_method": "sad", "window_size": 3, "subpix": 1},
    "zncc3h": {"matching_cost_method": "zncc", "window_size": 3, "subpix": 2},
    "census3": {"matching_cost_method": "census", "window_size": 3, "subpix": 1},
    "ssd1q": {"matching_cost_method": "ssd", "window_size": 1, "subpix": 4},
}
MATCHING_BIG = {  # thorough only, on a 10x12 pair (every scale of the multiscale skeleton must hold the window)
    "census5": {"matching_cost_method": "census", "window_size": 5, "subpix": 1},
    "sad5h": {"matching_cost_method": "sad", "window_size": 5, "subpix": 2},
}
PRODUCTS = ["disparity", "validity_mask", "confidence_measure"]


# ----------------------------------------------------------------------------------------------
# spaces
# ----------------------------------------------------------------------------------------------
def _cases(tier, seed, level):
    skeletons = list(SKELETONS)
    confsets = list(CONFSETS)
    for si, sk in enumerate(skeletons):
        for ci, cs in enumerate(confsets):
            for ii, inv in enumerate(INVALIDS):
                for di, disp in enumerate(("list", "lgrid", "grids")):
                    if disp == "lgrid" and sk.startswith("validation"):
                        continue  # documented: cross-checking needs the right grids
                    if disp != "list" and sk == "multiscale":
                        continue  # documented: no multiscale with grids
                    for georef in (0, 1):
                        for masks in (0, 1):
                            dev = int(ci > 0) + int(ii > 0) + int(di > 0) + georef + masks
                            lvl = 0 if dev == 0 else (1 if dev == 1 else 2)
                            if lvl != level:
                                continue
                            k = si * 3 + ci * 5 + ii * 7 + di * 11 + georef * 13 + masks * 17 + seed
                            base = {"kind": "run", "sk": sk, "conf": cs, "inv": inv, "disp": disp, "georef": georef,
                                    "masks": masks, "seed": seed}
                            if georef:
                                # an EPSG entry, or a CRS that merely resembles one (UTM 31 on GRS80 without datum:
                                # the products must carry the input's CRS, not the closest catalogue entry)
                                base["crs"] = CRS_MENU[k % len(CRS_MENU)]
                            if tier == "quick":
                                yield dict(base, mc=list(MATCHING)[k % len(MATCHING)], shape=[6, 8], bands=1)
                            else:
                                for mc in MATCHING:
                                    yield dict(base, mc=mc, shape=[6, 8], bands=1)
                                if sk != "cbca-bilateral":
                                    yield dict(base, mc=list(MATCHING)[(k + 1) % len(MATCHING)], shape=[5, 7], bands=2)
                                yield dict(base, mc=list(MATCHING_BIG)[k % len(MATCHING_BIG)], shape=[10, 12], bands=1)


CRS_MENU = ["EPSG:32631", "+proj=utm +zone=31 +ellps=GRS80 +units=m +no_defs"]


def spaces(tier, seed):
    return [
        {"name": "default environment: every pipeline skeleton", "level": 0, "cases": _cases(tier, seed, 0)},
        {"name": "one deviation (confidence set | invalid_disparity | grids | georef | masks)", "level": 1,
         "cases": _cases(tier, seed, 1)},
        {"name": "complete product of the five dimensions", "level": 2, "cases": _cases(tier, seed, 2)},
    ]


# ----------------------------------------------------------------------------------------------
# inputs
# ----------------------------------------------------------------------------------------------
def pipeline_of(case) -> dict:
    out = {}
    for item in SKELETONS[case["sk"]]:
        if item == "@conf":
            for name, cfg in CONFSETS[case["conf"]]:
                out[name] = copy.deepcopy(cfg)
            continue
        name, cfg = item
        if name == "matching_cost":
            cfg = dict(MATCHING[case["mc"]] if case["mc"] in MATCHING else MATCHING_BIG[case["mc"]])
            if case["bands"] > 1:
                cfg["band"] = "g"
        elif name == "disparity":
            cfg = {"disparity_method": "wta", "invalid_disparity": case["inv"]}
        out[name] = copy.deepcopy(cfg)
    return out


def write_case(d, case) -> str:
    """writes rasters + configuration, returns the configuration path"""
    ny, nx = case["shape"]
    nb = case["bands"]
    seed = case["seed"]
    left, right = D.stereo_pair(ny, nx, shift=1, seed=seed)
    lefts, rights = [left], [right]
    for b in range(1, nb):
        l2, r2 = D.stereo_pair(ny, nx, shift=1, seed=seed + 10 * b)
        lefts.append(l2)
        rights.append(r2)
    lefts, rights = np.array(lefts), np.array(rights)
    nodata = -9999
    if case["masks"]:
        nodata = [7, "NaN"][(seed + case["georef"]) % 2]
        ndv = 7.0 if nodata == 7 else math.nan
        lefts[lefts == 7] = 8
        rights[rights == 7] = 8
        lefts[:, 1, 2] = ndv
        rights[0, ny - 2, 1] = ndv
    names = ["r", "g", "b"][:nb] if nb > 1 else None
    geo_l = {"georef": True, "crs": case.get("crs")} if case["georef"] else {}
    geo_r = {"georef": True, "crs": case.get("crs"),
             "transform": (0.5, 0.0, 358010.0, 0.0, -0.5, 4650000.0)} if case["georef"] else {}
    F.write_tif(f"{d}/left.tif", lefts, "float32", descriptions=names, **geo_l)
    F.write_tif(f"{d}/right.tif", rights, "float32", descriptions=names, **geo_r)
    inp = {"left": {"img": f"{d}/left.tif"}, "right": {"img": f"{d}/right.tif"}}
    if case["masks"]:
        ml = np.zeros((ny, nx), dtype=np.int16)
        mr = np.zeros((ny, nx), dtype=np.int16)
        ml[2, 4] = 1
        ml[ny - 1, 0] = 255
        mr[1, 3] = 2
        F.write_tif(f"{d}/left_mask.tif", ml, "uint8")
        F.write_tif(f"{d}/right_mask.tif", mr, "uint8")
        inp["left"].update(mask=f"{d}/left_mask.tif", nodata=nodata)
        inp["right"].update(mask=f"{d}/right_mask.tif", nodata=nodata)
    rr, cc = np.meshgrid(np.arange(ny), np.arange(nx), indexing="ij")
    if case["disp"] == "list":
        inp["left"]["disp"] = [-2, 1]
    else:
        gmin = (-1 - (rr + cc) % 2).astype(np.float32)
        gmax = ((rr * 2 + cc) % 3).astype(np.float32)
        F.write_tif(f"{d}/left_disp.tif", np.array([gmin, gmax]), "float32")
        inp["left"]["disp"] = f"{d}/left_disp.tif"
        if case["disp"] == "grids":
            rmin = (-((rr + cc * 2) % 3)).astype(np.float32)
            rmax = (1 + (rr + cc) % 2).astype(np.float32)
            F.write_tif(f"{d}/right_disp.tif", np.array([rmin, rmax]), "float32")
            inp["right"]["disp"] = f"{d}/right_disp.tif"
    cfg = {"input": inp, "pipeline": pipeline_of(case)}
    return F.write_json(f"{d}/user_cfg.json", cfg)


# ----------------------------------------------------------------------------------------------
# comparison helpers
# ----------------------------------------------------------------------------------------------
def deep_equal(a, b) -> bool:
    """NaN-aware equality of JSON-like values (ints and floats compare by value)"""
    if isinstance(a, dict) and isinstance(b, dict):
        return set(a) == set(b) and all(deep_equal(a[k], b[k]) for k in a)
    if isinstance(a, (list, tuple)) and isinstance(b, (list, tuple)):
        return len(a) == len(b) and all(deep_equal(x, y) for x, y in zip(a, b))
    if isinstance(a, (dict, list, tuple)) or isinstance(b, (dict, list, tuple)):
        return False
    if isinstance(a, bool) or isinstance(b, bool) or a is None or b is None or isinstance(a, str) or isinstance(b, str):
        return type(a) is type(b) and a == b
    try:
        fa, fb = float(a), float(b)
    except (TypeError, ValueError):
        return a == b
    return fa == fb or (math.isnan(fa) and math.isnan(fb))


def first_diff(a, b, path=""):
    if isinstance(a, dict) and isinstance(b, dict):
        for k in sorted(set(a) | set(b)):
            if k not in a or k not in b:
                return f"{path}/{k}: " + ("missing in saved file" if k not in a else "not in the completed configuration")
            if not deep_equal(a[k], b[k]):
                return first_diff(a[k], b[k], f"{path}/{k}")
    return f"{path}: saved {a!r} != expected {b!r}"


def jsonable(x):
    if isinstance(x, dict):
        return {str(k): jsonable(v) for k, v in x.items()}
    if isinstance(x, (list, tuple)):
        return [jsonable(v) for v in x]
    if isinstance(x, np.generic):
        return x.item()
    return x


def _dig(arr) -> str:
    a = np.ascontiguousarray(arr)
    if a.dtype.kind == "f":
        a = np.where(np.isnan(a), np.float32(-7.25e30), a).astype(np.float32)
    return hashlib.sha1(a.tobytes() + str(a.shape).encode() + str(a.dtype).encode()).hexdigest()[:10]


class Viol:
    def __init__(self):
        self.items = {}

    def add(self, clause, site, cls, detail):
        key = f"C19/{clause}/{site}/{cls}".rstrip("/")
        if key not in self.items:
            self.items[key] = {"clause": clause, "key": key, "detail": F.scrub(detail)}

    def list(self):
        return [self.items[k] for k in sorted(self.items)]


def compare_product(viol, fname, got, mem, geo, clause_prefix=""):
    """
    :param got: read_tif() of the written file
    :param mem: dict(data (band,row,col), names or None, dtype)
    :param geo: read_tif() of the input image whose georeferencing the product must carry
    """
    if got["count"] != mem["data"].shape[0]:
        viol.add("bands", fname, "count", f"{fname}: {got['count']} band(s) written, {mem['data'].shape[0]} in memory")
        return
    if any(t != mem["dtype"] for t in got["dtypes"]):
        viol.add("dtype", fname, "", f"{fname}: dtypes {got['dtypes']}, expected {mem['dtype']}")
    if mem["names"] is not None and [str(x) for x in got["descriptions"]] != [str(x) for x in mem["names"]]:
        viol.add("bands", fname, "names", f"{fname}: band descriptions {got['descriptions']}, indicators "
                 f"{list(mem['names'])}")
    a, b = got["data"], mem["data"]
    if a.shape != b.shape:
        viol.add("pixels", fname, "shape", f"{fname}: shape {a.shape} != in-memory {b.shape}")
    else:
        for band in range(a.shape[0]):
            x, y = a[band], b[band]
            if not np.array_equal(x.astype(np.float64), y.astype(np.float64), equal_nan=True):
                w = np.argwhere(~((x == y) | ((x != x) & (y != y))))[0]
                nanish = bool(np.isnan(np.float64(x[tuple(w)])) != np.isnan(np.float64(y[tuple(w)])))
                viol.add("pixels", fname, "NaN pattern" if nanish else "values",
                         f"{fname} band {band + 1} pixel {tuple(int(i) for i in w)}: file {x[tuple(w)]!r} != in-memory "
                         f"{y[tuple(w)]!r}")
                break
    if got["crs"] != geo["crs"]:
        viol.add("georef", fname, "crs", f"{fname}: crs {got['crs']!r} != input {geo['crs']!r}")
    if got["transform"] != geo["transform"]:
        viol.add("georef", fname, "transform", f"{fname}: transform {got['transform']} != input {geo['transform']}")


def memory_products(ds) -> dict:
    """file name stem -> dict(data, names, dtype) for a dataset returned by pandora.run"""
    out = {}
    if "disparity_map" in ds:
        out["disparity"] = {"data": np.asarray(ds["disparity_map"].data)[None], "names": None, "dtype": "float32",
                            "mem_dtype": str(ds["disparity_map"].dtype)}
    if "validity_mask" in ds:
        out["validity_mask"] = {"data": np.asarray(ds["validity_mask"].data)[None], "names": None, "dtype": "uint16",
                                "mem_dtype": str(ds["validity_mask"].dtype)}
    if "confidence_measure" in ds and ds["confidence_measure"].shape[2] > 0:
        out["confidence_measure"] = {
            "data": np.moveaxis(np.asarray(ds["confidence_measure"].data), 2, 0),
            "names": [str(x) for x in ds.coords["indicator"].data], "dtype": "float32",
            "mem_dtype": str(ds["confidence_measure"].dtype),
        }
    return out


def run_main(cfg_path, out):
    import pandora  # pylint: disable=import-outside-toplevel

    try:
        pandora.main(cfg_path, out, False)
        return None
    except BaseException as e:  # pylint: disable=broad-except
        if isinstance(e, (KeyboardInterrupt, MemoryError)):
            raise
        return e


def read_outputs(out) -> dict:
    return {f: F.read_tif(os.path.join(out, f)) for f in F.listing(out) if f.endswith(".tif")}


def compare_runs(viol, first, second, clause):
    if sorted(first) != sorted(second):
        viol.add(clause, "files", "", f"replay wrote {sorted(second)}, first run wrote {sorted(first)}")
    for f in sorted(set(first) & set(second)):
        a, b = first[f], second[f]
        for k in ("count", "dtypes", "descriptions", "crs", "transform"):
            if a[k] != b[k]:
                viol.add(clause, f, k, f"{f}: {k} {b[k]!r} after replay, {a[k]!r} in the first run")
        if a["data"].shape != b["data"].shape or not np.array_equal(a["data"].astype(np.float64),
                                                                    b["data"].astype(np.float64), equal_nan=True):
            viol.add(clause, f, "pixels", f"{f}: pixels of the replay differ from the first run")


# ----------------------------------------------------------------------------------------------
# the case
# ----------------------------------------------------------------------------------------------
def run_case(case):
    import logging  # pylint: disable=import-outside-toplevel

    logging.disable(logging.CRITICAL)
    import pandora  # pylint: disable=import-outside-toplevel
    from pandora import check_configuration as cc  # pylint: disable=import-outside-toplevel
    from pandora.img_tools import create_dataset_from_inputs  # pylint: disable=import-outside-toplevel
    from pandora.state_machine import PandoraMachine  # pylint: disable=import-outside-toplevel

    viol = Viol()
    has_validation = any(k.split(".")[0] == "validation" for k in pipeline_of(case))
    cls = f"{case['sk']}|{case['conf']}|{case['inv']}|{case['disp']}|g{case['georef']}|m{case['masks']}|{case['mc']}|" \
          f"{case['shape']}|{case['bands']}"
    with F.case_dir() as d:
        cfg_path = write_case(d, case)
        out1 = os.path.join(d, "out1")

        # --- 1. command line entry point
        err_main = run_main(cfg_path, out1)

        # --- 2. the same computation through the API
        machine = PandoraMachine()
        api_err = None
        cfg = left = right = None
        try:
            user_cfg = cc.read_config_file(cfg_path)
            cfg = cc.check_conf(user_cfg, machine)
        except Exception as e:  # pylint: disable=broad-except
            api_err = e
        if api_err is not None:
            if err_main is None:
                viol.add("accept-mismatch", "main", "", f"pandora.main ran a configuration that check_conf refuses: "
                         f"{type(api_err).__name__}: {api_err}")
            # not an accepted configuration: outside the quantifier of the property
            return {"n": 1, "sigs": [], "viol": viol.list(), "trivial": 1}
        if err_main is not None:
            viol.add("main-raised", "main", type(err_main).__name__, f"pandora.main raised {type(err_main).__name__}: "
                     f"{err_main} on a configuration accepted by check_conf ({cls})")
            return {"n": 1, "sigs": [], "viol": viol.list()}
        completed = copy.deepcopy(cfg)
        cfg_left = copy.deepcopy(cfg["input"]["left"])
        cfg_right = copy.deepcopy(cfg["input"]["right"])
        derived = None
        if cfg_right["disp"] is None and isinstance(cfg_left["disp"], list):
            derived = [-cfg_left["disp"][1], -cfg_left["disp"][0]]
            cfg_right["disp"] = derived
        left_img = create_dataset_from_inputs(input_config=cfg_left)
        right_img = create_dataset_from_inputs(input_config=cfg_right)
        cc.check_datasets(left_img, right_img)
        left, right = pandora.run(machine, left_img, right_img, cfg)
        margins = jsonable(machine.margins.to_dict())

        # --- files
        listing = F.listing(out1)
        mem = {"left": memory_products(left), "right": memory_products(right) if has_validation else {}}
        if has_validation and not mem["right"]:
            # the API run produced no right products although the pipeline validates: compare what main wrote anyway
            mem["right"] = memory_products(right)
        expected_files = {"cfg/config.json"}
        for side in ("left", "right"):
            if side == "right" and not has_validation:
                continue
            for stem in ("disparity", "validity_mask"):
                expected_files.add(f"{side}_{stem}.tif")
            if "confidence_measure" in mem[side]:
                expected_files.add(f"{side}_confidence_measure.tif")
        for f in sorted(expected_files - set(listing)):
            viol.add("files", "missing", f, f"{f} not written ({cls}); written: {listing}")
        for f in sorted(set(listing) - expected_files):
            viol.add("files", "unexpected", f, f"{f} written but not expected ({cls}); validation step: {has_validation}, "
                     f"in-memory confidence bands: left {mem['left'].get('confidence_measure', {}).get('names')} right "
                     f"{mem['right'].get('confidence_measure', {}).get('names')}")
        geo = {"left": F.read_tif(f"{d}/left.tif"), "right": F.read_tif(f"{d}/right.tif")}
        outputs1 = read_outputs(out1)
        for side in ("left", "right"):
            for stem in PRODUCTS:
                f = f"{side}_{stem}.tif"
                if f in outputs1 and stem in mem[side]:
                    compare_product(viol, f, outputs1[f], mem[side][stem], geo[side])

        # --- 3. saved configuration
        saved = None
        saved_path = os.path.join(out1, "cfg", "config.json")
        if os.path.exists(saved_path):
            try:
                saved = cc.read_config_file(saved_path)
            except Exception as e:  # pylint: disable=broad-except
                viol.add("config", "load", type(e).__name__, f"cfg/config.json does not load: {e}")
        if saved is not None:
            if not isinstance(saved, dict) or "pipeline" not in saved or "input" not in saved:
                viol.add("config", "sections", "", f"cfg/config.json lacks input/pipeline: keys {sorted(saved)}")
            else:
                if not deep_equal(saved["pipeline"], jsonable(completed["pipeline"])) and not deep_equal(
                        saved["pipeline"], jsonable(cfg["pipeline"])):
                    viol.add("config", "pipeline", "", "pipeline section differs from the completed configuration: "
                             + first_diff(saved["pipeline"], jsonable(completed["pipeline"])))
                exp_input = jsonable(completed["input"])
                got_input = copy.deepcopy(saved["input"])
                try:
                    if derived is not None and deep_equal(got_input["right"]["disp"], derived):
                        got_input["right"]["disp"] = None
                except (KeyError, TypeError):
                    pass
                if not deep_equal(got_input, exp_input):
                    viol.add("config", "input", "", "input section differs from the completed configuration: "
                             + first_diff(got_input, exp_input))
                if "margins" not in saved:
                    viol.add("config", "margins", "missing", "cfg/config.json has no margins entry")
                elif not deep_equal(saved["margins"], margins):
                    viol.add("config", "margins", "values", "margins differ from machine.margins.to_dict(): "
                             + first_diff(saved["margins"], margins))

        # --- 4. replay of the saved configuration
        if saved is not None:
            out2 = os.path.join(d, "out2")
            err = run_main(saved_path, out2)
            if err is not None:
                rewritten = derived is not None and isinstance(saved, dict) and deep_equal(
                    saved.get("input", {}).get("right", {}).get("disp"), derived)
                kind = "integer interval, right disp written back" if rewritten else case["disp"]
                viol.add("replay-refused", "main", f"{kind}/{type(err).__name__}",
                         f"pandora.main refuses/raises on its own cfg/config.json ({cls}): {type(err).__name__}: "
                         f"{' '.join(str(err).split())}")
                if rewritten:
                    patched = copy.deepcopy(saved)
                    patched["input"]["right"]["disp"] = None
                    p2 = F.write_json(os.path.join(d, "patched.json"), patched)
                    out3 = os.path.join(d, "out3")
                    err3 = run_main(p2, out3)
                    if err3 is not None:
                        viol.add("replay-refused", "main", f"right disp reset to null/{type(err3).__name__}",
                                 f"cfg/config.json with input.right.disp reset to null is refused too ({cls}): "
                                 f"{type(err3).__name__}: {' '.join(str(err3).split())}")
                    else:
                        compare_runs(viol, outputs1, read_outputs(out3), "replay-rasters")
            else:
                compare_runs(viol, outputs1, read_outputs(out2), "replay-rasters")

    vm = mem["left"].get("validity_mask")
    dm = mem["left"].get("disparity")
    nontrivial = vm is not None and dm is not None and bool(len(np.unique(vm["data"])) > 1
                                                            and np.isfinite(dm["data"]).any())
    if not nontrivial:
        return {"n": 1, "sigs": [], "viol": viol.list(), "trivial": 1}
    sig = cls + "|" + ",".join(listing) + "|" + ",".join(f"{f}:{_dig(o['data'])}" for f, o in sorted(outputs1.items()))
    return {"n": 1, "sigs": [sig], "viol": viol.list()}


def init_worker():
    run_case({"kind": "run", "sk": "validation", "conf": "amb+risk", "inv": -9999, "disp": "list", "georef": 0,
              "masks": 0, "seed": 0, "mc": "sad3", "shape": [6, 8], "bands": 1})


def finalize(tier, seed, ctx):  # pylint: disable=unused-argument
    F.sweep_stale()
    return {}
