#!/bin/bash
# Run once after a fresh restore, offline.  Builds nothing from the network: creates the scratch
# directories, checks the interpreter/tools, and warms the numba cache for the current /repo tree.
set -e
cd "$(dirname "$0")"
mkdir -p evidence out/replays .cache/numba
test -x /venv/bin/python
/venv/bin/python tools/warm.py
python3-vt - <<'PY'
import json, jsonschema
m = json.load(open("MANIFEST.json"))
try:
    jsonschema.validate(m, json.load(open("/root/.vp/MANIFEST.schema.json")))
except FileNotFoundError:
    pass
print("MANIFEST ok:", len(m["checks"]), "checks")
PY
command -v tlc >/dev/null && echo "tlc present" || echo "WARNING: tlc missing (C01 thorough model step will be skipped loudly)"
