"""
Reference model of the cost-volume confidence measures, written from
docs/source/userguide/step_by_step/cost_volume_confidence.rst and the statement of C12 (float64, plain numpy).

Conventions
-----------
* costs: (row, col, disp) array; NaN = not computed.  `type_measure` "min": the pixel's best cost is its smallest
  finite cost, "max": its largest.  Normalised distance to the best of disparity d:
      diff(d) = |c(d) - best| / (max_volume - min_volume)                     (>= 0, NaN where c(d) is NaN)
* eta grid: eta_k = k * eta_step for every k with eta_k < eta_max.  When k*eta_step equals eta_max up to `tol`
  (decimal steps are not binary numbers) the last sample is optional: both grids are accepted.
* a disparity is "within eta" when diff <= eta.  diff == eta up to `tol` is a *tie*: the documentation writes `<`,
  the statement "within": a tie may count or not, independently of every other tie.
* NaN costs: the statement does not say whether a disparity without cost is "within eta".  Two readings, applied to
  a whole band at once: nan_in=True (never excluded: counted, and part of the spread), nan_in=False (never counted).

Everything returns *ranges* (lo, hi) so that the caller accepts exactly the readings above and nothing else.
"""
from __future__ import annotations

import numpy as np

TOL = 1e-6


# ----------------------------------------------------------------------------------------------
# basics
# ----------------------------------------------------------------------------------------------
def eta_grid(eta_max: float, eta_step: float, tol: float = TOL):
    """-> (list of etas certainly in [0, eta_max), optional last eta or None)"""
    sure = []
    k = 0
    while True:
        e = k * eta_step
        if e < eta_max - tol:
            sure.append(e)
        elif e <= eta_max + tol:
            return sure, e
        else:
            return sure, None
        k += 1


def normalised_diff(costs, type_measure):
    """
    -> diff (row, col, disp) float64 (NaN where the cost is NaN), allnan (row, col) bool
    requires at least two distinct finite costs in the volume
    """
    c = np.asarray(costs, dtype=np.float64)
    fin = ~np.isnan(c)
    gmin = np.min(c[fin])
    gmax = np.max(c[fin])
    if not gmax > gmin:
        raise ValueError("volume needs two distinct finite costs")
    allnan = ~fin.any(axis=2)
    if type_measure == "min":
        best = np.min(np.where(fin, c, np.inf), axis=2)
        diff = (c - best[:, :, None]) / (gmax - gmin)
    else:
        best = np.max(np.where(fin, c, -np.inf), axis=2)
        diff = (best[:, :, None] - c) / (gmax - gmin)
    diff[~fin] = np.nan
    return diff, allnan


def _masks(diff, etas, nan_in, tol):
    """
    bit masks (bit d = disparity index d) per (pixel, eta): certainly within / tie
    -> sure (npix, neta) int64, tie (npix, neta) int64
    """
    ny, nx, nd = diff.shape
    d = diff.reshape(-1, nd)
    e = np.asarray(etas, dtype=np.float64)
    nan = np.isnan(d)
    weights = (1 << np.arange(nd)).astype(np.int64)
    dd = np.where(nan, np.inf, d)[:, None, :]  # (npix, 1, nd)
    ee = e[None, :, None]
    within = dd < ee - tol
    ties = (np.abs(dd - ee) <= tol)
    if nan_in:
        within = within | nan[:, None, :]
    sure = (within * weights).sum(axis=2)
    tie = (ties * weights).sum(axis=2)
    return sure, tie


def _tables(nd):
    n = 1 << nd
    pop = np.zeros(n, dtype=np.int64)
    spread = np.zeros(n, dtype=np.int64)
    for m in range(1, n):
        bits = [i for i in range(nd) if m >> i & 1]
        pop[m] = len(bits)
        spread[m] = bits[-1] - bits[0]
    return pop, spread


# ----------------------------------------------------------------------------------------------
# ambiguity
# ----------------------------------------------------------------------------------------------
def ambiguity_counts(costs, type_measure, eta_max, eta_step, nan_in, tol=TOL):
    """
    Integral of the ambiguity curve: sum over the eta grid of #{d : diff(d) <= eta}.
    -> list of (lo, hi) pairs of (row, col) int arrays; the observed count must lie in one of the pairs
       (one pair per accepted eta grid)
    """
    diff, _ = normalised_diff(costs, type_measure)
    ny, nx, nd = diff.shape
    sure_etas, extra = eta_grid(eta_max, eta_step, tol)
    pop, _ = _tables(nd)
    etas = list(sure_etas) + ([extra] if extra is not None else [])
    sure, tie = _masks(diff, etas, nan_in, tol)
    lo_e = pop[sure]
    hi_e = pop[sure | tie]
    n = len(sure_etas)
    out = [(lo_e[:, :n].sum(axis=1).reshape(ny, nx), hi_e[:, :n].sum(axis=1).reshape(ny, nx))]
    if extra is not None:
        out.append((lo_e.sum(axis=1).reshape(ny, nx), hi_e.sum(axis=1).reshape(ny, nx)))
    return out


# ----------------------------------------------------------------------------------------------
# risk
# ----------------------------------------------------------------------------------------------
def risk_ranges(costs, type_measure, eta_max, eta_step, nan_in, tol=TOL):
    """
    Risk(eta) = max(d) - min(d) over the disparities within eta of the best (in samples of the disparity axis),
    risk_max = mean_eta Risk(eta), risk_min = mean_eta (1 + Risk(eta) - Amb(eta)).
    The best itself is within every eta >= 0 (distance 0), so the set is never empty; other ties are free.
    -> list (one per accepted eta grid) of dict(max_lo, max_hi, min_lo, min_hi) (row, col) float64;
       NaN on pixels without any finite cost (not constrained)
    """
    diff, allnan = normalised_diff(costs, type_measure)
    ny, nx, nd = diff.shape
    sure_etas, extra = eta_grid(eta_max, eta_step, tol)
    etas = list(sure_etas) + ([extra] if extra is not None else [])
    sure, tie = _masks(diff, etas, nan_in, tol)
    # the best(s): distance exactly 0 -> certainly within
    d2 = diff.reshape(-1, nd)
    weights = (1 << np.arange(nd)).astype(np.int64)
    best_mask = ((d2 == 0) * weights).sum(axis=1)
    sure = sure | best_mask[:, None]
    tie = tie & ~sure
    pop, spread = _tables(nd)
    f_lo = spread[sure].astype(np.float64)
    f_hi = f_lo.copy()
    g = 1 + spread[sure] - pop[sure]
    g_lo = g.astype(np.float64)
    g_hi = g_lo.copy()
    for p, k in np.argwhere(tie != 0):
        s, t = int(sure[p, k]), int(tie[p, k])
        sub = t
        fl = fh = float(spread[s])
        gl = gh = float(1 + spread[s] - pop[s])
        while sub:
            m = s | sub
            f = float(spread[m])
            gg = float(1 + spread[m] - pop[m])
            fl, fh, gl, gh = min(fl, f), max(fh, f), min(gl, gg), max(gh, gg)
            sub = (sub - 1) & t
        f_lo[p, k], f_hi[p, k], g_lo[p, k], g_hi[p, k] = fl, fh, gl, gh
    out = []
    grids = [len(sure_etas)] + ([len(etas)] if extra is not None else [])
    bad = allnan.reshape(-1)
    for n in grids:
        rec = {}
        for name, arr in (("max_lo", f_lo), ("max_hi", f_hi), ("min_lo", g_lo), ("min_hi", g_hi)):
            v = arr[:, :n].mean(axis=1)
            v[bad] = np.nan
            rec[name] = v.reshape(ny, nx)
        out.append(rec)
    return out


# ----------------------------------------------------------------------------------------------
# interval bounds
# ----------------------------------------------------------------------------------------------
def interval_bounds(costs, disps, type_measure, threshold, tol=0.0):
    """
    possibility(d) = 1 - diff(d);  D = {d : possibility(d) >= threshold};  [inf, sup] = [min D, max D], each end moved
    one sample outwards (inside the disparity axis) when it sits on a best cost (possibility 1).
    With tol > 0 disparities whose possibility equals the threshold up to tol may be in D or not.
    -> inf_lo, inf_hi, sup_lo, sup_hi (row, col) float64, NaN on pixels without finite cost (not constrained)
    """
    diff, allnan = normalised_diff(costs, type_measure)
    ny, nx, nd = diff.shape
    disps = np.asarray(disps, dtype=np.float64)
    poss = 1.0 - diff
    out = []
    for t in ((threshold - tol, min(threshold + tol, 1.0)) if tol > 0 else (threshold,)):
        inside = np.where(np.isnan(poss), False, poss >= t)
        best = np.where(np.isnan(diff), False, diff == 0)
        idx = np.arange(nd)[None, None, :]
        lo_i = np.where(inside, idx, nd).min(axis=2)
        hi_i = np.where(inside, idx, -1).max(axis=2)
        lo_i = np.clip(lo_i, 0, nd - 1)
        hi_i = np.clip(hi_i, 0, nd - 1)
        lo_best = np.take_along_axis(best, lo_i[:, :, None], axis=2)[:, :, 0]
        hi_best = np.take_along_axis(best, hi_i[:, :, None], axis=2)[:, :, 0]
        lo_i = np.where(lo_best, np.maximum(lo_i - 1, 0), lo_i)
        hi_i = np.where(hi_best, np.minimum(hi_i + 1, nd - 1), hi_i)
        inf = disps[lo_i]
        sup = disps[hi_i]
        inf[allnan] = np.nan
        sup[allnan] = np.nan
        out.append((inf, sup))
    if len(out) == 1:
        inf, sup = out[0]
        return inf, inf, sup, sup
    (inf_a, sup_a), (inf_b, sup_b) = out  # a: larger set D (threshold - tol), b: smaller set
    return np.minimum(inf_a, inf_b), np.maximum(inf_a, inf_b), np.minimum(sup_a, sup_b), np.maximum(sup_a, sup_b)


def wta(costs, disps, type_measure):
    """lowest disparity among the best finite costs; NaN when there is none (same as ref of C03)"""
    c = np.asarray(costs, dtype=np.float64)
    fin = ~np.isnan(c)
    if type_measure == "min":
        best = np.argmin(np.where(fin, c, np.inf), axis=2)
    else:
        best = np.argmax(np.where(fin, c, -np.inf), axis=2)
    out = np.asarray(disps, dtype=np.float64)[best]
    out[~fin.any(axis=2)] = np.nan
    return out


# ----------------------------------------------------------------------------------------------
# std of the left window
# ----------------------------------------------------------------------------------------------
def window_std(im, window):
    """(row, col) float64, NaN where the window does not fit (population standard deviation, plain loops)"""
    im = np.asarray(im, dtype=np.float64)
    ny, nx = im.shape
    off = (window - 1) // 2
    out = np.full((ny, nx), np.nan)
    for r in range(off, ny - off):
        for c in range(off, nx - off):
            w = im[r - off: r + off + 1, c - off: c + off + 1]
            m = w.mean()
            out[r, c] = np.sqrt(((w - m) ** 2).mean())
    return out
