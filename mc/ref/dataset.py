"""
Reference model of the image dataset of property C16, written from the property statement (not from img_tools.py).

Statement, clause by clause:
  S1  `im` holds the image samples unchanged as float32 (band names from the file);
  S2  a pixel is no-data  <=> an image sample (any band) equals the nodata value; NaN / +-inf nodata are matched
      with isnan / isinf-of-that-sign and such samples are replaced by -9999;
  S3  a pixel is invalid  <=> the input mask is non-zero there and the pixel is not no-data;
  S4  a pixel is valid otherwise; there is no mask variable at all when there is nothing to flag;
  S5  the disparity variable is the [min, max] pair broadcast, or the two grid bands;
  S6  classification and segmentation rasters are attached unchanged;
  S7  reading with a ROI == cropping the full read to rows/cols [first - margin, last + margin] clipped to the
      image, coordinates included; a ROI entirely outside the image is refused.

Everything is plain loops over pixels: slow, boring, obviously right.
"""
from __future__ import annotations

import math

import numpy as np

VALID, NODATA, INVALID = "V", "N", "I"


# ----------------------------------------------------------------------------------------------
# S7: windows
# ----------------------------------------------------------------------------------------------
def axis_window(first, last, margin_before, margin_after, size):
    """
    [first - margin_before, last + margin_after] clipped to [0, size - 1]
    :return: (lo, hi) inclusive, or None when the intersection is empty
    """
    lo = first - margin_before
    hi = last + margin_after
    lo = max(lo, 0)
    hi = min(hi, size - 1)
    if lo > hi:
        return None
    return lo, hi


def window(roi, width, height):
    """
    :param roi: {"col": {"first", "last"}, "row": {"first", "last"}, "margins": [left, up, right, down]}
    :return: None (refusal expected) or (col_lo, col_hi, row_lo, row_hi) inclusive
    """
    left, up, right, down = roi["margins"]
    cols = axis_window(roi["col"]["first"], roi["col"]["last"], left, right, width)
    rows = axis_window(roi["row"]["first"], roi["row"]["last"], up, down, height)
    if cols is None or rows is None:
        return None
    return cols[0], cols[1], rows[0], rows[1]


def empty_reason(roi, width, height):
    """which end of which axis makes the intersection empty (classification of a missed refusal)"""
    left, up, right, down = roi["margins"]
    out = []
    for first, last, before, after, size in (
        (roi["col"]["first"], roi["col"]["last"], left, right, width),
        (roi["row"]["first"], roi["row"]["last"], up, down, height),
    ):
        if last + after < 0:
            out.append("last+margin = -1" if last + after == -1 else "last+margin < -1")
        elif first - before > size - 1:
            out.append("first-margin = size" if first - before == size else "first-margin > size")
    return out


# ----------------------------------------------------------------------------------------------
# S1-S4: samples and mask
# ----------------------------------------------------------------------------------------------
def is_nodata_sample(value, nodata) -> bool:
    """does the float32 sample `value` equal the nodata value (S2)"""
    value = float(value)
    nodata = float(nodata)
    if math.isnan(nodata):
        return math.isnan(value)
    if math.isinf(nodata):
        return math.isinf(value) and (value > 0) == (nodata > 0)
    return value == nodata


def image_model(samples, nodata, mask):
    """
    :param samples: (band, row, col) array as stored in the file
    :param nodata: nodata value of the input section
    :param mask: (row, col) integer array of the mask file, or None
    :return: (im float32 (band,row,col), classes (row,col) array of 'V'/'N'/'I', flagged: bool)
    """
    samples = np.asarray(samples)
    nb, ny, nx = samples.shape
    im = np.empty((nb, ny, nx), dtype=np.float32)
    classes = np.empty((ny, nx), dtype="<U1")
    special = math.isnan(float(nodata)) or math.isinf(float(nodata))
    for r in range(ny):
        for c in range(nx):
            nd = False
            for b in range(nb):
                v = np.float32(samples[b, r, c])
                if is_nodata_sample(v, nodata):
                    nd = True
                    if special:
                        v = np.float32(-9999)
                im[b, r, c] = v
            if nd:
                classes[r, c] = NODATA
            elif mask is not None and int(mask[r, c]) != 0:
                classes[r, c] = INVALID
            else:
                classes[r, c] = VALID
    flagged = bool((classes != VALID).any())
    return im, classes, flagged


def decode_msk(ds):
    """classes of the `msk` variable of a Pandora dataset, read through the documented attribute convention"""
    msk = np.asarray(ds["msk"].data)
    out = np.empty(msk.shape, dtype="<U1")
    out[...] = INVALID
    out[msk == ds.attrs["valid_pixels"]] = VALID
    out[msk == ds.attrs["no_data_mask"]] = NODATA
    return out


def same(a, b) -> bool:
    a = np.asarray(a)
    b = np.asarray(b)
    if a.shape != b.shape:
        return False
    if a.dtype.kind == "f" or b.dtype.kind == "f":
        return bool(np.array_equal(a.astype(np.float64), b.astype(np.float64), equal_nan=True))
    return bool(np.array_equal(a, b))


# ----------------------------------------------------------------------------------------------
# full read against the model
# ----------------------------------------------------------------------------------------------
def compare_full(ds, spec) -> list:
    """
    :param ds: dataset returned by create_dataset_from_inputs (no ROI)
    :param spec: dict(samples (b,r,c), nodata, mask|None, mask_given: bool, bands: names, disp: None|[a,b]|(2,r,c) array,
                      classif: None|(k,r,c), classif_names, segm: None|(r,c))
    :return: list of (clause, input class, detail)
    """
    out = []
    samples = np.asarray(spec["samples"])
    nb, ny, nx = samples.shape
    im_exp, cls_exp, flagged = image_model(samples, spec["nodata"], spec["mask"])

    # --- S1 dims / dtype / band names / coordinates
    if "im" not in ds:
        return [("im-present", "", "no `im` variable")]
    im = ds["im"]
    want_dims = ("row", "col") if nb == 1 else ("band_im", "row", "col")
    if tuple(im.dims) != want_dims:
        out.append(("im-dims", f"{min(nb, 2)} band(s)", f"dims {tuple(im.dims)} expected {want_dims}"))
        return out
    if im.dtype != np.float32:
        out.append(("im-dtype", "", f"im dtype {im.dtype}, expected float32"))
    if nb > 1 and [str(x) for x in ds.coords["band_im"].data] != [str(x) for x in spec["bands"]]:
        out.append(("band-names", "", f"band_im {list(ds.coords['band_im'].data)} expected {list(spec['bands'])}"))
    if not np.array_equal(ds.coords["row"].data, np.arange(ny)) or not np.array_equal(ds.coords["col"].data,
                                                                                      np.arange(nx)):
        out.append(("coords", "full read", f"row {ds.coords['row'].data.tolist()} col {ds.coords['col'].data.tolist()}"))
        return out
    got = np.asarray(im.data).reshape(nb, ny, nx)
    if not same(got, im_exp):
        w = np.argwhere(~((got == im_exp) | (np.isnan(got) & np.isnan(im_exp))))[0]
        b, r, c = (int(x) for x in w)
        nd = is_nodata_sample(np.float32(samples[b, r, c]), spec["nodata"])
        out.append(("im-samples", "no-data sample" if nd else "ordinary sample",
                    f"band {b} pixel ({r},{c}): file sample {samples[b, r, c]!r} nodata {spec['nodata']!r} expected "
                    f"{im_exp[b, r, c]!r} got {got[b, r, c]!r}"))

    # --- S2-S4 mask
    if "msk" not in ds:
        if flagged:
            r, c = (int(x) for x in np.argwhere(cls_exp != VALID)[0])
            out.append(("msk-missing", f"pixel should be {cls_exp[r, c]}",
                        f"no msk variable although pixel ({r},{c}) should be {cls_exp[r, c]}"))
    else:
        if tuple(ds["msk"].dims) != ("row", "col") or ds["msk"].shape != (ny, nx):
            out.append(("msk-dims", "", f"msk dims {ds['msk'].dims} shape {ds['msk'].shape}"))
        else:
            cls_got = decode_msk(ds)
            if not flagged and not spec["mask_given"]:
                out.append(("msk-superfluous", "", "msk variable present although no mask file and no no-data sample"))
            bad = np.argwhere(cls_got != cls_exp)
            if len(bad):
                r, c = (int(x) for x in bad[0])
                mv = None if spec["mask"] is None else int(spec["mask"][r, c])
                nd = cls_exp[r, c] == NODATA
                mcls = "no mask file" if mv is None else ("mask 0" if mv == 0 else ("mask negative" if mv < 0
                                                                                      else "mask positive"))
                out.append(("msk-class", f"expected {cls_exp[r, c]} got {cls_got[r, c]}/{mcls}"
                            + ("/no-data sample" if nd else ""),
                            f"pixel ({r},{c}): mask file value {mv}, samples {samples[:, r, c].tolist()}, nodata "
                            f"{spec['nodata']!r}: expected class {cls_exp[r, c]} got {cls_got[r, c]} (msk value "
                            f"{int(ds['msk'].data[r, c])}); {len(bad)} pixel(s) differ"))

    # --- S5 disparity
    disp = spec.get("disp")
    if disp is None:
        if "disparity" in ds:
            out.append(("disparity", "none given", "disparity variable invented"))
    else:
        if "disparity" not in ds:
            out.append(("disparity", "missing", "no disparity variable"))
        else:
            d = ds["disparity"]
            kind = "interval" if isinstance(disp, (list, tuple)) else "grid"
            if tuple(d.dims) != ("band_disp", "row", "col") or [str(x) for x in ds.coords["band_disp"].data] != [
                "min", "max"
            ]:
                out.append(("disparity", kind + "/bands", f"dims {d.dims} band_disp "
                            f"{list(ds.coords['band_disp'].data) if 'band_disp' in ds.coords else None}"))
            else:
                if kind == "interval":
                    exp = np.empty((2, ny, nx), dtype=np.float64)
                    exp[0, :, :] = disp[0]
                    exp[1, :, :] = disp[1]
                else:
                    exp = np.asarray(disp).astype(np.float32)
                if not same(d.data, exp):
                    out.append(("disparity", kind + "/values", f"disparity {np.asarray(d.data).tolist()} expected "
                                f"{exp.tolist()}"))

    # --- S6 classif / segm
    if spec.get("classif") is None:
        if "classif" in ds:
            out.append(("classif", "none given", "classif variable invented"))
    else:
        if "classif" not in ds:
            out.append(("classif", "missing", "no classif variable"))
        else:
            k = ds["classif"]
            if tuple(k.dims) != ("band_classif", "row", "col") or [str(x) for x in ds.coords["band_classif"].data] != [
                str(x) for x in spec["classif_names"]
            ]:
                out.append(("classif", "bands", f"dims {k.dims}, names "
                            f"{list(ds.coords['band_classif'].data) if 'band_classif' in ds.coords else None}"))
            elif not same(k.data, spec["classif"]):
                out.append(("classif", "values", f"classif {np.asarray(k.data).tolist()} expected "
                            f"{np.asarray(spec['classif']).tolist()}"))
    if spec.get("segm") is None:
        if "segm" in ds:
            out.append(("segm", "none given", "segm variable invented"))
    else:
        if "segm" not in ds:
            out.append(("segm", "missing", "no segm variable"))
        elif tuple(ds["segm"].dims) != ("row", "col") or not same(ds["segm"].data, spec["segm"]):
            out.append(("segm", "values", f"segm {np.asarray(ds['segm'].data).tolist()} expected "
                        f"{np.asarray(spec['segm']).tolist()}"))
    return out


# ----------------------------------------------------------------------------------------------
# ROI read against the crop of the full read (S7)
# ----------------------------------------------------------------------------------------------
def compare_crop(roi_ds, full_ds, win, nodata) -> list:
    """
    :param win: (col_lo, col_hi, row_lo, row_hi) inclusive, from `window`
    :return: list of (clause, input class, detail)
    """
    c0, c1, r0, r1 = win
    out = []
    crop = full_ds.isel(row=slice(r0, r1 + 1), col=slice(c0, c1 + 1))
    for axis in ("row", "col"):
        if axis not in roi_ds.coords or not np.array_equal(np.asarray(roi_ds.coords[axis].data),
                                                           np.asarray(crop.coords[axis].data)):
            got = roi_ds.coords[axis].data.tolist() if axis in roi_ds.coords else None
            out.append(("roi-coords", axis, f"{axis} coordinates {got} expected {crop.coords[axis].data.tolist()}"))
    if out:
        return out
    for k in sorted(set(crop.coords) | set(roi_ds.coords)):
        if k in ("row", "col"):
            continue
        if k not in crop.coords or k not in roi_ds.coords or [str(x) for x in crop.coords[k].data] != [
            str(x) for x in roi_ds.coords[k].data
        ]:
            out.append(("roi-coords", k, f"coordinate {k} differs between ROI read and crop"))
    names = sorted(set(crop.data_vars) | set(roi_ds.data_vars))
    for name in names:
        if name == "msk":
            continue
        if name not in roi_ds or name not in crop:
            out.append(("roi-crop", name, f"variable {name}: in ROI read {name in roi_ds}, in full read {name in crop}"))
            continue
        a, b = roi_ds[name], crop[name]
        if tuple(a.dims) != tuple(b.dims) or a.dtype != b.dtype or not same(a.data, b.data):
            out.append(("roi-crop", name, f"{name}: ROI read {np.asarray(a.data).tolist()} ({a.dtype}, dims {a.dims}) "
                        f"!= crop of the full read {np.asarray(b.data).tolist()} ({b.dtype}, dims {b.dims})"))
    # mask: equal as classes; a ROI read may omit msk when the crop of the full mask flags nothing (S4 read on the
    # ROI dataset itself) - both readings are accepted
    if "msk" in crop:
        cls_crop = decode_msk(crop)
        if "msk" in roi_ds:
            if roi_ds["msk"].shape != crop["msk"].shape:
                out.append(("roi-crop", "msk", f"msk shape {roi_ds['msk'].shape} != {crop['msk'].shape}"))
            elif not np.array_equal(decode_msk(roi_ds), cls_crop):
                out.append(("roi-crop", "msk", f"msk classes {decode_msk(roi_ds).tolist()} != crop of the full read "
                            f"{cls_crop.tolist()}"))
        elif (cls_crop != VALID).any():
            out.append(("roi-crop", "msk missing", f"ROI read has no msk, crop of the full read flags "
                        f"{cls_crop.tolist()}"))
    elif "msk" in roi_ds:
        out.append(("roi-crop", "msk invented", "ROI read has msk, full read has none"))
    for k in ("crs", "transform", "valid_pixels", "no_data_mask", "disparity_source"):
        if roi_ds.attrs.get(k) != full_ds.attrs.get(k) or (k in roi_ds.attrs) != (k in full_ds.attrs):
            out.append(("roi-attrs", k, f"attribute {k}: {roi_ds.attrs.get(k)!r} != {full_ds.attrs.get(k)!r}"))
    if not (math.isnan(float(nodata)) or math.isinf(float(nodata))):
        if roi_ds.attrs.get("no_data_img") != full_ds.attrs.get("no_data_img"):
            out.append(("roi-attrs", "no_data_img", f"{roi_ds.attrs.get('no_data_img')!r} != "
                        f"{full_ds.attrs.get('no_data_img')!r}"))
    return out
