"""
Reference model of the validity mask before validation (C04), written from the statement of C04 and the bit table of
docs/source/userguide/output.rst - plain loops over pixels, no dilation, no broadcasting.

Conventions of the image datasets: msk == valid_pixels (0) valid, msk == no_data_mask (1) nodata, anything else
"invalidated by the validity mask".  A window of size w centred on (r, c) covers rows r-o..r+o, cols c-o..c+o, o = (w-1)/2.

  border pixel (the left window leaves the image)            -> exactly bit 0
  bit 0   nodata in the left window
  bit 6   left centre invalidated by the left mask
  bit 2   some, but not all, of the candidates c + d (d integer in the *global* interval) fall outside the columns
          where a right window fits
  bit 7   there is an in-image candidate and every in-image candidate centre is invalidated by the right mask
  bit 1   no disparity of the pixel yields a computable cost (decided from the observed cost volume by the caller, and
          predicted from the inputs by `computable`)
"""
from __future__ import annotations

import math

import numpy as np

B0, B1, B2, B3, B4, B5, B6, B7, B8, B9, B10, B11 = (1 << i for i in range(12))
INVALID_PRE = B0 | B1 | B6 | B7          # "the point is invalid" bits that exist before validation
INVALID = INVALID_PRE | B8 | B9
DOCUMENTED = (1 << 12) - 1


def _nodata_in_window(msk, r, c, off):
    ny, nx = msk.shape
    for rr in range(max(0, r - off), min(ny, r + off + 1)):
        for cc in range(max(0, c - off), min(nx, c + off + 1)):
            if msk[rr, cc] == 1:
                return True
    return False


def _masked(msk, r, c):
    return msk[r, c] != 0 and msk[r, c] != 1


def border(ny, nx, win):
    off = (win - 1) // 2
    b = np.zeros((ny, nx), dtype=bool)
    for r in range(ny):
        for c in range(nx):
            b[r, c] = r < off or r >= ny - off or c < off or c >= nx - off
    return b


def static_bits(lmask, rmask, ny, nx, win, gmin, gmax):
    """
    bits 0, 2, 6, 7 of every pixel (uint16 array) and the border mask; border pixels hold exactly bit 0.
    lmask / rmask: int arrays or None (no mask: every pixel valid); gmin, gmax: integer global interval
    """
    off = (win - 1) // 2
    lm = np.zeros((ny, nx), dtype=np.int64) if lmask is None else np.asarray(lmask).astype(np.int64)
    rm = np.zeros((ny, nx), dtype=np.int64) if rmask is None else np.asarray(rmask).astype(np.int64)
    out = np.zeros((ny, nx), dtype=np.uint16)
    bd = border(ny, nx, win)
    for r in range(ny):
        for c in range(nx):
            if bd[r, c]:
                out[r, c] = B0
                continue
            f = 0
            if _nodata_in_window(lm, r, c, off):
                f |= B0
            if _masked(lm, r, c):
                f |= B6
            inside = [d for d in range(gmin, gmax + 1) if off <= c + d <= nx - 1 - off]
            n_all = gmax - gmin + 1
            if 0 < len(inside) < n_all:
                f |= B2
            if inside and all(_masked(rm, r, c + d) for d in inside):
                f |= B7
            out[r, c] = f
    return out, bd


def computable(lmask, rmask, ny, nx, win, subpix, lo, hi, gmin, gmax):
    """
    (ny, nx, nsamples) boolean: the cost of pixel (r, c) at disparity gmin + k/subpix is computable, i.e. both windows
    fit, neither holds nodata, neither centre is invalidated, and the disparity lies in the pixel's [lo, hi];
    a fractional disparity needs this of both right columns it is interpolated from.
    """
    off = (win - 1) // 2
    lm = np.zeros((ny, nx), dtype=np.int64) if lmask is None else np.asarray(lmask).astype(np.int64)
    rm = np.zeros((ny, nx), dtype=np.int64) if rmask is None else np.asarray(rmask).astype(np.int64)
    ns = (gmax - gmin) * subpix + 1
    out = np.zeros((ny, nx, ns), dtype=bool)
    bd = border(ny, nx, win)

    def right_ok(r, col):
        if not off <= col <= nx - 1 - off:
            return False
        return not _nodata_in_window(rm, r, col, off) and not _masked(rm, r, col)

    for r in range(ny):
        for c in range(nx):
            if bd[r, c] or _nodata_in_window(lm, r, c, off) or _masked(lm, r, c):
                continue
            for k in range(ns):
                d = gmin + k / subpix
                if not lo[r, c] <= d <= hi[r, c]:
                    continue
                x = c + d
                out[r, c, k] = right_ok(r, math.floor(x)) and right_ok(r, math.ceil(x))
    return out


def bits(x):
    """list of the bits set in x"""
    return [i for i in range(16) if (int(x) >> i) & 1]
