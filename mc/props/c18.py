"""
C18 - runs are reproducible and side-effect free whatever the threading (DESIGN.md section 3, C18).

(a) E4 on the nine prange kernels (mc/engine/sched.py): for every enumerated kernel input, the real loop body is
    executed from `.py_func` under every permutation of the outer iterations (inner loops forward and reversed);
    accesses to every array that outlives an iteration are logged; a cell written by two iterations, or written by
    one and read by another, is a violation (shared scratch buffer / accumulator); all orders must give bit-identical
    outputs; the compiled dispatcher under numba.set_num_threads(1,2,3,4,8,16) must return the py_func result.
(b) process matrix: separate processes for NUMBA_NUM_THREADS x NUMBA_THREADING_LAYER x PANDORA_NUMBA_PARALLEL run
    pipelines that together use every kernel; product digests must agree.
(c) histories: every word (length <= 4 / 5) over {check(M1,P), run(M1,P), check(M2,Qi), run(M2,Qi)}; every run of P
    must equal the run of P in a fresh process; (d) input datasets must be unchanged by every run.
"""
from __future__ import annotations

import copy
import itertools
import json
import os
import subprocess
import sys

import numpy as np

ID = "C18"
LEVEL = "exploration"
BUDGET = {"quick": 300, "thorough": 3600}
CHUNK = 8
WORKER_ENV = {"NUMBA_NUM_THREADS": "16"}
THREADS = [1, 2, 3, 4, 8, 16]
RULE = (
    "cases = (a) every assignment of a menu of pixel/segment configurations to tiny kernel inputs for each of the 9 "
    "prange kernels, each executed under all permutations of the outer iterations; (b) one process per threading "
    "configuration; (c) every word over check/run operations on two machines. A case is non-trivial when its kernel "
    "input makes at least two iterations take different branches (a) / when the word contains a run of P after another "
    "operation (c); distinct = distinct (kernel, input, output digest) resp. (word, digest)"
)
ASSUMPTIONS = [
    "native interleavings of compiled kernels are not driven: independence of iterations is established on the Python "
    "source (py_func) and transferred by bit-exact conformance of the compiled kernel under 6 thread counts",
    "trusted: numba implements prange iterations as independent units (only the outermost prange of a nest is parallel)",
    "threading layers present in this image: omp, workqueue (no tbb)",
    "'fresh process' reference = digests computed by a dedicated subprocess before any other work",
]

VERIF = os.path.dirname(os.path.dirname(os.path.dirname(os.path.abspath(__file__))))

# ----------------------------------------------------------------------------------------------
# (a) kernel inputs
# ----------------------------------------------------------------------------------------------
NAN = float("nan")
PIX3 = [[NAN, NAN, NAN], [0, 1, 3], [1, 0, 1], [1, 1, 1], [NAN, 0, 2], [3, 1, NAN], [2, 2, 0]]
ETAS = [(0.0, 0.7, 0.1), (0.0, 0.5, 0.125)]
# refinement pixel menu: (cost triple, disparity position relative to d_min..d_max, mask)
RPIX = [([1, 0, 1], 0, 0), ([2, 0, 1], 0, 0), ([1, 1, 1], 0, 0), ([0, 1, 2], -1, 0), ([2, 1, 0], 1, 0),
        ([NAN, 0, 1], 0, 0), ([1, NAN, 1], 0, 0), ([1, 0, 1], 0, 1), ([3, 1, 2], 0, 64), ([0, 1, 0], 0, 0)]
CV_KERNELS = ["compute_ambiguity", "compute_ambiguity_and_sampled_ambiguity", "compute_risk",
              "compute_risk_and_sampled_risk", "compute_interval_bounds"]


def kernel_cases(tier, seed):
    cases = []
    shapes = [(3, 1)] if tier == "quick" else [(3, 1), (2, 2), (4, 1)]
    for k in CV_KERNELS:
        for (nr, nc) in shapes:
            for combo in itertools.product(range(len(PIX3)), repeat=nr * nc):
                if tier == "quick" and (sum(combo) + seed) % 2:
                    # quick: half of the assignments (residue class rotates with the seed), all in thorough
                    continue
                cases.append({"kind": "e4", "k": k, "rows": nr, "cols": nc, "pix": list(combo),
                              "eta": (sum(combo) + nr) % len(ETAS)})
    for k in ("loop_refinement",):
        for method in ("vfit", "quadratic"):
            for measure in ("min", "max"):
                for (nr, nc) in ([(3, 1)] if tier == "quick" else [(3, 1), (2, 2), (4, 1)]):
                    for combo in itertools.product(range(len(RPIX)), repeat=nr * nc):
                        if tier == "quick" and (sum(combo) + seed) % 3:
                            continue
                        if (nr * nc == 4) and (sum(combo) % 4):
                            continue
                        cases.append({"kind": "e4", "k": k, "rows": nr, "cols": nc, "pix": list(combo),
                                      "method": method, "measure": measure})
    for method in ("vfit", "quadratic"):
        for combo in itertools.product(range(6), repeat=3):
            cases.append({"kind": "e4", "k": "loop_approximate_refinement", "rows": 3, "cols": 3, "pix": list(combo),
                          "method": method, "measure": "min"})
    grids = range(512)
    for g in grids:
        if tier == "quick" and (g + seed) % 2:
            continue
        for depth in (0, 1, 2):
            cases.append({"kind": "e4", "k": "create_connected_graph", "grid": g, "depth": depth})
            for q in (1.0, 0.5):
                cases.append({"kind": "e4", "k": "graph_regularization", "grid": g, "depth": depth, "q": q})
    # larger inputs: many chunks per thread for the compiled conformance
    for k in CV_KERNELS + ["loop_refinement"]:
        for rows in (37, 64):
            cases.append({"kind": "e4big", "k": k, "rows": rows, "cols": 5, "method": "vfit", "measure": "min"})
    return cases


def _dispatcher(name):
    from pandora import interval_tools  # pylint: disable=import-outside-toplevel
    from pandora.cost_volume_confidence.ambiguity import Ambiguity  # pylint: disable=import-outside-toplevel
    from pandora.cost_volume_confidence.interval_bounds import IntervalBounds  # pylint: disable=import-outside-toplevel
    from pandora.cost_volume_confidence.risk import Risk  # pylint: disable=import-outside-toplevel
    from pandora.refinement import AbstractRefinement  # pylint: disable=import-outside-toplevel

    return {
        "compute_ambiguity": Ambiguity.compute_ambiguity,
        "compute_ambiguity_and_sampled_ambiguity": Ambiguity.compute_ambiguity_and_sampled_ambiguity,
        "compute_risk": Risk.compute_risk,
        "compute_risk_and_sampled_risk": Risk.compute_risk_and_sampled_risk,
        "compute_interval_bounds": IntervalBounds.compute_interval_bounds,
        "loop_refinement": AbstractRefinement.loop_refinement,
        "loop_approximate_refinement": AbstractRefinement.loop_approximate_refinement,
        "create_connected_graph": interval_tools.create_connected_graph,
        "graph_regularization": interval_tools.graph_regularization,
    }[name]


def _method(name):
    from pandora.refinement.quadratic import Quadratic  # pylint: disable=import-outside-toplevel
    from pandora.refinement.vfit import Vfit  # pylint: disable=import-outside-toplevel

    return {"vfit": Vfit.refinement_method, "quadratic": Quadratic.refinement_method}[name]


def _segments(grid_bits):
    """3x3 'confident' mask -> border arrays exactly as interval_tools.interval_regularization builds them"""
    conf = np.array([(grid_bits >> i) & 1 for i in range(9)], dtype=np.float64).reshape(3, 3)
    minimized = conf.copy()
    minimized[:, -1] = 1
    border = np.diff(np.hstack([np.ones((3, 1)), minimized >= 0.5]), axis=-1)
    border_left = np.argwhere(border == -1)
    border_right = np.argwhere(border == 1)
    border_right[:, 1] = border_right[:, 1] - 1
    return border_left.astype(np.int64), border_right.astype(np.int64)


def make_args_factory(case):
    """() -> fresh argument tuple for the kernel of this case"""
    k = case["k"]
    if k in CV_KERNELS:
        nr, nc = case["rows"], case["cols"]
        if "pix" in case:
            cv = np.array([PIX3[i] for i in case["pix"]], dtype=np.float32).reshape(nr, nc, 3)
        else:
            rr, cc = np.meshgrid(np.arange(nr), np.arange(nc), indexing="ij")
            cv = np.array(PIX3, dtype=np.float32)[(rr * 7 + cc * 3) % len(PIX3)]
        emin, emax, estep = ETAS[case.get("eta", 0)]
        eta = (np.float32(emin), np.float32(emax), np.float32(estep))
        if k.startswith("compute_ambiguity"):
            return lambda: (cv.copy(),) + eta
        if k.startswith("compute_risk"):
            from pandora.cost_volume_confidence.ambiguity import Ambiguity  # pylint: disable=import-outside-toplevel

            _, samp = Ambiguity.compute_ambiguity_and_sampled_ambiguity.py_func(cv.copy(), *eta)
            samp = np.asarray(samp, dtype=np.float32)
            return lambda: (cv.copy(), samp.copy()) + eta
        return lambda: (cv.copy(), np.array([-1, 0, 1], dtype=np.float32), np.float32(0.9),
                        np.float32(-1.0 if case.get("eta", 0) == 0 else 1.0))
    if k == "loop_refinement":
        nr, nc = case["rows"], case["cols"]
        if "pix" in case:
            sel = [RPIX[i] for i in case["pix"]]
        else:
            sel = [RPIX[(i * 7) % len(RPIX)] for i in range(nr * nc)]
        cv = np.array([p[0] for p in sel], dtype=np.float32).reshape(nr, nc, 3)
        disp = np.array([p[1] for p in sel], dtype=np.float32).reshape(nr, nc)
        mask = np.array([p[2] for p in sel], dtype=np.uint16).reshape(nr, nc)
        meth = _method(case["method"])
        return lambda: (cv.copy(), disp.copy(), mask.copy(), -1, 1, 1, case["measure"], meth)
    if k == "loop_approximate_refinement":
        rows = []
        menu = [([[1, 0, 1], [0, 1, 2], [2, 1, 0]], [0, 0, 0]), ([[1, 0, 1], [1, 0, 1], [1, 0, 1]], [0, 0, 0]),
                ([[NAN, 0, 1], [1, 0, 2], [2, 0, NAN]], [0, 0, 0]), ([[1, 1, 1], [0, 0, 0], [2, 2, 2]], [0, 0, 0]),
                ([[0, 1, 2], [0, 1, 2], [0, 1, 2]], [1, 0, -1]), ([[2, 1, 0], [1, 0, 1], [0, 1, 2]], [0, 1, 0])]
        for i in case["pix"]:
            rows.append(menu[i])
        cv = np.array([r[0] for r in rows], dtype=np.float32)  # (3 rows, 3 cols, 3 disps)
        disp = np.array([r[1] for r in rows], dtype=np.float32)
        mask = np.zeros((3, 3), dtype=np.uint16)
        mask[1, 1] = 1 if case["pix"][0] % 2 else 0
        meth = _method(case["method"])
        return lambda: (cv.copy(), disp.copy(), mask.copy(), -1, 1, 1, case["measure"], meth)
    bl, br = _segments(case["grid"])
    if k == "create_connected_graph":
        return lambda: (bl.copy(), br.copy(), case["depth"])
    from pandora import interval_tools  # pylint: disable=import-outside-toplevel

    graph = interval_tools.create_connected_graph.py_func(bl.copy(), br.copy(), case["depth"])
    graph = np.asarray(graph, dtype=np.bool_)
    inf = (np.arange(9, dtype=np.float32).reshape(3, 3) * 3) % 7 - 3
    sup = inf + 1 + (np.arange(9, dtype=np.float32).reshape(3, 3) % 3)
    inf[0, 1] = np.nan
    return lambda: (inf.copy(), sup.copy(), bl.copy(), br.copy(), graph.copy(), float(case["q"]))


def run_e4(case, bound):
    import numba  # pylint: disable=import-outside-toplevel

    from mc.engine import sched as S  # pylint: disable=import-outside-toplevel

    viol = []
    disp = _dispatcher(case["k"])
    mk = make_args_factory(case)
    if len(mk()[0]) == 0:
        return {"n": 1, "sigs": [], "viol": [], "trivial": 1}
    k = case["k"]

    def bad(clause, cls, detail, racy=False):
        viol.append({"clause": clause, "key": f"C18/{clause}/{k}/{cls}", "detail": f"{detail} | input={case}",
                     "racy": racy})

    try:
        ref, fin, conf, loops = S.run_schedule(disp.py_func, mk)
    except ZeroDivisionError:
        # totality of the refinement kernels is C06's business; nothing to schedule here
        return {"n": 1, "sigs": [], "viol": [], "trivial": 1}
    n = 1
    if conf:
        c0 = conf[0]
        arr = "kernel-local" if str(c0["array"]).startswith("local") else c0["array"]
        bad("iterations-independent", f"{c0['kind']}/{arr}",
            f"{len(conf)} conflicting cells, first: array {c0['array']} cell {c0['cell']} {c0['kind']} between "
            f"iterations {c0['iterations']} of loop {c0['epoch']}")
    if case["kind"] == "e4":
        nmax = max([ln for _, ln in loops] or [0])
        for order in S.all_orders(nmax, bound):
            for rev in (False, True):
                if order == list(range(nmax)) and not rev:
                    continue

                def ofn(idx, _o=order):
                    return [i for i in _o if i < len(idx)] if len(idx) != len(_o) else list(_o)

                out, f2, _, _ = S.run_schedule(disp.py_func, mk, order_fn=ofn, inner_reverse=rev)
                n += 1
                if not S.same(out, ref) or not S.same(f2, fin):
                    bad("order-independent", "outputs-differ", f"outer order {order} inner_reversed={rev} gives outputs "
                        f"different from the sequential order")
                    break
            else:
                continue
            break
    # conformance of the compiled kernel, every thread count
    for nt in THREADS:
        if nt > numba.config.NUMBA_NUM_THREADS:
            continue
        numba.set_num_threads(nt)
        args = mk()
        res = S.to_plain(disp(*args))
        finals = tuple(S.to_plain(a) for a in args if isinstance(a, np.ndarray))
        n += 1
        if not S.same(res, ref) or not S.same(finals, fin):
            bad("compiled-equals-source", f"threads={'1' if nt == 1 else 'n'}",
                f"compiled kernel with {nt} threads differs from the py_func result", racy=nt > 1)
            break
    numba.set_num_threads(1)
    branches = len({json.dumps(p) for p in case.get("pix", [])}) if "pix" in case else 2
    nontrivial = branches >= 2 or "grid" in case
    import hashlib  # pylint: disable=import-outside-toplevel

    def dig(x):
        if isinstance(x, tuple):
            return "".join(dig(e) for e in x)
        if isinstance(x, np.ndarray):
            return hashlib.sha1(np.nan_to_num(x.astype(np.float64), nan=-7e9).tobytes()).hexdigest()[:8]
        return str(x)

    sig = f"{k}|{case.get('pix', case.get('grid'))}|{case.get('method')}|{case.get('depth')}|{dig(ref)}"
    return {"n": n, "sigs": [sig] if nontrivial else [], "viol": viol[:4], "trivial": 0 if nontrivial else 1}


# ----------------------------------------------------------------------------------------------
# (b), (c): pipelines
# ----------------------------------------------------------------------------------------------
def pipelines():
    from mc.drivers import pipeline as P  # pylint: disable=import-outside-toplevel

    amb = {"confidence_method": "ambiguity", "eta_max": 0.7, "eta_step": 0.1}
    risk = {"confidence_method": "risk", "eta_max": 0.7, "eta_step": 0.1}
    ib = {"confidence_method": "interval_bounds", "possibility_threshold": 0.9, "regularization": True,
          "ambiguity_indicator": "amb", "ambiguity_threshold": 0.6, "ambiguity_kernel_size": 3, "vertical_depth": 1,
          "quantile_regularization": 0.9}
    ms = {"multiscale_method": "fixed_zoom_pyramid", "num_scales": 2, "scale_factor": 2, "marge": 1}
    out = {
        "P0": P.name_steps([("matching_cost", P.mc("sad", 3, 2)), ("cost_volume_confidence", amb),
                            ("cost_volume_confidence", risk), ("disparity", P.WTA), ("refinement", P.VFIT),
                            ("validation", P.CROSS)]),
        "P1": {"matching_cost": P.mc("zncc", 3, 1), "cost_volume_confidence.amb": amb, "cost_volume_confidence": ib,
               "disparity": P.WTA, "filter": {"filter_method": "median_for_intervals", "filter_size": 3},
               "refinement": P.QUAD},
        "P2": P.name_steps([("matching_cost", P.mc("census", 5, 1)), ("aggregation", P.CBCA), ("disparity", P.WTA),
                            ("filter", P.BILATERAL), ("validation", P.CROSS_SGM), ("multiscale", ms),
                            ("refinement", P.VFIT)]),
        "Q1": P.name_steps([("matching_cost", P.mc("ssd", 1, 4)), ("cost_volume_confidence",
                                                                    {"confidence_method": "std_intensity"}),
                            ("disparity", {"disparity_method": "wta", "invalid_disparity": "NaN"}),
                            ("filter", P.MEDIAN)]),
        "Q2": P.name_steps([("matching_cost", P.mc("zncc", 5, 1)), ("disparity", P.WTA), ("refinement", P.QUAD),
                            ("validation", P.CROSS_MCCNN), ("filter", P.BILATERAL)]),
    }
    # "other pipelines" built from the SAME step classes as P0/P1/P2 with every numeric parameter moved to another
    # in-domain value that keeps derived sizes equal (e.g. bilateral sigma_space 0.7 -> 0.9: same window width 3):
    # exposes class-level caches keyed by less than the full parameter set
    amb2 = {"confidence_method": "ambiguity", "eta_max": 0.5, "eta_step": 0.05}
    risk2 = {"confidence_method": "risk", "eta_max": 0.5, "eta_step": 0.05}
    ib2 = dict(ib, possibility_threshold=0.8, ambiguity_threshold=0.5, quantile_regularization=0.8, vertical_depth=2)
    out["X0"] = P.name_steps([("matching_cost", P.mc("sad", 3, 4)), ("cost_volume_confidence", amb2),
                              ("cost_volume_confidence", risk2),
                              ("disparity", {"disparity_method": "wta", "invalid_disparity": -5}),
                              ("refinement", P.VFIT), ("validation", dict(P.CROSS, cross_checking_threshold=0.5))])
    out["X1"] = {"matching_cost": P.mc("zncc", 3, 2), "cost_volume_confidence.amb": amb2,
                 "cost_volume_confidence": ib2, "disparity": P.WTA,
                 "filter": {"filter_method": "median_for_intervals", "filter_size": 5}, "refinement": P.QUAD}
    out["X2"] = P.name_steps([("matching_cost", P.mc("census", 5, 2)),
                              ("aggregation", {"aggregation_method": "cbca", "cbca_intensity": 20.0, "cbca_distance": 2}),
                              ("disparity", P.WTA),
                              ("filter", {"filter_method": "bilateral", "sigma_color": 3.0, "sigma_space": 0.9}),
                              ("validation", dict(P.CROSS_SGM, cross_checking_threshold=2.0)),
                              ("multiscale", dict(ms, marge=2)), ("refinement", P.VFIT)])
    # same pipeline on two different bands of the same multiband datasets (subpix 2: shifted right images)
    out["B0"] = P.name_steps([("matching_cost", P.mc("zncc", 3, 2, "r")), ("disparity", P.WTA), ("refinement", P.VFIT),
                              ("validation", P.CROSS)])
    out["B1"] = P.name_steps([("matching_cost", P.mc("zncc", 3, 2, "g")), ("disparity", P.WTA), ("refinement", P.VFIT),
                              ("validation", P.CROSS)])
    # P0's steps on a pair without any texture (every cost curve is the same: constant ambiguity, ties everywhere):
    # degenerate statistics must be as repeatable as ordinary ones
    out["F0"] = copy.deepcopy(out["P0"])
    return out


def inputs(seed=0, ny=20, nx=26, variant="mask"):
    """
    variant "mask": monoband pair, left mask with one invalid and one nodata pixel;
            "multi": two-band pair (bands r, g) with the same mask;
            "nan":   monoband pair WITHOUT mask whose samples contain NaN / inf (legal: only an all-NaN image is refused)
            "bare":  the "mask" pair built by hand with the fewest attributes a run needs (no crs / transform, one
                     attribute of the caller's own): whatever a run adds to, or drops from, the attributes shows
    """
    from mc.drivers import datasets as D  # pylint: disable=import-outside-toplevel

    left, right = D.stereo_pair(ny, nx, shift=2, seed=seed + 3)
    msk = np.zeros((ny, nx), dtype=np.int16)
    msk[5, 7] = 2
    msk[11, 3] = 1
    if variant == "wide":
        # a requested interval that reaches the image width (legal for sad / ssd): nothing of it belongs to the run
        return D.image(left, disp=(-nx, nx), msk=msk), D.image(right, disp=None)
    if variant == "flat":
        flat = np.full((ny, nx), 7.0, dtype=np.float32)
        return D.image(flat, disp=(-4, 4)), D.image(flat.copy(), disp=None)
    if variant == "multi":
        l2, r2 = D.stereo_pair(ny, nx, shift=2, seed=seed + 8)
        return (D.image(np.stack([left, l2]), disp=(-4, 4), msk=msk, bands=["r", "g"]),
                D.image(np.stack([right, r2]), disp=None, bands=["r", "g"]))
    if variant == "nan":
        left = left.copy()
        right = right.copy()
        left[4, 6] = np.nan
        left[12, 20] = np.inf
        right[9, 9] = np.nan
        return D.image(left, disp=(-4, 4)), D.image(right, disp=None)
    L, R = D.image(left, disp=(-4, 4), msk=msk), D.image(right, disp=None)
    if variant == "bare":
        for ds in (L, R):
            for k in ("crs", "transform"):
                ds.attrs.pop(k, None)
            ds.attrs["callers_own"] = "kept"
    return L, R


def variant_of(name):
    return "multi" if name.startswith("B") else ("flat" if name.startswith("F") else "mask")


def run_pipeline(name, machine=None, do_check=True, shared=None, variant=None, cfgs=None):
    """
    returns dict of digests; raises on error.  `shared`: dict variant -> (left, right) datasets reused by every run of
    a history (a user runs several pipelines on the datasets loaded once).  `cfgs`: dict name -> the configuration
    dictionary the first run of that pipeline checked and used; later runs hand the very same dictionary to
    pandora.run again (a user keeps the checked configuration and repeats the run)
    """
    from mc.drivers import datasets as D  # pylint: disable=import-outside-toplevel
    from mc.drivers import pipeline as P  # pylint: disable=import-outside-toplevel

    variant = variant or variant_of(name)
    if shared is not None:
        if variant not in shared:
            shared[variant] = inputs(variant=variant)
        L, R = shared[variant]
    else:
        L, R = inputs(variant=variant)
    L0, R0 = L.copy(deep=True), R.copy(deep=True)
    obs = P.run_observed(L, R, pipelines()[name], machine=machine, do_check=do_check, observe=True, snapshot=("disp",),
                         cfg=(cfgs or {}).get(name))
    if obs.error:
        raise obs.error[1]
    if cfgs is not None:
        cfgs.setdefault(name, obs.cfg)
    pre = None
    for st in obs.steps:
        if st["step"].split(".")[0] == "disparity" and st["scale"] == 0:
            pre = st["left_disp"]
    out = {
        "left": P.digest(obs.left),
        "right": P.digest(obs.right) if "disparity_map" in obs.right else "empty",
        "left_disp_only": P.digest(obs.left, ("disparity_map",)),
        "pre_validation": P.digest(pre, ("disparity_map", "validity_mask")) if pre is not None else "none",
        "inputs": (D.same_dataset(L0, L) or "") + "|" + (D.same_dataset(R0, R) or ""),
    }
    return out


MATRIX_SCRIPT = r"""
import json, os, sys
sys.path.insert(0, %r)
from mc.engine import core
core.setup_env()
import warnings; warnings.filterwarnings("ignore")
import logging; logging.disable(logging.CRITICAL)
from mc.props import c18
import numba
out = {}
for name in sys.argv[1:]:
    out[name] = c18.run_pipeline(name)
out["_layer"] = numba.threading_layer() if os.environ.get("PANDORA_NUMBA_PARALLEL", "True") == "True" else "none"
out["_threads"] = numba.get_num_threads()
print("MATRIX-RESULT " + json.dumps(out))
"""


def subprocess_digests(names, threads, layer, parallel, timeout=900):
    env = dict(os.environ)
    env.update({"NUMBA_NUM_THREADS": str(threads), "NUMBA_THREADING_LAYER": layer,
                "PANDORA_NUMBA_PARALLEL": parallel, "PYTHONHASHSEED": "0"})
    env.pop("OMP_NUM_THREADS", None)
    r = subprocess.run([sys.executable, "-c", MATRIX_SCRIPT % VERIF] + list(names), env=env, capture_output=True,
                       text=True, timeout=timeout, check=False)
    for line in r.stdout.splitlines():
        if line.startswith("MATRIX-RESULT "):
            return json.loads(line[len("MATRIX-RESULT "):])
    raise RuntimeError(f"matrix subprocess failed (threads={threads}, layer={layer}, parallel={parallel}):\n"
                       + r.stdout[-1500:] + r.stderr[-3000:])


def run_matrix(case):
    """one case = one configuration, compared with the reference digests embedded in the case"""
    viol = []
    names = case["pipelines"]
    got = subprocess_digests(names, case["threads"], case["layer"], case["parallel"])
    ref = case["ref"]
    sigs = []
    if case["parallel"] == "True" and got["_layer"] != case["layer"]:
        raise AssertionError(f"requested threading layer {case['layer']}, got {got['_layer']}")
    for nme in names:
        keys = ["left", "right"] if case["parallel"] == "True" else ["left_disp_only", "pre_validation"]
        for kk in keys:
            if got[nme][kk] != ref[nme][kk]:
                viol.append({"clause": "same-products-for-every-threading-configuration",
                             "key": f"C18/threading-matrix/{nme}/{kk}/parallel={case['parallel']}",
                             "detail": f"pipeline {nme}: product '{kk}' with threads={case['threads']} layer={case['layer']} "
                                       f"parallel={case['parallel']} differs from the reference process (1 thread, "
                                       f"{ref['_layer']})", "racy": True})
        if got[nme]["inputs"] != "|":
            viol.append({"clause": "inputs-unmodified", "key": f"C18/inputs-modified/{nme}",
                         "detail": f"pipeline {nme} modified its input datasets: {got[nme]['inputs']}"})
        sigs.append(f"M|{nme}|{case['threads']}|{case['layer']}|{case['parallel']}|{got[nme]['left']}")
    return {"n": len(names), "sigs": sigs, "viol": viol}


WORD_SCRIPT = r"""
import json, os, sys
sys.path.insert(0, %r)
from mc.engine import core
core.setup_env()
import warnings; warnings.filterwarnings("ignore")
import logging; logging.disable(logging.CRITICAL)
from mc.props import c18
res = c18.run_history({"kind": "hist", "P": sys.argv[1], "word": sys.argv[2].split(","), "ref": json.loads(sys.argv[3])})
print("WORD-RESULT " + json.dumps(res))
"""


def run_fresh_history(case):
    """the word runs in a process of its own: what happened before in the worker cannot hide (or fake) a leak"""
    env = dict(os.environ)
    env.update({"NUMBA_NUM_THREADS": "1", "PYTHONHASHSEED": "0"})
    ref = {k: v for k, v in case["ref"].items() if k in (case["P"],) or k.startswith("_")}
    r = subprocess.run([sys.executable, "-c", WORD_SCRIPT % VERIF, case["P"], ",".join(case["word"]), json.dumps(ref)],
                       env=env, capture_output=True, text=True, timeout=1200, check=False)
    for line in r.stdout.splitlines():
        if line.startswith("WORD-RESULT "):
            res = json.loads(line[len("WORD-RESULT "):])
            res["sigs"] = ["F" + x for x in res["sigs"]]
            for v in res["viol"]:
                v["key"] = v["key"].replace("C18/history/", "C18/fresh-process-history/")
            return res
    raise RuntimeError("history subprocess failed:\n" + r.stdout[-1500:] + r.stderr[-3000:])


def run_history(case):
    from pandora.state_machine import PandoraMachine  # pylint: disable=import-outside-toplevel

    viol = []
    ref = case["ref"]
    machines = {"M1": PandoraMachine(), "M2": PandoraMachine()}
    shared = {}  # the datasets are built once per history and handed to every check / run of it
    cfgs = {} if case.get("samecfg") else None  # ... and so is the checked configuration of each pipeline
    n = 0
    seen_other = False
    nontrivial = False
    for pos, op in enumerate(case["word"]):
        kind, mname, pname = op[0], op[1:3], op[3:]
        n += 1
        m = machines[mname]
        observed = (mname == "M1")  # the claim is about P on M1; M2 only supplies "other pipelines on other machines"
        if kind == "c":
            from mc.drivers import pipeline as P  # pylint: disable=import-outside-toplevel

            if variant_of(pname) not in shared:
                shared[variant_of(pname)] = inputs(variant=variant_of(pname))
            L, R = shared[variant_of(pname)]
            try:
                P.check(m, L, R, pipelines()[pname])
            except Exception as e:  # pylint: disable=broad-except
                if observed:
                    viol.append({"clause": "check-independent-of-history", "key": f"C18/history/check-raises/{pname}",
                                 "detail": f"word {case['word']}: op {pos} check({mname},{pname}) raised {e!r}"})
                    break
            seen_other = True
            continue
        try:
            got = run_pipeline(pname, machine=m, shared=shared, cfgs=cfgs)
        except Exception as e:  # pylint: disable=broad-except
            if observed:
                viol.append({"clause": "run-independent-of-history",
                             "key": f"C18/history/run-raises/{pname}/{type(e).__name__}",
                             "detail": f"word {case['word']}: op {pos} run({mname},{pname}) raised {e!r}"})
                break
            # a machine reused for *different* pipelines is outside the claim: replace it and go on
            machines[mname] = PandoraMachine()
            seen_other = True
            continue
        if not observed:
            if got["inputs"] != "|":
                viol.append({"clause": "inputs-unmodified", "key": f"C18/inputs-modified/{pname}",
                             "detail": f"word {case['word']}: run of {pname} modified its inputs: {got['inputs']}"})
            seen_other = True
            continue
        if pname == case["P"] and seen_other:
            nontrivial = True
        for kk in ("left", "right"):
            if got[kk] != ref[pname][kk]:
                viol.append({"clause": "run-independent-of-history", "key": f"C18/history/products-differ/{pname}/{kk}",
                             "detail": f"word {case['word']}: op {pos} run({mname},{pname}) gave a '{kk}' product "
                                       f"different from the run in a fresh process"})
        if got["inputs"] != "|":
            viol.append({"clause": "inputs-unmodified", "key": f"C18/inputs-modified/{pname}",
                         "detail": f"word {case['word']}: run of {pname} modified its inputs: {got['inputs']}"})
        seen_other = True
    return {"n": n, "sigs": [f"H|{case['word']}|{bool(case.get('samecfg'))}"] if nontrivial else [], "viol": viol[:6],
            "trivial": 0 if nontrivial else 1}


# ----------------------------------------------------------------------------------------------
def spaces(tier, seed):
    from mc.engine import core  # pylint: disable=import-outside-toplevel

    core.setup_env()
    names = ["P0", "P1", "P2", "Q1", "Q2", "X0", "X1", "X2", "B0", "B1", "F0"]
    ref = subprocess_digests(names, 1, "workqueue", "True")
    for nme in names:
        if ref[nme]["inputs"] != "|":
            pass  # reported by the matrix / history cases against the same reference
    matrix = []
    for par in ("True", "False"):
        for layer in ("omp", "workqueue"):
            for nt in THREADS:
                if par == "False" and (layer != "omp" or nt not in (1, 16)):
                    continue  # without parallelisation the layer and thread count are not used; two probes
                matrix.append({"kind": "matrix", "threads": nt, "layer": layer, "parallel": par,
                               "pipelines": names[:5] if tier == "thorough" else ["P0", "P1", "P2"], "ref": ref})
    e4 = kernel_cases(tier, seed)
    maxlen = 3 if tier == "quick" else 4
    hist = []
    for P in (["P0", "P2"] if tier == "quick" else ["P0", "P1", "P2"]):
        other = "X" + P[1]
        ops = [f"cM1{P}", f"rM1{P}", "cM2Q1", "rM2Q1", "cM2Q2", "rM2Q2", f"cM2{other}", f"rM2{other}"]
        for ln in range(1, maxlen + 1):
            for w in itertools.product(ops, repeat=ln):
                if f"rM1{P}" not in w:
                    continue
                hist.append({"kind": "hist", "P": P, "word": list(w), "ref": ref})
    fresh = []
    for P in ["P0", "P1", "P2", "B1"]:
        other = "B0" if P == "B1" else "X" + P[1]
        ops = [f"cM1{P}", f"rM1{P}", "rM2Q1", "rM2Q2", f"cM2{other}", f"rM2{other}"]
        for ln in range(1, (2 if tier == "quick" else 3) + 1):
            for w in itertools.product(ops, repeat=ln):
                if w[-1] != f"rM1{P}" or (ln > 1 and all(o[1:3] == "M1" for o in w)):
                    continue  # the observed run comes last; pure M1 words are covered in-process
                fresh.append({"kind": "fresh", "P": P, "word": list(w), "ref": ref})
    untouched = [{"kind": "untouched", "pipe": nm, "variant": v} for nm in names[:8] for v in ("mask", "nan")]
    untouched += [{"kind": "untouched", "pipe": nm, "variant": "multi"} for nm in ("B0", "B1")]
    untouched += [{"kind": "untouched", "pipe": nm, "variant": "bare"} for nm in ("P0", "P2", "Q1")]
    untouched += [{"kind": "untouched", "pipe": nm, "variant": "wide"} for nm in ("P0", "Q1", "X0")]
    flat = [{"kind": "hist", "P": "F0", "word": list(w), "ref": ref}
            for w in (["rM1F0"] * 3, ["rM1F0", "rM2Q1", "rM1F0"], ["rM1F0", "rM2P2", "rM1F0", "rM2X0", "rM1F0"],
                      ["rM2P0", "rM1F0", "rM2Q2", "rM1F0"])]
    samecfg = []
    for P in names:
        for w in ([f"rM1{P}"] * 2, [f"rM1{P}"] * 3, [f"rM1{P}", "rM2" + P, f"rM1{P}"],
                  [f"rM1{P}", f"cM1{P}", f"rM1{P}"]):
            # M2 runs the same pipeline name: same dictionary on a brand-new machine, then back on M1
            samecfg.append({"kind": "hist", "P": P, "word": list(w), "ref": ref, "samecfg": True})
    return [
        {"name": "inputs untouched: every pipeline x input variant (mask / NaN-inf samples without mask / multiband)",
         "level": 1, "cases": untouched, "chunk": 1},
        {"name": "textureless pair (constant ambiguity, ties everywhere) run repeatedly between other jobs", "level": 1,
         "cases": flat, "chunk": 1},
        {"name": "repeated runs handing the caller's own checked configuration dictionary to every run", "level": 1,
         "cases": samecfg, "chunk": 2},
        {"name": "histories, each word in a process of its own (other pipelines first, then P)", "level": 1,
         "cases": fresh, "chunk": 1},
        {"name": "E4: prange kernels, all iteration orders + conflict detection + compiled conformance", "level": 0,
         "cases": e4, "chunk": 16},
        {"name": "threading configuration matrix (separate processes)", "level": 0, "cases": matrix, "chunk": 1},
        {"name": "histories over two machines", "level": 1, "cases": hist, "chunk": 6},
    ]


def run_inputs_untouched(case):
    """one pipeline on one input variant: the caller's datasets must come back exactly as they went in"""
    viol = []
    try:
        got = run_pipeline(case["pipe"], variant=case["variant"])
    except Exception:  # pylint: disable=broad-except
        return {"n": 1, "sigs": [], "viol": [], "trivial": 1}  # not every pipeline accepts every variant
    if got["inputs"] != "|":
        viol.append({"clause": "inputs-unmodified", "key": f"C18/inputs-modified/{case['pipe']}/{case['variant']}",
                     "detail": f"pipeline {case['pipe']} on input variant {case['variant']} modified the caller's "
                               f"datasets: {got['inputs']}"})
    return {"n": 1, "sigs": [f"U|{case['pipe']}|{case['variant']}|{got['left']}"], "viol": viol}


def run_case(case):
    if case["kind"] == "untouched":
        return run_inputs_untouched(case)
    if case["kind"] in ("e4", "e4big"):
        return run_e4(case, 4)
    if case["kind"] == "matrix":
        return run_matrix(case)
    if case["kind"] == "fresh":
        return run_fresh_history(case)
    return run_history(case)


def init_worker():
    run_case({"kind": "e4", "k": "compute_ambiguity", "rows": 3, "cols": 1, "pix": [1, 2, 3], "eta": 0})
