"""
C05 - configuration checking completes, preserves and polices every parameter (DESIGN.md section 3, C05).

Every evaluation gives one *user pipeline* (ordered steps, each a small dict) to the real checkers

    E1  pandora.check_configuration.check_pipeline_section({"pipeline": P}, left_meta, right_meta, PandoraMachine())
    E2  PandoraMachine().check_conf({"pipeline": P}, left_meta, right_meta)   -> machine.pipeline_cfg
    E3  pandora.check_configuration.check_conf({"input": I, "pipeline": P}, PandoraMachine())   (tiny GeoTIFFs)

and decides it with the table mc/ref/config_table.py (written from the statement and the step_by_step docs):
accepted <=> no value with status "R" (cases holding an open "?" value and no "R" are not asserted); on
acceptance: user keys keep value, type and relative order, steps keep their order, documented defaults are
added, the user's dictionary is deep-equal to its pre-call copy, a second check of the result returns it
unchanged, E1 and E2 agree.

Spaces: level 0 base pipelines; level 1 one parameter of one step off its default (every value of the table,
alone / with the other parameters given, in a minimal and in an 8-step pipeline), band x image metadata;
level 2 two parameters of two different steps of an 8-step pipeline (all value pairs); histories of <= 3 earlier
checks of other matching-cost classes (shared class-level schema dict) / other input-section forms (shared
module-level schema) followed by a probe whose verdict must not depend on them; full check_conf on files.
"""
from __future__ import annotations

import copy
import itertools
import json
import math

from mc.ref import config_table as T

ID = "C05"
LEVEL = "exploration"
BUDGET = {"quick": 300, "thorough": 3600}
CHUNK = 2
RULE = (
    "one evaluation = one user pipeline (or input+pipeline) through one checking entry point, decided by the "
    "documented-domain table; level 1 = every table value of every parameter of every built-in method alone "
    "(x 2 contexts x other parameters omitted/given x 2 entry points), level 2 = every pair of values of two "
    "parameters of two different steps of an 8-step pipeline (thorough: all table values and all 48 method "
    "combinations; quick: the five values nearest the boundary, 4 method combinations covering every method), "
    "histories = every order of <= 3 earlier checks (quick: length 3 over three different methods / forms only; "
    "thorough: <= 4), full check_conf on files (quick: 3 of the 6 input bases); "
    "non-trivial = the pipeline departs from the all-default base in at least one place; distinct = distinct "
    "(entry point, user pipeline, verdict, digest of the returned configuration)"
)
ASSUMPTIONS = [
    "refusal = any exception raised by the checking call; nothing is processed by these calls",
    "status left open by statement+docs is not asserted: int for a float parameter, bool for an int, int for a bool, "
    "integral float for an int, eta >= 1.0, subpix 6/8, ambiguity_threshold exactly 0 or 1, ambiguity_kernel_size 0 or "
    "even, negative cross_checking_threshold, interpolated_disparity 'mc-cnn'/'mc_cnn', band None or '' on a "
    "multiband image",
    "default VALUES asserted: those listed in the statement plus band None, step 1, possibility_threshold 0.9, "
    "ambiguity_threshold 0.6, ambiguity_kernel_size 5, regularization false, indicator ''; for normalization, "
    "vertical_depth, quantile_regularization, interval_indicator only presence is asserted (docs table and docs prose/"
    "code disagree: normalization false vs 'by default normalized', vertical_depth 2 vs 0, quantile 0.9 vs 1.0)",
    "'position' of a user key = its step and its order relative to the other user keys of that step (steps: their "
    "order in the pipeline); in the input section only the path of a key is asserted (Pandora lists the defaulted "
    "keys first there, which changes no meaning)",
    "'inf'/'-inf' strings are converted by check_pipeline_section/check_conf only (update_conf); through "
    "PandoraMachine.check_conf they are not asserted",
    "outside the history spaces every evaluation is preceded by one check of the all-default sad pipeline (and, on "
    "files, of the list-form input section) so that its immediate process history is the same wherever it runs",
    "history part: the worker processes are persistent, so the enumerated order is a suffix of an arbitrary longer "
    "history of the same process (which the property also quantifies over)",
]

KINDS = ["matching_cost", "aggregation", "cost_volume_confidence", "disparity", "filter", "refinement", "validation",
         "multiscale"]
CV_KINDS = ("aggregation", "cost_volume_confidence")
DISP_KINDS = ("filter", "refinement", "validation", "multiscale")

METAS = {
    # name: (left bands, right bands)
    "mono": ([None], [None]),
    "rgb": (["r", "g", "b"], ["r", "g", "b"]),
    "named": (["red", "green", "nir"], ["red", "green", "nir"]),
    "lr": (["r", "g"], ["r", "b"]),
}

# band space: meta -> [(value, status, input class)]
OMIT = {"$": "omit"}
BAND_SPACE = {
    "mono": [(OMIT, "A", "omitted on monoband"), (None, "A", "None on monoband"), ("r", "R", "band on monoband image"),
             (3, "R", "wrong type"), (["r"], "R", "wrong type")],
    "rgb": [("r", "A", "single-letter band present"), ("g", "A", "single-letter band present"),
            ("b", "A", "single-letter band present"), ("x", "R", "absent band"),
            ("gr", "R", "absent band spelt with letters that are band names"),
            ("rgb", "R", "absent band spelt with letters that are band names"), ("R", "R", "absent band"),
            (None, "?", "None on multiband"), (OMIT, "?", "omitted on multiband"), ("", "?", "empty on multiband"),
            (3, "R", "wrong type"), (["r"], "R", "wrong type")],
    "named": [("red", "A", "multi-character band present"), ("green", "A", "multi-character band present"),
              ("nir", "A", "multi-character band present"), ("re", "R", "absent band"), ("n", "R", "absent band"),
              ("redgreen", "R", "absent band"), ("blue", "R", "absent band")],
    "lr": [("r", "A", "single-letter band present"), ("g", "R", "band absent from the right image"),
           ("b", "R", "band absent from the left image"), ("x", "R", "absent band")],
}


# ----------------------------------------------------------------------------------------------
# small helpers
# ----------------------------------------------------------------------------------------------
def dec(v):
    """case value -> python value ({"$": "nan"} -> float nan)"""
    if isinstance(v, dict):
        if v == {"$": "nan"}:
            return math.nan
        return {k: dec(x) for k, x in v.items()}
    if isinstance(v, list):
        return [dec(x) for x in v]
    return v


def vstr(v):
    """JSON text, key order kept (order is part of what is checked)"""
    return json.dumps(v)


def same(a, b):
    """strict equality: types, NaN-aware floats, dict key ORDER"""
    if isinstance(a, dict) or isinstance(b, dict):
        if not (isinstance(a, dict) and isinstance(b, dict)):
            return False
        return list(a) == list(b) and all(same(a[k], b[k]) for k in a)
    if isinstance(a, (list, tuple)) or isinstance(b, (list, tuple)):
        if type(a) is not type(b) or len(a) != len(b):
            return False
        return all(same(x, y) for x, y in zip(a, b))
    if isinstance(a, float) and isinstance(b, float):  # numpy floats are python floats too
        return a == b or (a != a and b != b)
    if type(a) is not type(b):
        return False
    return a == b


def conv(v, entry, param):
    """what the documented string conversions turn a user value into"""
    if v == "NaN" and isinstance(v, str) and (entry != "machine" or param == "invalid_disparity"):
        return math.nan
    if isinstance(v, str) and entry != "machine":
        if v == "inf":
            return math.inf
        if v == "-inf":
            return -math.inf
    return v


def base_step(kind, method, given=False):
    """step dictionary with only the method key (given=False) or with every documented default written out"""
    cfg = {T.TABLE[kind]["key"]: method}
    if given:
        vals, _, _ = T.expected_defaults(kind, method)
        for p, d in vals.items():
            cfg[p] = d
    return cfg


DEFAULT_METHOD = {"matching_cost": "sad", "aggregation": "cbca", "cost_volume_confidence": "ambiguity",
                  "disparity": "wta", "filter": "median", "refinement": "vfit",
                  "validation": "cross_checking_accurate", "multiscale": "fixed_zoom_pyramid"}


def context(kind, method, ctx, given=False, methods=None):
    """-> (steps [[name, cfg], ...], index of the step of `kind`)"""
    meth = dict(DEFAULT_METHOD)
    if methods:
        meth.update(methods)
    meth[kind] = method
    if ctx == "long":
        kinds = list(KINDS)
    elif kind == "matching_cost":
        kinds = ["matching_cost"]
    elif kind in CV_KINDS:
        kinds = ["matching_cost", kind]
    elif kind == "disparity":
        kinds = ["matching_cost", "disparity"]
    else:
        kinds = ["matching_cost", "disparity", kind]
    steps = [[k, base_step(k, meth[k], given)] for k in kinds]
    return steps, kinds.index(kind)


def set_param(steps, idx, param, value):
    """return a copy of steps with steps[idx][param] = value (OMIT removes the key); new keys go last"""
    steps = copy.deepcopy(steps)
    kind = steps[idx][0].split(".")[0]
    if param == T.TABLE[kind]["key"] and isinstance(value, str) and value in T.TABLE[kind]["methods"]:
        # another built-in method: the parameters written out for the previous method do not belong to it
        old = steps[idx][1].get(param)
        if isinstance(old, str) and old in T.TABLE[kind]["methods"]:
            mine = set(T.method_params(kind, value))
            steps[idx][1] = {k: v for k, v in steps[idx][1].items() if k == param or k in mine}
    if value == OMIT:
        steps[idx][1].pop(param, None)
    else:
        steps[idx][1][param] = value
    return steps


def band_fix(steps, meta):
    """on multiband metadata the matching cost needs a band that both images have"""
    if meta != "mono" and steps[0][1].get("band") is None:
        steps = copy.deepcopy(steps)
        steps[0][1]["band"] = METAS[meta][0][0]
    return steps


_META_CACHE = {}


def metas(meta, disp="list"):
    from mc.drivers import datasets as D  # pylint: disable=import-outside-toplevel

    key = (meta, disp)
    if key not in _META_CACHE:
        lb, rb = METAS[meta]
        _META_CACHE[key] = (D.metadata(6, 8, bands=lb, disp=(-2, 2)), D.metadata(6, 8, bands=rb, disp=None))
    return _META_CACHE[key]


_CANON = [True]


def canon(entry):
    """
    Canonical immediate history: one check of the all-default sad pipeline through the same entry point.  Outside
    the history spaces every evaluation starts with it, so that a verdict that (wrongly) depends on the previous
    check of the process is the same in a worker and when the engine re-executes the case in the parent.
    """
    from pandora import check_configuration as cc  # pylint: disable=import-outside-toplevel
    from pandora.state_machine import PandoraMachine  # pylint: disable=import-outside-toplevel

    left, right = metas("mono")
    user = {"pipeline": {"matching_cost": {"matching_cost_method": "sad"}}}
    try:
        if entry == "section":
            cc.check_pipeline_section(user, left, right, PandoraMachine())
        else:
            PandoraMachine().check_conf(user, left, right)
    except Exception:  # pylint: disable=broad-except
        pass  # if the all-default pipeline is refused, level 0 reports it


def real_check(entry, steps, meta):
    """-> ("ok", returned pipeline dict, user dict after, user dict before) | ("exc", exception type name)"""
    from pandora import check_configuration as cc  # pylint: disable=import-outside-toplevel
    from pandora.state_machine import PandoraMachine  # pylint: disable=import-outside-toplevel

    if _CANON[0]:
        canon(entry)
    user = {"pipeline": {name: dec(cfg) for name, cfg in steps}}
    before = copy.deepcopy(user)
    left, right = metas(meta)
    machine = PandoraMachine()
    try:
        if entry == "section":
            out = cc.check_pipeline_section(user, left, right, machine)["pipeline"]
        else:
            machine.check_conf(user, left, right)
            out = machine.pipeline_cfg["pipeline"]
    except Exception as e:  # pylint: disable=broad-except
        return ("exc", type(e).__name__, user, before)
    return ("ok", out, user, before)


def step_label(name, cfg):
    kind = name.split(".")[0]
    m = cfg.get(T.TABLE[kind]["key"]) if kind in T.TABLE else None
    return f"{kind}.{m}" if isinstance(m, str) and m in T.TABLE.get(kind, {}).get("methods", {}) else kind


def judge(entry, steps, meta, exp, devs, viol, sigs, trivial=False):
    """
    one evaluation.
    :param exp: "A" | "R" | "?"
    :param devs: [(label 'kind.method', param, value json, status, input class or '')] for keys / messages
    :return: True when the verdict and the returned configuration satisfy the oracle
    """
    res = real_check(entry, steps, meta)
    ok = True
    LAST[entry] = res[1] if res[0] == "ok" else None

    def bad(clause, keytail, detail):
        nonlocal ok
        ok = False
        viol.append({"clause": clause, "key": f"C05/{clause}/{keytail}",
                     "detail": f"[{entry}, meta={meta}] {detail}; user pipeline={vstr(steps)}"})

    def devkey(d):
        return f"{d[0]}/{d[1]}/" + (d[4] if d[4] else f"value {d[2]}")

    if res[0] == "exc":
        if not trivial:
            sigs.append(f"{entry}|{meta}|{vstr(steps)}|exc")
        if exp == "A":
            tail = devkey(devs[0]) if len(devs) == 1 else ("base" if not devs else "+".join(devkey(d) for d in devs))
            bad("rejects-in-domain", tail, f"refused ({res[1]}) although every value is inside its documented domain "
                f"(deviations: {[(d[0], d[1], d[2]) for d in devs]})")
        return ok
    out, user, before = res[1], res[2], res[3]
    if not trivial:
        sigs.append(f"{entry}|{meta}|{vstr(steps)}|ok|{json.dumps(out, default=str)}")
    if exp == "R":
        rdev = [d for d in devs if d[3] == "R"]
        bad("accepts-out-of-domain", devkey(rdev[0]), f"accepted although {rdev[0][1]}={rdev[0][2]} of {rdev[0][0]} is "
            f"outside its documented domain; returned {json.dumps(out, default=str)}")
        return ok
    # ---- accepted: completion, preservation, no mutation, idempotence
    if not same(user, before):
        bad("mutated", entry, f"user dictionary changed by the check: before={vstr_any(before)} after={vstr_any(user)}")
    names = [n for n, _ in steps]
    if list(out) != names:
        bad("order", "steps", f"steps of the returned configuration {list(out)} != user's {names}")
        return ok
    for name, cfg in steps:
        kind = name.split(".")[0]
        got = out[name]
        label = step_label(name, cfg)
        ucfg = dec(cfg)
        for p, v in ucfg.items():
            want = conv(v, entry, p)
            if p not in got:
                bad("user-value", f"{label}/{p}", f"user key {name}.{p} missing from the returned configuration")
            elif not same(got[p], want):
                bad("user-value", f"{label}/{p}", f"user value {name}.{p}={v!r} came back as {got[p]!r}")
        ukeys = [k for k in got if k in ucfg]
        if ukeys != list(ucfg):
            bad("order", f"keys/{label}", f"user keys of {name} {list(ucfg)} came back in order {ukeys}")
        method = ucfg.get(T.TABLE[kind]["key"])
        if isinstance(method, str) and method in T.TABLE[kind]["methods"]:
            vals, present, absent = T.expected_defaults(kind, method)
            for p, d in vals.items():
                if p in ucfg:
                    continue
                if p not in got:
                    bad("default", f"{label}/{p}", f"omitted {name}.{p} does not appear in the returned configuration")
                elif not same(got[p], d):
                    bad("default", f"{label}/{p}", f"omitted {name}.{p} completed with {got[p]!r}, documented default "
                        f"{d!r}")
            for p in present:
                if p not in ucfg and p not in got:
                    bad("default", f"{label}/{p}", f"omitted {name}.{p} does not appear in the returned configuration")
            for p in absent:
                if p not in ucfg and p in got:
                    bad("default", f"{label}/{p}", f"{name}.{p} has no default but was invented: {got[p]!r}")
    # idempotence: checking the returned configuration returns it unchanged
    again_steps = [[n, copy.deepcopy(out[n])] for n in out]
    res2 = real_check_py(entry, again_steps, meta)
    lab = devs[0][0] if len(devs) == 1 else "pipeline"
    if res2[0] == "exc":
        bad("idempotence", f"{lab}/refused", f"the returned configuration is refused ({res2[1]}) when checked again: "
            f"{json.dumps(out, default=str)}")
    elif not same(res2[1], out):
        bad("idempotence", f"{lab}/changed", f"second check returned {json.dumps(res2[1], default=str)} for "
            f"{json.dumps(out, default=str)}")
    return ok


LAST = {}


def entries_agree(steps, meta, label, viol):
    """after one judge() per entry point on the same user pipeline: both accepted => same returned configuration"""
    a, b = LAST.get("section"), LAST.get("machine")
    if a is not None and b is not None and not same(a, b):
        viol.append({"clause": "entries-differ", "key": f"C05/entries-differ/{label}",
                     "detail": f"[meta={meta}] check_pipeline_section returned {vstr_any(a)} but PandoraMachine.check_conf "
                               f"left {vstr_any(b)} in pipeline_cfg; user pipeline={vstr(steps)}"})


def vstr_any(x):
    return json.dumps(x, default=str)


def real_check_py(entry, steps_py, meta):
    """like real_check for already-decoded python configurations"""
    from pandora import check_configuration as cc  # pylint: disable=import-outside-toplevel
    from pandora.state_machine import PandoraMachine  # pylint: disable=import-outside-toplevel

    if _CANON[0]:
        canon(entry)
    user = {"pipeline": dict(steps_py)}
    left, right = metas(meta)
    machine = PandoraMachine()
    try:
        if entry == "section":
            return ("ok", cc.check_pipeline_section(user, left, right, machine)["pipeline"])
        machine.check_conf(user, left, right)
        return ("ok", machine.pipeline_cfg["pipeline"])
    except Exception as e:  # pylint: disable=broad-except
        return ("exc", type(e).__name__)


ENTRIES = ("section", "machine")


def status_for(entry, param, value, status):
    """'inf' strings are only converted on the update_conf path"""
    if entry == "machine" and value in ("inf", "-inf"):
        return "?"
    return status


def combine(statuses):
    if "R" in statuses:
        return "R"
    if "?" in statuses:
        return "?"
    return "A"


# ----------------------------------------------------------------------------------------------
# parameter value lists
# ----------------------------------------------------------------------------------------------
def param_values(kind, method, param):
    if param == "$method":
        return [(v, s, "") for v, s in T.METHOD_VALUES[kind]] + [(OMIT, "R", "method key missing")]
    vals = [(v, s, "") for v, s in T.method_params(kind, method)[param]["values"]]
    if kind == "disparity" and param == "invalid_disparity":
        vals += [("inf", "A", ""), ("-inf", "A", "")]
    vals.append((OMIT, "A", "omitted"))
    return vals


def core_values(vals):
    """quick-tier subset for level 2: the values around the boundary (first four asserted) + one wrong type"""
    asserted = [x for x in vals if x[1] in ("A", "R") and x[0] != OMIT]
    out = asserted[:4]
    for x in asserted[4:]:
        if isinstance(x[0], str) or x[0] is None:
            out.append(x)
            break
    return out


def params_of(kind, method):
    return ["$method"] + [p for p in T.method_params(kind, method) if not (kind == "matching_cost" and p == "band")]


def pkey(kind, param):
    return T.TABLE[kind]["key"] if param == "$method" else param


# ----------------------------------------------------------------------------------------------
# spaces
# ----------------------------------------------------------------------------------------------
def all_variants():
    return [(m, c, f) for m in ("sad", "ssd", "census", "zncc")
            for c in ("std_intensity", "ambiguity", "risk", "interval_bounds")
            for f in ("median", "bilateral", "median_for_intervals")]


def spaces(tier, seed):
    level0 = []
    for kind in KINDS:
        for method in T.TABLE[kind]["methods"]:
            for ctx in ("min", "long"):
                for given in (0, 1):
                    for meta in ("mono", "rgb"):
                        level0.append({"sp": "l0", "kind": kind, "method": method, "ctx": ctx, "given": given,
                                       "meta": meta})
    level0h = [{"sp": "l0h", "kind": kind, "method": method, "meta": meta}
               for kind in KINDS for method in T.TABLE[kind]["methods"] for meta in ("mono", "rgb")]
    level1 = []
    for kind in KINDS:
        for method in T.TABLE[kind]["methods"]:
            for param in params_of(kind, method):
                for ctx in ("min", "long"):
                    for given in (0, 1):
                        level1.append({"sp": "l1", "kind": kind, "method": method, "param": param, "ctx": ctx,
                                       "given": given, "meta": "mono" if (ctx == "min" or given) else "rgb"})
    bands = [{"sp": "band", "meta": meta, "method": m, "ctx": ctx}
             for meta in BAND_SPACE for m in ("sad", "ssd", "census", "zncc") for ctx in ("min", "long")]

    variants = all_variants()
    variants = variants[seed % len(variants):] + variants[:seed % len(variants)]  # the seed only rotates the order
    if tier == "quick":
        # four variants in which every built-in method of the three multi-method kinds occurs at least once
        q = [("sad", "ambiguity", "median"), ("census", "risk", "bilateral"),
             ("zncc", "interval_bounds", "median_for_intervals"), ("ssd", "std_intensity", "median")]
        variants = q[seed % 4:] + q[:seed % 4]
    # the methods of the steps that are not part of a pair do not matter: each (step.method.param, step.method.param)
    # combination is enumerated once (`seen`)
    level2 = []
    seen = set()
    for var in variants:
        meth = {"matching_cost": var[0], "cost_volume_confidence": var[1], "filter": var[2]}
        full = dict(DEFAULT_METHOD, **meth)
        for ia, ib in itertools.combinations(range(len(KINDS)), 2):
            ka, kb = KINDS[ia], KINDS[ib]
            for pa in params_of(ka, full[ka]):
                for pb in params_of(kb, full[kb]):
                    sig = (ka, full[ka], pa, kb, full[kb], pb)
                    if sig in seen:  # the other steps' methods do not take part in the pair
                        continue
                    seen.add(sig)
                    level2.append({"sp": "l2", "var": list(var), "a": [ia, pa], "b": [ib, pb],
                                   "full": 1 if tier == "thorough" else 0})
    events = [[m, w] for m in ("sad", "ssd", "census", "zncc") for w in (3, 7)]
    maxlen = 3 if tier == "quick" else 4
    hist = []
    for n in range(0, maxlen + 1):
        for seq in itertools.product(range(len(events)), repeat=n):
            if tier == "quick" and n == 3 and len({events[i][0] for i in seq}) < 3:
                continue  # quick: length-3 histories over three different methods only
            hist.append({"sp": "hist-mc", "seq": [events[i] for i in seq]})
    ievents = ["list", "lgrid", "grids", "bad-list+rgrid", "bad-grid1"]
    hist_in = []
    for n in range(0, maxlen + 1):
        for seq in itertools.product(ievents, repeat=n):
            if tier == "quick" and n == 3 and len(set(seq)) < 3:
                continue
            hist_in.append({"sp": "hist-in", "seq": list(seq)})
    files = []
    for form in ("list", "lgrid", "grids"):
        for img in ("mono", "rgb"):
            for kind in KINDS:
                for method in T.TABLE[kind]["methods"]:
                    if tier == "quick" and (form, img) not in (("list", "mono"), ("grids", "rgb"), ("lgrid", "mono")):
                        continue
                    files.append({"sp": "files", "form": form, "img": img, "kind": kind, "method": method})
    return [
        {"name": "base pipelines (omitted / written-out defaults) x metadata", "level": 0, "cases": level0, "chunk": 8},
        {"name": "defaults after a check of the same step with every parameter at an accepted non-default value",
         "level": 1, "cases": level0h, "chunk": 4},
        {"name": "one parameter off its default: every table value", "level": 1, "cases": level1, "chunk": 4},
        {"name": "band x image metadata (mono, rgb, multi-character names, left/right differ)", "level": 1,
         "cases": bands, "chunk": 4},
        {"name": "full check_conf on GeoTIFF inputs x one parameter off its default", "level": 1, "cases": files,
         "chunk": 2},
        {"name": "two parameters of two different steps of an 8-step pipeline: all value pairs", "level": 2,
         "cases": level2, "chunk": 4},
        {"name": "histories of <= 3 (thorough: 4) matching-cost checks, then probes (class-level schema)", "level": 2,
         "cases": hist, "chunk": 16},
        {"name": "histories of <= 3 (thorough: 4) input-section checks, then probes (module-level schema)", "level": 2,
         "cases": hist_in, "chunk": 8},
    ]


# ----------------------------------------------------------------------------------------------
# run_case
# ----------------------------------------------------------------------------------------------
def _run_l0(case, viol, sigs):
    steps, _ = context(case["kind"], case["method"], case["ctx"], bool(case["given"]))
    steps = band_fix(steps, case["meta"])
    n = 0
    for entry in ENTRIES:
        judge(entry, steps, case["meta"], "A", [], viol, sigs, trivial=True)
        n += 1
    entries_agree(steps, case["meta"], f"{case['kind']}.{case['method']}", viol)
    return n, n


def _run_l0h(case, viol, sigs):
    """
    defaults after a history: the same process first checks the step with EVERY parameter written out at an accepted
    non-default value (a fresh machine, another pipeline object), then checks it with the parameters omitted: the
    documented defaults must appear, whatever an earlier object of the class was configured with
    """
    kind, method = case["kind"], case["method"]
    steps, idx = context(kind, method, "min", False)
    for param, spec in T.method_params(kind, method).items():
        if param in ("band", "step", "indicator") or "default" not in spec:
            continue
        alt = [v for v, st in spec["values"] if st == "A" and not same(v, spec["default"])]
        if alt:
            steps = set_param(steps, idx, param, alt[0])
    steps = band_fix(steps, case["meta"])
    real_check("section", steps, case["meta"])  # the verdict of the priming check is judged by the level-1 space
    n, t = _run_l0(dict(case, ctx="min", given=0), viol, sigs)
    for v in viol:
        if not v["key"].endswith("/after explicit non-default values"):
            v["key"] += "/after explicit non-default values"
    sigs[:] = ["h|" + x for x in sigs]
    return n + 1, 0


def _dev(kind, method, param, value, status, cls=""):
    return (f"{kind}.{method}", pkey(kind, param), vstr(value), status, cls)


def _run_l1(case, viol, sigs):
    kind, method, param = case["kind"], case["method"], case["param"]
    steps, idx = context(kind, method, case["ctx"], bool(case["given"]))
    steps = band_fix(steps, case["meta"])
    n = 0
    for value, status, cls in param_values(kind, method, param):
        s2 = set_param(steps, idx, pkey(kind, param), value)
        for entry in ENTRIES:
            st = status_for(entry, param, value, status)
            judge(entry, s2, case["meta"], st, [_dev(kind, method, param, value, st, cls)], viol, sigs)
            n += 1
        if value not in ("inf", "-inf"):
            entries_agree(s2, case["meta"], f"{kind}.{method}", viol)
    return n, 0


def _band_dev(value, status, cls):
    return ("matching_cost", "band", vstr(value), status, cls)


def _run_band(case, viol, sigs):
    meta = case["meta"]
    steps, idx = context("matching_cost", case["method"], case["ctx"])
    n = 0
    for value, status, cls in BAND_SPACE[meta]:
        s2 = set_param(steps, idx, "band", value)
        for entry in ENTRIES:
            judge(entry, s2, meta, status, [_band_dev(value, status, cls)], viol, sigs)
            n += 1
    return n, 0


def _run_l2(case, viol, sigs):
    var = case["var"]
    meth = dict(DEFAULT_METHOD, matching_cost=var[0], cost_volume_confidence=var[1], filter=var[2])
    steps = [[k, base_step(k, meth[k])] for k in KINDS]
    (ia, pa), (ib, pb) = case["a"], case["b"]
    ka, kb = KINDS[ia], KINDS[ib]
    va = param_values(ka, meth[ka], pa)
    vb = param_values(kb, meth[kb], pb)
    if not case["full"]:
        va, vb = core_values(va), core_values(vb)
    else:
        va = [x for x in va if x[0] != OMIT]
        vb = [x for x in vb if x[0] != OMIT]
    n = 0
    for a, sa, ca in va:
        s_a = set_param(steps, ia, pkey(ka, pa), a)
        for b, sb, cb in vb:
            s_ab = set_param(s_a, ib, pkey(kb, pb), b)
            for entry in ENTRIES:
                sta, stb = status_for(entry, pa, a, sa), status_for(entry, pb, b, sb)
                exp = combine([sta, stb])
                da, db = _dev(ka, meth[ka], pa, a, sta, ca), _dev(kb, meth[kb], pb, b, stb, cb)
                local = []
                good = judge(entry, s_ab, "mono", exp, [da, db], local, sigs)
                n += 1
                if not good:
                    # attribute the failure: does one of the two deviations fail on its own?
                    alone = []
                    judge(entry, s_a, "mono", sta, [da], alone, [])
                    judge(entry, set_param(steps, ib, pkey(kb, pb), b), "mono", stb, [db], alone, [])
                    if alone:
                        viol.extend(alone)
                    else:
                        for v in local:
                            v["key"] += "/only-in-pair"
                        viol.extend(local)
    return n, 0


# ---- histories ---------------------------------------------------------------------------------
MC_PROBES = [  # (method, param, value, status)
    ("sad", "window_size", 7, "A"), ("sad", "window_size", 1, "A"), ("sad", "window_size", 2, "R"),
    ("ssd", "window_size", 9, "A"), ("zncc", "window_size", 7, "A"), ("zncc", "window_size", 4, "R"),
    ("census", "window_size", 7, "R"), ("census", "window_size", 1, "R"), ("census", "window_size", 3, "A"),
    ("census", "window_size", 5, "A"), ("sad", "subpix", 3, "R"), ("census", "subpix", 4, "A"),
    ("zncc", "step", 2, "R"), ("sad", "$method", "census", "A"), ("census", "$method", "nope", "R"),
]


def _run_hist_mc(case, viol, sigs):
    n = 0
    for method, param, value, status in MC_PROBES:
        for entry in ENTRIES:
            canon(entry)
            _CANON[0] = False  # nothing between the enumerated history and the probe
            try:
                for m, w in case["seq"]:  # the history: accepted and refused checks of other classes, same process
                    real_check(entry, [["matching_cost", {"matching_cost_method": m, "window_size": w}]], "mono")
                steps = [["matching_cost", {"matching_cost_method": method}]]
                steps = set_param(steps, 0, pkey("matching_cost", param), value)
                local = []
                judge(entry, steps, "mono", status, [_dev("matching_cost", method, param, value, status)], local, [])
            finally:
                _CANON[0] = True
            n += 1
            for v in local:
                v["clause"] = "history"
                v["key"] = "C05/history/matching-cost schema/" + v["key"][4:]
                v["detail"] = f"after checks {case['seq']} in the same process: " + v["detail"]
            viol.extend(local)
            sigs.append(f"hist|{entry}|{case['seq']}|{method}|{param}|{value}|{'bad' if local else 'ok'}")
    return n, 0


def _input(form, lib, img="mono"):
    left = {"img": lib["img_l" if img == "mono" else "mb_l"]}
    right = {"img": lib["img_r" if img == "mono" else "mb_r"]}
    if form == "list":
        left["disp"] = [-2, 2]
    elif form == "lgrid":
        left["disp"] = lib["grid2"]
    elif form == "grids":
        left["disp"] = lib["grid2"]
        right["disp"] = lib["grid2_r"]
    elif form == "bad-list+rgrid":
        left["disp"] = [-2, 2]
        right["disp"] = lib["grid2_r"]
    elif form == "bad-grid1":
        left["disp"] = lib["grid1"]
    elif form == "bad-rlist":
        left["disp"] = lib["grid2"]
        right["disp"] = [-2, 2]
    elif form == "bad-list-rlist":
        left["disp"] = [-2, 2]
        right["disp"] = [-2, 2]
    elif form == "bad-minmax":
        left["disp"] = [2, -2]
    elif form == "eq-list":
        left["disp"] = [1, 1]
    elif form == "bad-float-list":
        left["disp"] = [-2.0, 2.0]
    else:
        raise ValueError(form)
    return {"input": {"left": left, "right": right}}


IN_PROBES = [("list", "A"), ("lgrid", "A"), ("grids", "A"), ("eq-list", "A"), ("bad-list+rgrid", "R"),
             ("bad-rlist", "R"), ("bad-list-rlist", "R"), ("bad-minmax", "R"), ("bad-grid1", "R"),
             ("bad-float-list", "R")]


def _check_input(cfg):
    from pandora import check_configuration as cc  # pylint: disable=import-outside-toplevel

    try:
        return ("ok", cc.check_input_section(cfg))
    except Exception as e:  # pylint: disable=broad-except
        return ("exc", type(e).__name__)


def _strip(x, lib):
    """replace scratch paths by their roles (signatures / messages must not contain paths)"""
    inv = {v: f"<{k}>" for k, v in lib.items()}
    if isinstance(x, dict):
        return {k: _strip(v, lib) for k, v in x.items()}
    if isinstance(x, list):
        return [_strip(v, lib) for v in x]
    if isinstance(x, str):
        return inv.get(x, x)
    return x


def _run_hist_in(case, viol, sigs):
    from mc.drivers import files as F  # pylint: disable=import-outside-toplevel

    lib = F.library(6, 8)
    n = 0
    for form, status in IN_PROBES:
        _check_input(_input("list", lib))  # canonical start of the history
        for ev in case["seq"]:
            _check_input(_input(ev, lib))
        res = _check_input(_input(form, lib))
        n += 1
        got = "A" if res[0] == "ok" else "R"
        sigs.append(f"hist-in|{case['seq']}|{form}|{got}")
        if got != status:
            viol.append({"clause": "history", "key": f"C05/history/input schema/{form}",
                         "detail": f"after input-section checks {case['seq']} in the same process the input form "
                                   f"'{form}' is {'accepted' if got == 'A' else 'refused (' + res[1] + ')'}; "
                                   f"documented: {'accepted' if status == 'A' else 'refused'}"})
    return n, 0


# ---- full check_conf on files -----------------------------------------------------------------------
INPUT_DEFAULTS = {"left": {"nodata": -9999, "mask": None, "classif": None, "segm": None},
                  "right": {"nodata": -9999, "mask": None, "classif": None, "segm": None, "disp": None}}


def _full_check(user):
    from pandora import check_configuration as cc  # pylint: disable=import-outside-toplevel
    from pandora.state_machine import PandoraMachine  # pylint: disable=import-outside-toplevel

    if _CANON_INPUT[0] is not None:
        _check_input(_CANON_INPUT[0])  # canonical immediate history of the module-level input schema
    canon("section")
    try:
        return ("ok", cc.check_conf(user, PandoraMachine()))
    except Exception as e:  # pylint: disable=broad-except
        return ("exc", type(e).__name__)


def _same_loose_order(a, b):
    """strict values/types, key order ignored (input section)"""
    if isinstance(a, dict) and isinstance(b, dict):
        return set(a) == set(b) and all(_same_loose_order(a[k], b[k]) for k in a)
    return same(a, b)


def _judge_full(user_in, steps, exp, devs, lib, viol, sigs, meta):
    user = {"input": copy.deepcopy(user_in["input"]), "pipeline": {n: dec(c) for n, c in steps}}
    before = copy.deepcopy(user)
    res = _full_check(user)
    tag = f"[check_conf on files, {meta}]"
    shown = vstr_any(_strip(before, lib))

    def bad(clause, tail, detail):
        viol.append({"clause": clause, "key": f"C05/{clause}/{tail}", "detail": f"{tag} {detail}; user cfg={shown}"})

    def devkey(d):
        return f"{d[0]}/{d[1]}/" + (d[4] if d[4] else f"value {d[2]}")

    sigs.append(f"full|{shown}|{res[0]}")
    if res[0] == "exc":
        if exp == "A":
            bad("rejects-in-domain", devkey(devs[0]) if devs else "files/base", f"refused ({res[1]})")
        return
    out = res[1]
    if exp == "R":
        rdev = [d for d in devs if d[3] == "R"]
        bad("accepts-out-of-domain", devkey(rdev[0]), f"accepted although {rdev[0][1]}={rdev[0][2]} is out of domain")
        return
    if not same(user, before):
        bad("mutated", "check_conf", f"user dictionary changed: after={vstr_any(_strip(user, lib))}")
    # input section: user keys keep their value, defaults added
    for side in ("left", "right"):
        got = out.get("input", {}).get(side, {})
        for k, v in before["input"][side].items():
            want = math.nan if (isinstance(v, str) and v == "NaN") else v
            if k not in got or not same(got[k], want):
                bad("user-value", f"input/{side}.{k}", f"input.{side}.{k}={v!r} came back as {got.get(k, '<missing>')!r}")
        for k, d in INPUT_DEFAULTS[side].items():
            if k not in before["input"][side] and (k not in got or not same(got[k], d)):
                bad("default", f"input/{k}", f"omitted input.{side}.{k} completed with {got.get(k, '<missing>')!r}, "
                    f"documented default {d!r}")
    # pipeline section must be what check_pipeline_section alone returns
    sec = real_check("section", steps, meta)
    if sec[0] != "ok" or not same(sec[1], out.get("pipeline")):
        bad("entries-differ", "check_conf-vs-section", f"pipeline section returned by check_conf "
            f"{vstr_any(out.get('pipeline'))} != check_pipeline_section's {vstr_any(sec[1])}")
    if list(out) != ["input", "pipeline"]:
        bad("order", "sections", f"sections of the returned configuration: {list(out)}")
    res2 = _full_check(copy.deepcopy(out))
    if res2[0] == "exc":
        bad("idempotence", "check_conf/refused", f"returned configuration refused ({res2[1]}) when checked again")
    elif not (_same_loose_order(res2[1]["input"], out["input"]) and same(res2[1]["pipeline"], out["pipeline"])):
        bad("idempotence", "check_conf/changed", f"second check returned {vstr_any(_strip(res2[1], lib))}")


NODATA = [(-9999, "A"), (0, "A"), (255, "A"), ({"$": "nan"}, "A"), ("NaN", "A"), (2.5, "R"), ("x", "R"), (None, "R"),
          ([0], "R"), (True, "?")]


_CANON_INPUT = [None]


def _run_files(case, viol, sigs):
    from mc.drivers import files as F  # pylint: disable=import-outside-toplevel

    lib = F.library(6, 8)
    _CANON_INPUT[0] = _input("list", lib)
    img = case["img"]
    meta = img
    kind, method = case["kind"], case["method"]
    base_in = _input(case["form"], lib, img)
    n = 0
    for ctx in ("min", "long"):
        steps, idx = context(kind, method, ctx)
        if case["form"] != "list":
            # documented: no multiscale on grids; cross-checking needs right grids when the left ones are grids
            drop = {"multiscale"} | ({"validation"} if case["form"] == "lgrid" else set())
            if kind in drop:
                continue
            keep = [i for i, (nm, _) in enumerate(steps) if nm not in drop]
            idx = keep.index(idx)
            steps = [steps[i] for i in keep]
        steps = band_fix(steps, meta)
        _judge_full(base_in, steps, "A", [], lib, viol, sigs, meta)
        n += 1
        for param in params_of(kind, method):
            vals = core_values(param_values(kind, method, param))
            for value, status, cls in vals:
                s2 = set_param(steps, idx, pkey(kind, param), value)
                _judge_full(base_in, s2, status, [_dev(kind, method, param, value, status, cls)], lib, viol, sigs, meta)
                n += 1
    if kind == "matching_cost" and method == "sad":
        steps = band_fix(context(kind, method, "min")[0], meta)
        for side in ("left", "right"):
            for value, status in NODATA:
                cfg = copy.deepcopy(base_in)
                cfg["input"][side]["nodata"] = dec(value)
                _judge_full(cfg, steps, status, [("input", f"{side}.nodata", vstr(value), status, "")], lib, viol,
                            sigs, meta)
                n += 1
        for opt, good in (("mask", "mask"), ("classif", "classif"), ("segm", "segm")):
            cfg = copy.deepcopy(base_in)
            cfg["input"]["left"][opt] = lib[good]
            cfg["input"]["right"][opt] = lib[good]
            _judge_full(cfg, steps, "A", [("input", opt, "good", "A", "")], lib, viol, sigs, meta)
            n += 1
    return n, 0


RUNNERS = {"l0h": _run_l0h, "l0": _run_l0, "l1": _run_l1, "band": _run_band, "l2": _run_l2, "hist-mc": _run_hist_mc,
           "hist-in": _run_hist_in, "files": _run_files}


def run_case(case):
    viol, sigs = [], []
    n, trivial = RUNNERS[case["sp"]](case, viol, sigs)
    # one record per key is enough for the engine (it de-duplicates by key anyway)
    seen, out = set(), []
    for v in viol:
        if v["key"] not in seen:
            seen.add(v["key"])
            out.append(v)
    return {"n": n, "sigs": sigs, "viol": out[:40], "trivial": trivial}


def init_worker():
    run_case({"sp": "l0", "kind": "matching_cost", "method": "sad", "ctx": "long", "given": 0, "meta": "mono"})
