"""
C06 - refinement moves a disparity by at most half a sample, never for the worse (DESIGN.md section 3, C06).

Three levels, all on the real code:
  (i)   `Vfit.refinement_method` / `Quadratic.refinement_method` on every cost triple over
        {NaN, 0, 1, 2, 3, 0.5, 1e-16, 1e6} x {min, max}, in the three forms the kernels can receive a triple;
  (ii)  `subpixel_refinement` on every per-pixel case = cost vector over {NaN, 0, 1, 2, 3} (3..5 samples) x received
        disparity (every sample of the axis + off-grid positions) x incoming flag x subpix {1, 2, 4} x {min, max} x
        {vfit, quadratic}: packed as the pixels of one dataset (the reference computes the whole packed expectation)
        and, one by one, as 1x1 datasets;
  (iii) pipeline level: the real `pandora.run` on small image pairs (masks, per-pixel grids, sad/zncc, subpix) with
        every post-disparity pipeline of the menu that contains a refinement step (directly after WTA, after a filter,
        repeated, after validation/filling), every refinement execution (left and right side) checked against the
        cost volume and the disparity map it received.
Oracle: mc/ref/refine.py (closed-form V-fit and parabola in float64).
"""
from __future__ import annotations

import hashlib
import itertools

import numpy as np

from mc.drivers import datasets as D
from mc.ref import refine as R

ID = "C06"
LEVEL = "exploration"
BUDGET = {"quick": 300, "thorough": 3600}
CHUNK = 4
RULE = (
    "cases = (i) all triples over the 8-symbol alphabet per (method, measure, call form, c0); (ii) packed datasets "
    "holding every (cost vector, received disparity, incoming flag) per (samples, subpix, measure, method) and the same "
    "per-pixel cases as 1x1 datasets; (iii) (scene, post-disparity pipeline containing a refinement). An evaluation is "
    "one refinement_method call (i), one subpixel_refinement call (ii) or one observed refinement execution (iii). "
    "Non-trivial: (i) the triple is fitted (sample is an extremum with finite neighbours); (ii)/(iii) the map holds at "
    "least one fitted and one stopped or invalid pixel. distinct = distinct (parameters, outcome digest)."
)
ASSUMPTIONS = [
    "an extremum is non-strict (a tie with a neighbour is still an extremum: WTA returns such samples); a triple of "
    "three equal costs is an extremum, any shift within half a sample with cost c1 is accepted for it, bit 3 is not",
    "when the received sample itself has a NaN cost (possible after a filter) only: disparity unchanged, no bit other "
    "than 3 changed (the statement does not say whether bit 3 is raised); at refinement_method level only totality",
    "when both slopes are below 1e-12 the unrefined sample (shift 0, cost c1) is accepted as well as the closed form",
    "value clauses (fitted optimum, coefficient, interval) are asserted for disparities that are samples of the cost "
    "volume axis; for off-grid disparities (after a bilateral/median filter or a fill): totality, invalid pixels "
    "untouched, only bit 3 may change, shift <= half a sample",
    "level (iii) deviates from DESIGN by using its own scene list (shared generator mc/drivers/scenes.py) instead of "
    "re-using C04's runs; refinement after validation is included",
    "tolerances against the float64 reference: shift rtol 1e-5 (+ float32 rounding of the stored map), cost 1e-5 of "
    "the largest cost of the triple",
]

# 1000001 / 1000003: a high cost level with slopes of a few units (exact in float32): what is an extremum must not
# depend on the level of the costs
TRIPLE_ALPHABET = [float("nan"), 0.0, 1.0, 2.0, 3.0, 0.5, 1e-16, 1e6, 1000001.0, 1000003.0]
VEC_ALPHABET = [float("nan"), 0.0, 1.0, 2.0, 3.0]
FLAGS_ALL = [0, 4, 1, 2, 64, 128, 256, 512, 8, 16, 32, 12, 2048 + 1024, 8 + 16]
FLAGS_QUICK_SINGLE = [0, 4, 1, 8, 256]
FORMS = ["list_f32", "array_f32", "list_f64"]
NCOLS = 61


# ----------------------------------------------------------------------------------------------
# spaces
# ----------------------------------------------------------------------------------------------
def spaces(tier, seed):
    triples = [
        {"kind": "triple", "method": m, "measure": t, "form": f, "c0": i}
        for m in ("vfit", "quadratic") for t in ("min", "max") for f in FORMS for i in range(len(TRIPLE_ALPHABET))
    ]
    nds = [1, 2, 3, 4] if tier == "quick" else [1, 2, 3, 4, 5]  # 1: interval [d, d], legal
    packed = [
        {"kind": "packed", "nd": nd, "subpix": sp, "measure": t, "method": m, "dmin": [-1, 0, -3, 2][(seed + nd + sp) % 4]}
        for nd in nds for sp in (1, 2, 4) for t in ("min", "max") for m in ("vfit", "quadratic")
    ]
    single_nds = [1, 2, 3] if tier == "quick" else [1, 2, 3, 4]
    flags = FLAGS_QUICK_SINGLE if tier == "quick" else FLAGS_ALL
    singles = [
        {"kind": "single", "nd": nd, "subpix": sp, "measure": t, "method": m, "flag": fl,
         "dmin": [-1, 0, -3, 2][(seed + nd + sp + 1) % 4]}
        for nd in single_nds for sp in (1, 2, 4) for t in ("min", "max") for m in ("vfit", "quadratic") for fl in flags
    ]
    from mc.drivers import scenes  # pylint: disable=import-outside-toplevel

    pipe = scenes.c06_cases(tier, seed)
    return [
        {"name": "refinement_method, all triples", "level": 0, "cases": triples, "chunk": 6},
        {"name": "subpixel_refinement, packed per-pixel cases", "level": 1, "cases": packed, "chunk": 1},
        {"name": "subpixel_refinement, 1x1 datasets", "level": 1, "cases": singles, "chunk": 2},
        {"name": "pipeline level: every refinement execution of observed runs", "level": 2, "cases": pipe, "chunk": 8},
    ]


# ----------------------------------------------------------------------------------------------
# level (i)
# ----------------------------------------------------------------------------------------------
def _msg(exc):
    """exception text without memory addresses (details must be reproducible)"""
    import re  # pylint: disable=import-outside-toplevel

    return re.sub(r"0x[0-9a-fA-F]+", "0x..", str(exc))[:200]


def _method(name):
    from pandora import refinement  # pylint: disable=import-outside-toplevel

    return refinement.AbstractRefinement(**{"refinement_method": name})


def _triple_class(status, c):
    if status == "flat":
        return "c0==c1==c2 finite"
    if status == "centre-nan":
        return "c1 NaN"
    if status == "stopped":
        return "NaN neighbour" if (np.isnan(c[0]) or np.isnan(c[2])) else "not an extremum"
    return "fit"


def _tol_cost(c):
    fin = [abs(float(x)) for x in c if not np.isnan(x)]
    return 1e-5 * max(fin + [1e-30]) + 1e-300


def run_triples(case):
    meth = _method(case["method"])
    cname = type(meth).__name__ + ".refinement_method"
    measure = case["measure"]
    viol, sigs = [], []
    n = trivial = 0

    def bad(clause, cls, detail):
        viol.append({"clause": clause, "key": f"C06/{clause}/{cname}/{cls}", "detail": detail})

    a0 = TRIPLE_ALPHABET[case["c0"]]
    for a1, a2 in itertools.product(TRIPLE_ALPHABET, repeat=2):
        c32 = np.array([a0, a1, a2], dtype=np.float32)
        if case["form"] == "list_f32":
            arg = [c32[0], c32[1], c32[2]]
        elif case["form"] == "array_f32":
            arg = c32.copy()
        else:
            arg = [float(c32[0]), float(c32[1]), float(c32[2])]
        status, x, y = R.decide(c32[0], c32[1], c32[2], measure, case["method"])
        cls = _triple_class(status, c32)
        n += 1
        try:
            sub_disp, sub_cost, valid = meth.refinement_method(arg, 1.0, measure)
        except Exception as e:  # pylint: disable=broad-except
            bad("totality", f"{type(e).__name__}/{cls}",
                f"{cname}({c32.tolist()}, 1.0, {measure!r}) [{case['form']}] raised {type(e).__name__}: {e}")
            continue
        what = f"{cname}({c32.tolist()}, 1.0, {measure!r}) -> ({sub_disp}, {sub_cost}, {valid})"
        if status == "centre-nan":
            trivial += 1
            continue
        c1 = float(c32[1])
        if status == "stopped":
            trivial += 1
            if valid != R.STOPPED:
                bad("bit3-exactly-when", f"{cls}: bit 3 not returned", what + " expected state 8")
            if sub_disp != 0 or not (sub_cost == c1):
                bad("stopped-unchanged", cls, what + f" expected shift 0 and cost {c1}")
            continue
        if valid != 0:
            bad("bit3-exactly-when", f"{cls}: state {valid} returned", what + " expected state 0 (sample is an extremum)")
        if not abs(sub_disp) <= 0.5 + 1e-9:
            bad("half-sample-bound", cls, what + " |shift| > 0.5")
        tol = _tol_cost(c32)
        if status == "flat":
            if not abs(sub_cost - c1) <= tol:
                bad("fitted-cost", cls, what + f" expected cost {c1}")
            sigs.append(f"t|{case['method']}|{measure}|{c32.tolist()}|{sub_disp}|{sub_cost}|{valid}")
            continue
        nearly_flat = max(abs(float(c32[0]) - c1), abs(float(c32[2]) - c1)) < 1e-12
        ok_shift = abs(sub_disp - x) <= 1e-5 * abs(x) + 1e-9
        ok_cost = abs(sub_cost - y) <= tol
        if nearly_flat and sub_disp == 0 and sub_cost == c1:
            ok_shift = ok_cost = True
        if not ok_shift:
            bad("fitted-optimum", cls, what + f" expected shift {x}")
        if not ok_cost:
            bad("fitted-cost", cls, what + f" expected cost {y}")
        worse = (sub_cost > c1 + tol) if measure == "min" else (sub_cost < c1 - tol)
        if worse:
            bad("never-worse", cls, what + f" refined cost worse than the sample's {c1}")
        sigs.append(f"t|{case['method']}|{measure}|{c32.tolist()}|{sub_disp}|{sub_cost}|{valid}")
    return {"n": n, "sigs": sigs, "viol": viol[:6], "trivial": trivial}


# ----------------------------------------------------------------------------------------------
# levels (ii) and (iii): comparison of one refinement execution with the reference
# ----------------------------------------------------------------------------------------------
def axis(dmin, nd, subpix):
    """disparity axis as MatchingCost.get_disparity_range builds it (int64 for subpix 1, float64 otherwise)"""
    if subpix == 1:
        return np.arange(dmin, dmin + nd)
    return dmin + np.arange(nd, dtype=np.float64) / subpix


def compare(site, method, measure, subpix, costs, disps, b_disp, b_flags, a_disp, a_flags, coeff, lo=None, hi=None):
    """
    :param costs: (row, col, disp) cost volume seen by the step; disps its axis
    :param b_*/a_*: disparity map and validity mask before / after the step; coeff: interpolated_coeff after
    :param lo, hi: per-pixel interval (arrays) or None for the axis ends
    :return: (violations, class histogram)
    """
    viol = []
    seen = set()

    def bad(clause, cls, detail):
        key = f"C06/{clause}/{site}/{cls}"
        if key not in seen:
            seen.add(key)
            viol.append({"clause": clause, "key": key, "detail": detail})

    d_min, d_max = float(disps[0]), float(disps[-1])
    exp = R.expected_map(costs, b_disp, b_flags, d_min, subpix, measure, method)
    cls = exp["cls"]
    bf = np.asarray(b_flags).astype(np.int64)
    af = np.asarray(a_flags).astype(np.int64)
    bd = np.asarray(b_disp, dtype=np.float64)
    ad = np.asarray(a_disp, dtype=np.float64)
    co = np.asarray(coeff, dtype=np.float64)
    def where(mask):
        w = np.argwhere(mask)
        return (int(w[0][0]), int(w[0][1])), len(w)

    def px(p):
        r, c = p
        k = int(exp["k"][r, c])
        tri = costs[r, c, max(k - 1, 0):k + 2].tolist() if k >= 0 else "off-grid"
        return (f"pixel {p} costs={np.asarray(costs[r, c]).tolist()} axis=[{d_min}..{d_max}] subpix={subpix} {measure} "
                f"received disp={bd[r, c]} flag={bf[r, c]} triple={tri} -> disp={ad[r, c]} flag={af[r, c]} "
                f"coeff={co[r, c]} [{R.CLS_NAMES[int(cls[r, c])]}]")

    same_disp = (ad == bd) | (np.isnan(ad) & np.isnan(bd))
    invalid = cls == 0
    # invalid pixels untouched
    m = invalid & (~same_disp | (af != bf))
    if m.any():
        p, k = where(m)
        bad("invalid-untouched", method, f"{px(p)}: pixel flagged invalid was modified ({k} pixels)")
    valid = ~invalid
    # flag discipline on every valid pixel: nothing but bit 3 may change, bit 3 is never lost
    other = valid & (((af ^ bf) & ~R.STOPPED) != 0) | (valid & ((bf & R.STOPPED) != 0) & ((af & R.STOPPED) == 0))
    carry = np.zeros(cls.shape, dtype=bool)
    if other.any():
        carry = other & ((bf & R.STOPPED) != 0) & (af == bf + R.STOPPED)
        if carry.any():
            p, k = where(carry)
            bad("bit3-carry", "bit 3 already set",
                f"{px(p)}: bit 3 requested on a pixel that already carries it was added arithmetically ({k} pixels)")
        rest = other & ~carry
        if rest.any():
            p, k = where(rest)
            bad("other-bit-changed", f"{method}/{R.CLS_NAMES[int(cls[p])]}",
                f"{px(p)}: a bit other than 3 changed ({k} pixels)")
    # half a sample at most (statement: every valid pixel)
    with np.errstate(invalid="ignore"):
        far = valid & np.isfinite(bd) & ~(np.abs(ad - bd) <= 0.5 / subpix * (1 + 1e-6) + 1e-6)
    if far.any():
        p, k = where(far)
        bad("half-sample-bound", f"{method}/{R.CLS_NAMES[int(cls[p])]}",
            f"{px(p)}: moved by more than {0.5 / subpix} ({k} pixels)")
    # sample without cost: unchanged
    m = (cls == 2) & ~same_disp
    if m.any():
        p, k = where(m)
        bad("stopped-unchanged", f"{method}/sample cost NaN", f"{px(p)}: disparity moved ({k} pixels)")
    # interval end / stopped: unchanged, bit 3, coefficient = sample's cost
    for c in (3, 4):
        sel = cls == c
        m = sel & ~same_disp
        if m.any():
            p, k = where(m)
            bad("stopped-unchanged", f"{method}/{R.CLS_NAMES[c]}", f"{px(p)}: disparity moved ({k} pixels)")
        m = sel & ((af & R.STOPPED) == 0) & ~carry  # a carried bit 3 is reported once, as bit3-carry
        if m.any():
            p, k = where(m)
            bad("bit3-exactly-when", f"{method}/{R.CLS_NAMES[c]}: bit 3 missing", f"{px(p)} ({k} pixels)")
        m = sel & ~(co == exp["c1"])
        if m.any():
            p, k = where(m)
            bad("coefficient", f"{method}/{R.CLS_NAMES[c]}", f"{px(p)}: coefficient is not the sample's cost ({k} pixels)")
    # flat / fit: bit 3 must not be raised
    sel = (cls == 5) | (cls == 6)
    m = sel & ((af & R.STOPPED) != 0) & ((bf & R.STOPPED) == 0)
    if m.any():
        p, k = where(m)
        bad("bit3-exactly-when", f"{method}/{R.CLS_NAMES[int(cls[p])]}: bit 3 raised", f"{px(p)} ({k} pixels)")
    tolc = 1e-5 * np.nanmax(np.abs(np.where(np.isfinite(costs), costs, 0)).astype(np.float64), axis=2) + 1e-300
    m = (cls == 5) & ~(np.abs(co - exp["c1"]) <= tolc)
    if m.any():
        p, k = where(m)
        bad("fitted-cost", f"{method}/flat triple", f"{px(p)}: expected coefficient {exp['c1'][p]} ({k} pixels)")
    fit = cls == 6
    if fit.any():
        rr, cc = np.nonzero(fit)
        kk = exp["k"][rr, cc]
        c0 = costs[rr, cc, kk - 1].astype(np.float64)
        c1 = costs[rr, cc, kk].astype(np.float64)
        c2 = costs[rr, cc, kk + 1].astype(np.float64)
        nearly = np.zeros(fit.shape, dtype=bool)
        nearly[rr, cc] = np.maximum(np.abs(c0 - c1), np.abs(c2 - c1)) < 1e-12
        alt = nearly & same_disp & (co == exp["c1"])
        ok_shift = np.abs(ad - exp["disp"]) <= 1e-5 * np.abs(exp["x"]) / subpix + 4e-7 * np.maximum(1.0, np.abs(exp["disp"]))
        m = fit & ~ok_shift & ~alt
        if m.any():
            p, k = where(m)
            bad("fitted-optimum", method, f"{px(p)}: expected disparity {exp['disp'][p]} ({k} pixels)")
        m = fit & ~(np.abs(co - exp["coeff"]) <= tolc) & ~alt
        if m.any():
            p, k = where(m)
            bad("fitted-cost", method, f"{px(p)}: expected coefficient {exp['coeff'][p]} ({k} pixels)")
        worse = (co > exp["c1"] + tolc) if measure == "min" else (co < exp["c1"] - tolc)
        m = fit & worse
        if m.any():
            p, k = where(m)
            bad("never-worse", method, f"{px(p)}: coefficient worse than the sample's cost {exp['c1'][p]} ({k} pixels)")
        lo_ = np.full(fit.shape, d_min) if lo is None else np.asarray(lo, dtype=np.float64)
        hi_ = np.full(fit.shape, d_max) if hi is None else np.asarray(hi, dtype=np.float64)
        m = fit & ~((ad >= lo_ - 1e-6) & (ad <= hi_ + 1e-6))
        if m.any():
            p, k = where(m)
            bad("inside-interval", method, f"{px(p)}: refined disparity outside [{lo_[p]}, {hi_[p]}] ({k} pixels)")
    hist = np.bincount(cls.reshape(-1), minlength=7).tolist()
    return viol, hist, exp


def call_refinement(method, costs, disps, disp, flags, subpix, measure):
    """real subpixel_refinement on synthetic datasets; returns (error, after_disp, after_flags, coeff, cv_after)"""
    cv = D.cost_volume(costs, disps, type_measure=measure, subpix=subpix, validity=flags)
    ds = D.disparity(disp, validity=flags, interval=[disps[0], disps[-1]], subpix=subpix, type_measure=measure)
    try:
        _method(method).subpixel_refinement(cv, ds)
    except Exception as e:  # pylint: disable=broad-except
        return e, None, None, None, cv
    return None, ds["disparity_map"].data, ds["validity_mask"].data, ds["interpolated_coeff"].data, cv


def refine_checked(site, method, measure, subpix, costs, disps, disp, flags):
    """
    one evaluation of level (ii); on an exception the offending input class is neutralised and the call repeated.
    returns dict(viol, hist, dig, out=(disp, flags, coeff) | None, neutral=mask of neutralised pixels | None)
    """
    viol = []
    costs = np.asarray(costs, dtype=np.float32)
    disp = np.asarray(disp, dtype=np.float32)
    flags = np.asarray(flags, dtype=np.uint16)
    neutral = np.zeros(flags.shape, dtype=bool)
    err, ad, af, co, cv = call_refinement(method, costs, disps, disp, flags, subpix, measure)
    if err is not None:
        d0 = float(disps[0])
        flat, off = R.flat_inputs(costs, disp, flags, d0, subpix, measure, method)
        cls = R.exception_class(costs, disp, flags, d0, subpix, measure, method)
        w = np.argwhere(flat if flat.any() else off)
        wit = ""
        if len(w):
            r, c = w[0]
            wit = f" e.g. pixel ({r},{c}) costs={costs[r, c].tolist()} disp={disp[r, c]} flag={flags[r, c]}"
        viol.append({"clause": "totality", "key": f"C06/totality/{site}({method})/{type(err).__name__}/{cls}",
                     "detail": f"subpixel_refinement raised {type(err).__name__}: {_msg(err)} on a {costs.shape} "
                               f"volume, axis {list(map(float, disps))}, {measure}{wit}"})
        if not (flat | off).any():
            return {"viol": viol, "hist": None, "dig": None, "out": None, "neutral": None}
        # neutralise: those pixels become invalid so that the rest of the packed input is still checked
        flags = flags.copy()
        neutral = flat | off
        flags[neutral] = 1
        err, ad, af, co, cv = call_refinement(method, costs, disps, disp, flags, subpix, measure)
        if err is not None:
            viol.append({"clause": "totality", "key": f"C06/totality/{site}({method})/{type(err).__name__}/no flat triple",
                         "detail": f"subpixel_refinement still raises after neutralising flat triples: {err}"})
            return {"viol": viol, "hist": None, "dig": None, "out": None, "neutral": None}
    if not D.arr_eq(cv["cost_volume"].data, costs):
        viol.append({"clause": "cost-volume-unchanged", "key": f"C06/cost-volume-unchanged/{site}/{method}",
                     "detail": "cost volume modified by the refinement step"})
    v, hist, _ = compare(site, method, measure, subpix, costs, disps, disp, flags, ad, af, co)
    dig = hashlib.sha1(np.nan_to_num(ad, nan=-7777.0).tobytes() + af.tobytes()).hexdigest()[:12]
    return {"viol": viol + v, "hist": hist, "dig": dig, "out": (ad, af, co), "neutral": neutral}


def _vectors(nd):
    return np.array(list(itertools.product(VEC_ALPHABET, repeat=nd)), dtype=np.float32)


def _positions(nd):
    """received disparities in index units: every sample, then off-grid positions"""
    out = []
    for x in [float(k) for k in range(nd)] + [0.5, 1.5, nd - 1.5, 1.25]:
        if 0.0 <= x <= nd - 1 and x not in out:  # a received disparity lies within the axis of its cost volume
            out.append(x)
    return out


def run_packed(case):
    nd, subpix, measure, method = case["nd"], case["subpix"], case["measure"], case["method"]
    disps = axis(case["dmin"], nd, subpix)
    vecs = _vectors(nd)
    pos = _positions(nd)
    nv, npos, nf = len(vecs), len(pos), len(FLAGS_ALL)
    total = nv * npos * nf
    rows = -(-total // NCOLS)
    idx = np.arange(rows * NCOLS) % total
    vi, rest = np.divmod(idx, npos * nf)
    pi, fi = np.divmod(rest, nf)
    costs = vecs[vi].reshape(rows, NCOLS, nd)
    disp = (float(disps[0]) + np.asarray(pos)[pi] / subpix).astype(np.float32).reshape(rows, NCOLS)
    flags = np.asarray(FLAGS_ALL, dtype=np.uint16)[fi].reshape(rows, NCOLS)
    res = refine_checked("subpixel_refinement", method, measure, subpix, costs, disps, disp, flags)
    hist = res["hist"]
    sigs = []
    if hist is not None and hist[6] > 0 and (hist[3] + hist[4] > 0):
        sigs = [f"p|{nd}|{subpix}|{measure}|{method}|{case['dmin']}|{hist}|{res['dig']}"]
    return {"n": 1, "sigs": sigs, "viol": res["viol"][:8], "trivial": 0 if sigs else 1}


def run_single(case):
    """
    every (vector, received disparity) with one incoming flag: first as the pixels of one (vectors x positions) dataset,
    checked against the reference, then one by one as 1x1 datasets whose result must be bit-identical to the pixel of
    the packed run (so that each 1x1 case is decided by the reference through the packed one)
    """
    nd, subpix, measure, method, flag = case["nd"], case["subpix"], case["measure"], case["method"], case["flag"]
    disps = axis(case["dmin"], nd, subpix)
    vecs = _vectors(nd)
    pos = _positions(nd)[: nd + 2]
    nv, npos = len(vecs), len(pos)
    costs = np.repeat(vecs[:, None, :], npos, axis=1)
    disp = np.repeat((float(disps[0]) + np.asarray(pos) / subpix).astype(np.float32)[None, :], nv, axis=0)
    flags = np.full((nv, npos), flag, dtype=np.uint16)
    res = refine_checked("subpixel_refinement", method, measure, subpix, costs, disps, disp, flags)
    viol = list(res["viol"])
    keys = {x["key"] for x in viol}
    sigs = []
    n, trivial = 1, 0
    exp = R.expected_map(costs, disp, flags, float(disps[0]), subpix, measure, method)
    cv_t = D.cost_volume(costs[:1, :1], disps, type_measure=measure, subpix=subpix, validity=flags[:1, :1])
    ds_t = D.disparity(disp[:1, :1], validity=flags[:1, :1], interval=[disps[0], disps[-1]], subpix=subpix,
                       type_measure=measure)
    meth = _method(method)

    def bad(clause, cls, detail):
        key = f"C06/{clause}/subpixel_refinement({method})/{cls}"
        if key not in keys:
            keys.add(key)
            viol.append({"clause": clause, "key": key, "detail": detail})

    for i in range(nv):
        for j in range(npos):
            cv = cv_t.copy(deep=True)
            ds = ds_t.copy(deep=True)
            cv["cost_volume"].data[0, 0, :] = costs[i, j]
            ds["disparity_map"].data[0, 0] = disp[i, j]
            n += 1
            what = (f"1x1 dataset costs={costs[i, j].tolist()} axis={list(map(float, disps))} subpix={subpix} {measure} "
                    f"disp={disp[i, j]} flag={flag}")
            cname = R.CLS_NAMES[int(exp["cls"][i, j])]
            try:
                meth.subpixel_refinement(cv, ds)
            except Exception as e:  # pylint: disable=broad-except
                ecls = R.exception_class(costs[i:i + 1, j:j + 1], disp[i:i + 1, j:j + 1], flags[i:i + 1, j:j + 1],
                                         float(disps[0]), subpix, measure, method)
                bad("totality", f"{type(e).__name__}/" + (ecls if ecls != "no flat triple" else cname),
                    f"{what}: subpixel_refinement raised {type(e).__name__}: {_msg(e)}")
                trivial += 1
                continue
            if res["out"] is None or res["neutral"][i, j]:
                trivial += 1
                continue
            ad, af, co = res["out"]
            got = (ds["disparity_map"].data[0, 0], ds["validity_mask"].data[0, 0], ds["interpolated_coeff"].data[0, 0])
            want = (ad[i, j], af[i, j], co[i, j])
            same = all((g == w) or (np.isnan(g) and np.isnan(w)) for g, w in zip(got, want))
            if not same:
                bad("packing-independent", cname, f"{what}: alone -> {got}, as a pixel of a {nv}x{npos} dataset -> {want}")
            if exp["cls"][i, j] == 6:
                sigs.append(f"s|{nd}|{subpix}|{measure}|{method}|{flag}|{costs[i, j].tolist()}|{pos[j]}|{got}")
            else:
                trivial += 1
    # the scalar and the vectorised reference must agree (harness self-check, not a verdict)
    for v in _vectors(3):
        s, x, y = R.decide(v[0], v[1], v[2], measure, method)
        sv, xv, yv = R.decide_vec(v[0:1], v[1:2], v[2:3], measure, method)
        code = {"centre-nan": 0, "stopped": 1, "flat": 2, "fit": 3}[s]
        if code != int(sv[0]) or (code == 3 and (x != xv[0] or y != yv[0])):
            raise AssertionError(f"reference models disagree on {v.tolist()}")
    return {"n": n, "sigs": sigs, "viol": viol[:8], "trivial": trivial}


# ----------------------------------------------------------------------------------------------
# level (iii)
# ----------------------------------------------------------------------------------------------
def run_pipeline(case):
    from mc.drivers import scenes  # pylint: disable=import-outside-toplevel

    return scenes.c06_run(case, compare)


def run_case(case):
    kind = case["kind"]
    if kind == "triple":
        return run_triples(case)
    if kind == "packed":
        return run_packed(case)
    if kind == "single":
        return run_single(case)
    return run_pipeline(case)


def init_worker():
    """JIT warm-up: one tiny call per (method, axis type); loop_refinement takes a function argument and is not cached"""
    for m in ("vfit", "quadratic"):
        for sp in (1, 2):
            disps = axis(0, 3, sp)
            refine_checked("subpixel_refinement", m, "min", sp, np.array([[[2, 1, 3]]], dtype=np.float32), disps,
                           np.array([[disps[1]]], dtype=np.float32), np.array([[0]], dtype=np.uint16))
