"""
C10 - filters change only valid pixels, to an average of their valid neighbours (DESIGN.md section 3, C10).

Enumerated on the real `AbstractFilter(cfg=..., image_shape=..., step=1).filter_disparity(disp)`:
  (i)   every 3x3 disparity map over {-1, 2, invalid} (quick) / {-1, 0, 2, invalid} (thorough) and, thorough only,
        every 3x4 map over {-1, 2, invalid}, as stand-alone datasets; the invalid symbol is realised through each of
        the bits 0, 1, 6, 7, 8, 9 in turn, valid pixels carry the informational bits in turn, invalid pixels hold
        -9999 / an in-range value / NaN in turn; median filter_size 1 and 3, bilateral (0.7, 1) and (1.5, 2);
  (ii)  the same maps packed as 3x3 tiles of 108x108 images (windows straddle tiles and the 50/100-pixel blocks);
  (iii) block geometry: shapes (rows, cols) in {3,5,49,50,51,99,100,101,149,150,151,201}^2 x median filter_size {3,5}
        and bilateral (0.7,1) (1.5,2) (6,2) [odd windows 3, 5, 19], position-coded half-integer disparities with
        three lattices of invalid pixels (sparse, checkerboard, stripes along the block boundaries);
  (iv)  images smaller than the filter (nothing to filter: every pixel is closer to a side than the radius);
  (v)   median_for_intervals on the interval-bound bands produced by a real `interval_bounds` step inside the real
        `pandora.run` (with/without regularisation, named/unnamed indicators), observed before/after the filter
        step and re-applied directly on a copy of the 'before' dataset;
  (vi)  median / bilateral filter steps inside the real `pandora.run`, with and without a cross-checking step
        (then the right disparity map is filtered too).
Oracle: mc/ref/filters.py, per pixel without blocks.
"""
from __future__ import annotations

import hashlib

import numpy as np

from mc.drivers import datasets as D
from mc.ref import filters as RF

ID = "C10"
LEVEL = "exploration"
BUDGET = {"quick": 300, "thorough": 3600}
CHUNK = 4
RULE = (
    "cases = blocks of 243..1024 consecutive maps of the complete enumeration of small maps (each map x each filter "
    "configuration is one evaluation), packed-tile images, (shape, filter, lattice) block-geometry maps, undersized "
    "images, interval-bound pipelines, machine-level filter steps; an evaluation is non-trivial when the map has both "
    "valid and invalid pixels and the filter changed at least one value; distinct = distinct (filter parameters, "
    "input/output digest)"
)
ASSUMPTIONS = [
    "bilateral with an even effective window width min(rows, cols, int(3*sigma_space+1)): such a window has no centre "
    "pixel; the two placements [p-w/2, p+w/2-1] and [p-w/2+1, p+w/2] are both accepted (the whole map must agree "
    "with one of them), always with the spatial Gaussian measured from the pixel itself; the edge clause follows the "
    "placement",
    "valid pixels hold finite disparities (a valid pixel with a NaN disparity is outside the statement)",
    "median values are exact (half-integer disparities); bilateral is compared with a float64 reference with "
    "|diff| <= 1e-5 * max(1, max |disparity|) and the [min, max] clause with 1e-6 of the same scale",
    "median_for_intervals: 'the same median' is taken over the band values of the pixels whose band is not NaN; in "
    "every enumerated pipeline a band is NaN exactly at the invalid pixels (pixels whose window would contain a pixel "
    "where the two notions differ are not compared, and counted); with regularisation only the clauses 'validity "
    "mask changes in bit 11 only', 'disparity untouched' and 'other bands untouched' are checked (the statement does "
    "not define the regularised bounds)",
    "the undersized-image space reads 'leaves pixels closer to the image edge than the filter radius untouched' as "
    "'an image smaller than the window is returned unchanged'",
    "shapes up to 201x201 (thorough 251), filter_size up to 5 (thorough 9), windows up to 19",
]

INVALID_MASK = 0b01111000011  # documented invalidating bits 0, 1, 6, 7, 8, 9
INVALID_BITS = [1 << 0, 1 << 1, 1 << 6, 1 << 7, 1 << 8, 1 << 9]
INFO_BITS = [0, 0, 1 << 2, 1 << 3, 1 << 4, 1 << 5, 1 << 10, 1 << 11, (1 << 2) | (1 << 10)]
INV_VALUES = [-9999.0, 1.0, float("nan")]
CLASS = {"median": "MedianFilter", "bilateral": "BilateralFilter", "median_for_intervals": "MedianForIntervalsFilter"}
BIT11 = 1 << 11

SIZES_Q = [3, 5, 49, 50, 51, 99, 100, 101, 149, 150, 151, 201]
SIZES_T = [3, 5, 7, 9, 19, 49, 50, 51, 52, 99, 100, 101, 102, 149, 150, 151, 200, 201, 251]


# ----------------------------------------------------------------------------------------------
# spaces
# ----------------------------------------------------------------------------------------------
LAYOUTS = ["C", "F", "view"]


def relayout(a, layout):
    """the same array values in another memory layout"""
    if layout == "F":
        return np.asfortranarray(a)
    if layout == "view":
        big = np.zeros(tuple(2 * n for n in a.shape), dtype=a.dtype)
        v = big[tuple(slice(None, None, 2) for _ in a.shape)]
        v[...] = a
        return v
    return a


def _filters_small(rows, cols, na=3):
    out = [("median", {"filter_size": 1}), ("median", {"filter_size": 3}),
           ("bilateral", {"sigma_space": 0.7, "sigma_color": 1.0}),
           ("bilateral", {"sigma_space": 1.5, "sigma_color": 2.0})]
    if (rows, cols) != (3, 3):
        out = [out[1]]
    elif na == 4:
        out = out[1:]  # filter_size 1 is the identity: enumerated over the 3-symbol maps only
    return out


def _block_filters(tier):
    med = [3, 5] if tier == "quick" else [3, 5, 7, 9]
    # 18.0: a window (55) wider than the 50-pixel processing blocks of the filter
    bil = [(0.7, 1.0), (1.0, 2.0), (1.5, 2.0), (6.0, 2.0), (18.0, 3.0)] if tier == "quick" else \
        [(0.7, 1.0), (1.0, 2.0), (1.5, 2.0), (2.2, 0.5), (2.7, 4.0), (3.0, 1.0), (6.0, 2.0), (18.0, 3.0)]
    return [("median", {"filter_size": f}) for f in med] + \
           [("bilateral", {"sigma_space": s, "sigma_color": c}) for s, c in bil]


def spaces(tier, seed):
    quick = tier == "quick"
    na = 3 if quick else 4
    nlow = 5
    singles = [{"kind": "single", "rows": 3, "cols": 3, "na": na, "nlow": nlow, "hi": hi, "seed": seed}
               for hi in range(na ** (9 - nlow))]
    if not quick:
        singles += [{"kind": "single", "rows": 3, "cols": 4, "na": 3, "nlow": 6, "hi": hi, "seed": seed}
                    for hi in range(3 ** 6)]
    ntiles = 36 * 36
    tiles = [{"kind": "tiles", "na": na, "img": i, "seed": seed, "method": m, "cfg": c}
             for i in range(-(-(na ** 9) // ntiles))
             for m, c in [("median", {"filter_size": 3}), ("median", {"filter_size": 5}),
                          ("bilateral", {"sigma_space": 0.7, "sigma_color": 1.0}),
                          ("bilateral", {"sigma_space": 1.5, "sigma_color": 2.0})]]
    sizes = SIZES_Q if quick else SIZES_T
    blocks = []
    for rows in sizes:
        for cols in sizes:
            for m, c in _block_filters(tier):
                if m == "median" and min(rows, cols) < c["filter_size"]:
                    continue  # see the undersized space
                k = rows * 3 + cols * 5 + seed
                wide = m == "bilateral" and c["sigma_space"] >= 6
                lats = [k % 3] if quick or wide else [k % 3, (k + 1) % 3]
                if max(rows, cols) > 100 and not wide:
                    lats = lats + [3]
                if min(rows, cols) > 102 and not wide:
                    lats = lats + [4]
                if min(rows, cols) >= 149 and not wide:
                    lats = lats + [5]
                for lat in lats:
                    # memory layout of the caller's arrays (C order / Fortran order / strided view of a larger
                    # array): the same map, so the same result
                    for layout in ([LAYOUTS[(k + lat) % 3]] if quick else [LAYOUTS[(k + lat) % 3], LAYOUTS[(k + lat + 1) % 3]]):
                        blocks.append({"kind": "block", "rows": rows, "cols": cols, "method": m, "cfg": c, "lat": lat,
                                       "off": (seed * 7 + k) % 17, "inv": (k + lat) % 3, "layout": layout})
    under = [{"kind": "under", "rows": r, "cols": c, "fs": fs}
             for fs in (3, 5, 7) for r in (1, 2, 3, 4, 5, 8) for c in (1, 2, 3, 4, 5, 8)
             if min(r, c) < fs]
    mfi = []
    for (rows, cols) in ([(7, 8), (12, 9), (103, 12), (11, 104)] if quick else
                         [(7, 8), (8, 7), (12, 9), (9, 12), (103, 12), (11, 104), (101, 102), (30, 31)]):
        for fs in (3, 5):
            for reg in (False, True):
                for named in (False, True):
                    for mk in (0, 1, 2):
                        for win in ((1, 3) if not quick else (1 + 2 * ((rows + fs + mk) % 2),)):
                            mfi.append({"kind": "mfi", "rows": rows, "cols": cols, "fs": fs, "reg": reg,
                                        "named": named, "mask": mk, "win": win, "seed": seed})
    mfi += [dict(c, prime_fs=8 - c["fs"]) for c in mfi if (c["rows"], c["cols"]) in ((7, 8), (12, 9))]
    # the filter placed after a cross-checking validation: occlusions and mismatches are invalid pixels that still
    # carry finite interval bounds (before a validation, invalid pixels only hold NaN bounds)
    mfi += [dict(c, val=True) for c in mfi if (c["rows"], c["cols"]) in ((7, 8), (12, 9), (103, 12))
            and not c.get("prime_fs")]
    mach = []
    for (rows, cols) in [(6, 7), (9, 8), (52, 9)] if quick else [(6, 7), (9, 8), (52, 9), (8, 103), (51, 52)]:
        for m, c in [("median", {"filter_size": 3}), ("median", {"filter_size": 5}),
                     ("bilateral", {"sigma_space": 0.7, "sigma_color": 1.0}),
                     ("bilateral", {"sigma_space": 1.5, "sigma_color": 2.0})]:
            if m == "bilateral" and RF.bilateral_width(rows, cols, c["sigma_space"]) % 2 == 0:
                continue
            for cross in (False, True):
                for mk in (0, 1):
                    mach.append({"kind": "machine", "rows": rows, "cols": cols, "method": m, "cfg": c, "cross": cross,
                                 "mask": mk, "seed": seed})
    return [
        {"name": "all small maps, stand-alone", "level": 0, "cases": singles, "chunk": 2},
        {"name": "all 3x3 maps packed as tiles of 108x108 images", "level": 1, "cases": tiles},
        {"name": "block geometry: shapes around the 50/100-pixel blocks x filters x invalid lattices", "level": 2,
         "cases": blocks},
        {"name": "images smaller than the median window", "level": 3, "cases": under, "chunk": 16},
        {"name": "median_for_intervals on real interval_bounds bands (pandora.run + direct)", "level": 4,
         "cases": mfi, "chunk": 2},
        {"name": "median/bilateral filter step inside pandora.run (left and right maps)", "level": 5,
         "cases": mach, "chunk": 2},
    ]


# ----------------------------------------------------------------------------------------------
# oracle
# ----------------------------------------------------------------------------------------------
def snap(ds):
    out = {"disp": ds["disparity_map"].data.copy(), "vm": ds["validity_mask"].data.copy(), "conf": None, "ind": []}
    if "confidence_measure" in ds:
        out["conf"] = ds["confidence_measure"].data.copy()
        out["ind"] = [str(x) for x in ds.coords["indicator"].data]
    return out


def _ne(a, b):
    """element-wise 'differs', NaN equal to NaN"""
    return ~((a == b) | (np.isnan(a) & np.isnan(b)))


def _window(a, r, c, rad):
    return a[max(0, r - rad): r + rad + 1, max(0, c - rad): c + rad + 1]


def band_names(cfg):
    suf = "." + cfg["interval_indicator"] if cfg.get("interval_indicator") else ""
    return "confidence_from_interval_bounds_inf" + suf, "confidence_from_interval_bounds_sup" + suf


def check_filter(method, cfg, before, after, viol, ctx, stats=None):
    """every clause of the statement on one (before, after) pair of snapshots"""
    site = CLASS[method] + ".filter_disparity"

    def bad(clause, cls, detail):
        viol.append({"clause": clause, "key": f"C10/{clause}/{site}" + (f"/{cls}" if cls else ""),
                     "detail": f"{ctx}: {detail}"})

    d0, d1, v0, v1 = before["disp"], after["disp"], before["vm"], after["vm"]
    if d1.shape != d0.shape or d1.dtype != np.float32 or v1.dtype != v0.dtype:
        bad("dtype-shape", "", f"disparity map {d1.dtype}{d1.shape} / validity {v1.dtype}, was float32{d0.shape}")
        return
    reg = method == "median_for_intervals" and bool(cfg.get("regularization"))
    allowed = BIT11 if reg else 0
    chg = (v0.astype(np.int64) ^ v1.astype(np.int64)) & ~allowed
    if chg.any():
        r, c = np.argwhere(chg != 0)[0]
        bad("validity-mask", "", f"validity mask at ({r},{c}) {int(v0[r, c])} -> {int(v1[r, c])}")
    inv = (v0 & INVALID_MASK) != 0
    ne = _ne(d0, d1)
    if (ne & inv).any():
        r, c = np.argwhere(ne & inv)[0]
        bad("invalid-untouched", "", f"invalid pixel ({r},{c}) flags {int(v0[r, c])}: disparity {d0[r, c]} -> {d1[r, c]}")
    if method == "median_for_intervals":
        if (ne & ~inv).any():
            r, c = np.argwhere(ne & ~inv)[0]
            bad("disparity-untouched", "", f"disparity at ({r},{c}) {d0[r, c]} -> {d1[r, c]} (only the interval bands "
                "are to be filtered)")
        _check_bands(cfg, before, after, inv, bad, stats)
        return
    # ---- median / bilateral on the disparity
    ny, nx = d0.shape
    v = RF.mask_invalid(d0, inv | ~np.isfinite(d0))
    if method == "median":
        size = int(cfg["filter_size"])
        exp, touched = RF.median_fast(v, size)
        tol = tolb = 0.0
    else:
        size = RF.bilateral_width(ny, nx, float(cfg["sigma_space"]))
        scale = max(1.0, float(np.nanmax(np.abs(v)))) if np.isfinite(v).any() else 1.0
        tol, tolb = 1e-5 * scale, 1e-6 * scale
        if size % 2 == 0:
            _check_even_bilateral(cfg, size, v, d0, d1, tol, bad, stats, ne)
            return
        exp, touched = RF.bilateral_fast(v, float(cfg["sigma_space"]), float(cfg["sigma_color"]), size)
    rad = size // 2
    valid = ~np.isnan(v)
    edge = valid & ~touched
    if (ne & edge).any():
        r, c = np.argwhere(ne & edge)[0]
        bad("edge-untouched", "", f"valid pixel ({r},{c}) of a {ny}x{nx} map is closer to a side than the radius {rad} "
            f"but changed {d0[r, c]} -> {d1[r, c]}")
    with np.errstate(invalid="ignore"):
        if tol == 0.0:
            wrong = touched & (d1 != exp.astype(np.float32))
        else:
            wrong = touched & ~(np.abs(d1.astype(np.float64) - exp) <= tol)
    if wrong.any():
        r, c = np.argwhere(wrong)[0]
        win = _window(v, r, c, rad)
        cls = "window with invalid pixels" if np.isnan(win).any() else "all-valid window"
        bad("value", cls, f"valid pixel ({r},{c}) of a {ny}x{nx} map: window (NaN = invalid) {win.tolist()} expected "
            f"{float(exp[r, c])!r} got {float(d1[r, c])!r} ({int(wrong.sum())} pixels differ)")
    lo, hi = RF.window_minmax(v, size)
    with np.errstate(invalid="ignore"):
        out = touched & ~((d1 >= lo - tolb) & (d1 <= hi + tolb))
    if out.any():
        r, c = np.argwhere(out)[0]
        bad("bounds", "", f"valid pixel ({r},{c}) became {float(d1[r, c])!r}, outside [{lo[r, c]}, {hi[r, c]}] of the valid "
            f"disparities of its window {_window(v, r, c, rad).tolist()}")
    if stats is not None:
        stats["changed"] = int(ne.sum())


def _check_even_bilateral(cfg, size, v, d0, d1, tol, bad, stats, ne):
    """even window: the whole map must agree with one of the two placements of a centre-less window"""
    ny, nx = d0.shape
    verdicts = []
    for low in (True, False):
        exp, touched = RF.bilateral_even(v, float(cfg["sigma_space"]), float(cfg["sigma_color"]), size, low)
        with np.errstate(invalid="ignore"):
            wrong = touched & ~(np.abs(d1.astype(np.float64) - exp) <= tol)
        wrong |= ~touched & ~np.isnan(v) & ne  # valid pixel without a whole window in this placement: untouched
        verdicts.append((low, wrong, exp))
    if all(w.any() for _, w, _ in verdicts):
        low, wrong, exp = min(verdicts, key=lambda t: int(t[1].sum()))
        r, c = np.argwhere(wrong)[0]
        bad("value", "even window", f"valid pixel ({r},{c}) of a {ny}x{nx} map, even window width {size}: got "
            f"{float(d1[r, c])!r}; with the window placed {'[p-w/2, p+w/2-1]' if low else '[p-w/2+1, p+w/2]'} (the "
            f"closer of the two placements, {int(wrong.sum())} pixels off) the weighted mean is {float(exp[r, c])!r}, "
            f"was {float(d0[r, c])!r}")
    if stats is not None:
        stats["changed"] = int(ne.sum())


def _check_bands(cfg, before, after, inv, bad, stats):
    names = band_names(cfg)
    if before["conf"] is None or after["conf"] is None or before["ind"] != after["ind"] or any(
            n not in before["ind"] for n in names):
        bad("bands-present", "", f"indicators before {before['ind']} after {after['ind']}")
        return
    reg = bool(cfg.get("regularization"))
    size = int(cfg["filter_size"])
    rad = size // 2
    changed = 0
    for i, name in enumerate(before["ind"]):
        b0, b1 = before["conf"][:, :, i], after["conf"][:, :, i]
        if name not in names:
            if _ne(b0, b1).any():
                r, c = np.argwhere(_ne(b0, b1))[0]
                bad("other-bands", "", f"band {name} at ({r},{c}) {b0[r, c]} -> {b1[r, c]}")
            continue
        if reg:
            continue
        exp, touched = RF.median_fast(RF.mask_invalid(b0, np.isnan(b0)), size)
        # pixels where 'invalid' and 'band is NaN' disagree make 'the same median' ambiguous: keep their
        # neighbourhoods out of the comparison
        amb = inv != np.isnan(b0)
        skip = np.zeros(b0.shape, dtype=bool)
        for r, c in np.argwhere(amb):
            skip[max(0, r - rad): r + rad + 1, max(0, c - rad): c + rad + 1] = True
        if stats is not None:
            stats["ambiguous"] = stats.get("ambiguous", 0) + int(skip.sum())
        expf = np.where(touched, exp, b0.astype(np.float64)).astype(np.float32)
        wrong = _ne(expf, b1) & ~skip
        # inside those neighbourhoods two readings of "the same median" exist: (A) above - the plain median of the
        # non-NaN band values, written to every pixel; (B) the validity-aware one of the disparity median - invalid
        # pixels are ignored by their neighbours and keep their own value.  A value that fits neither is wrong under
        # both (e.g. a finite bound of an invalid pixel turned into NaN)
        expb, touchedb = RF.median_fast(RF.mask_invalid(b0, inv | np.isnan(b0)), size)
        expbf = np.where(touchedb & ~inv, expb, b0.astype(np.float64)).astype(np.float32)
        neither = skip & _ne(expf, b1) & _ne(expbf, b1)
        if neither.any():
            r, c = np.argwhere(neither)[0]
            bad("bands-value", "invalid pixel with a finite bound in the window: neither the plain nor the "
                "validity-aware median", f"band {name} at ({r},{c}) (validity invalid={bool(inv[r, c])}): window "
                f"{_window(b0, r, c, rad).tolist()} became {float(b1[r, c])!r}; plain median {float(expf[r, c])!r}, "
                f"validity-aware median {float(expbf[r, c])!r} ({int(neither.sum())} pixels)")
        changed += int(_ne(b0, b1).sum())
        if wrong.any():
            r, c = np.argwhere(wrong)[0]
            kind = "edge or NaN pixel" if not touched[r, c] else (
                "window with invalid pixels" if np.isnan(_window(b0, r, c, rad)).any() else "all-valid window")
            bad("bands-value", kind, f"band {name} at ({r},{c}) of a {b0.shape[0]}x{b0.shape[1]} map: window "
                f"{_window(b0, r, c, rad).tolist()} expected {float(expf[r, c])!r} got {float(b1[r, c])!r} "
                f"({int(wrong.sum())} pixels differ)")
    if stats is not None:
        stats["changed"] = changed


class FilterRaised(Exception):
    """the real filter raised on a well-formed disparity dataset"""


def _apply(method, cfg, ds, shape, viol=None, ctx=""):
    """
    the real filter.  The statement says what every pixel becomes, so an exception on a well-formed dataset is a
    verdict (clause 'totality'), not a harness error: it is recorded in `viol` and False is returned.
    """
    from pandora import filter as flt  # pylint: disable=import-outside-toplevel

    f = flt.AbstractFilter(cfg=dict(cfg, filter_method=method), image_shape=shape, step=1)
    if viol is None:
        f.filter_disparity(ds)
        return True
    try:
        f.filter_disparity(ds)
    except Exception as e:  # pylint: disable=broad-except
        viol.append({"clause": "totality",
                     "key": f"C10/totality/{CLASS[method]}.filter_disparity/{type(e).__name__}",
                     "detail": f"{ctx}: the filter raised {type(e).__name__}: {e}"})
        return False
    return True


def _digest(*arrays):
    h = hashlib.sha1()
    for a in arrays:
        h.update(np.nan_to_num(np.ascontiguousarray(a, dtype=np.float64), nan=-7777.0).tobytes())
    return h.hexdigest()[:12]


def _dedup(viol, cap=8):
    seen, out = set(), []
    for v in viol:
        if v["key"] not in seen:
            seen.add(v["key"])
            out.append(v)
    return out[:cap]


# ----------------------------------------------------------------------------------------------
# (i) stand-alone small maps
# ----------------------------------------------------------------------------------------------
def _symbols(na):
    return [-1.0, 2.0, None] if na == 3 else [-1.0, 0.0, 2.0, None]


def small_map(idx, ncell, na, seed):
    """map number idx of the enumeration: (disparity values, validity flags) of its ncell cells"""
    sym = _symbols(na)
    vals = np.empty(ncell, dtype=np.float32)
    vm = np.zeros(ncell, dtype=np.uint16)
    rest = idx
    for cell in range(ncell - 1, -1, -1):
        rest, dgt = divmod(rest, na)
        s = sym[dgt]
        if s is None:
            vals[cell] = INV_VALUES[(idx + seed) % 3]
            vm[cell] = INVALID_BITS[(idx + cell + seed) % 6] | INFO_BITS[(idx // 7 + cell) % len(INFO_BITS)]
        else:
            vals[cell] = s
            vm[cell] = INFO_BITS[(idx + 2 * cell + seed) % len(INFO_BITS)]
    return vals, vm


def run_single(case):
    rows, cols, na, nlow, seed = case["rows"], case["cols"], case["na"], case["nlow"], case["seed"]
    ncell = rows * cols
    ds = D.disparity(np.zeros((rows, cols), dtype=np.float32), interval=[-1, 2])
    filters = _filters_small(rows, cols, na)
    viol, sigs = [], []
    n = trivial = 0
    for lo_i in range(na ** nlow):
        idx = case["hi"] * na ** nlow + lo_i
        vals, vm = small_map(idx, ncell, na, seed)
        vals, vm = vals.reshape(rows, cols), vm.reshape(rows, cols)
        for method, cfg in filters:
            ds["disparity_map"].data[:] = vals
            ds["validity_mask"].data[:] = vm
            before = snap(ds)
            ctx = f"{method} {cfg} on the stand-alone map {vals.tolist()} flags {vm.tolist()}"
            n += 1
            if not _apply(method, cfg, ds, (rows, cols), viol, ctx):
                trivial += 1
                ds = D.disparity(np.zeros((rows, cols), dtype=np.float32), interval=[-1, 2])
                continue
            after = snap(ds)
            stats = {}
            check_filter(method, cfg, before, after, viol, ctx, stats)
            inv = (vm & INVALID_MASK) != 0
            if inv.any() and (~inv).any() and stats.get("changed"):
                sigs.append(f"{method}|{sorted(cfg.items())}|{_digest(vals, vm, after['disp'])}")
            else:
                trivial += 1
        if lo_i % 61 == 0:
            _cross_check_refs(vals, vm)
    return {"n": n, "sigs": sigs, "viol": _dedup(viol), "trivial": trivial}


def _cross_check_refs(vals, vm):
    """the two implementations of each reference must agree (harness self-check, not a verdict)"""
    v = RF.mask_invalid(vals, ((vm & INVALID_MASK) != 0) | ~np.isfinite(vals))
    a, ta = RF.median_loop(v, 3)
    b, tb = RF.median_fast(v, 3)
    if not (np.array_equal(a, b, equal_nan=True) and np.array_equal(ta, tb)):
        raise AssertionError("median references disagree")
    a, ta = RF.bilateral_loop(v, 0.7, 1.0, 3)
    b, tb = RF.bilateral_fast(v, 0.7, 1.0, 3)
    if not (np.allclose(a, b, rtol=0, atol=1e-12, equal_nan=True) and np.array_equal(ta, tb)):
        raise AssertionError("bilateral references disagree")


# ----------------------------------------------------------------------------------------------
# (ii) packed tiles, (iii) block geometry, (iv) undersized
# ----------------------------------------------------------------------------------------------
def run_tiles(case):
    na, seed = case["na"], case["seed"]
    t = 36
    rows = cols = 3 * t
    vals = np.empty((rows, cols), dtype=np.float32)
    vm = np.empty((rows, cols), dtype=np.uint16)
    total = na ** 9
    for tr in range(t):
        for tc in range(t):
            idx = (case["img"] * t * t + tr * t + tc) % total
            a, b = small_map(idx, 9, na, seed)
            vals[3 * tr: 3 * tr + 3, 3 * tc: 3 * tc + 3] = a.reshape(3, 3)
            vm[3 * tr: 3 * tr + 3, 3 * tc: 3 * tc + 3] = b.reshape(3, 3)
    return _one_map(case["method"], case["cfg"], vals, vm,
                    f"{case['method']} {case['cfg']} on tile image {case['img']} (3x3 maps over {na} symbols, seed {seed})")


def lattice(rows, cols, lat):
    rr, cc = np.meshgrid(np.arange(rows), np.arange(cols), indexing="ij")
    if lat == 0:
        return (rr * 5 + cc * 3) % 7 == 0
    if lat == 1:
        return (rr + cc) % 2 == 0
    if lat == 4:
        # next to nothing invalid: the map of this lattice is flat apart from one row and one column (block_map)
        m = np.zeros((rows, cols), dtype=bool)
        m[10, 10] = m[rows - 7, cols // 2] = True
        return m
    if lat == 5:
        # one invalid rectangle larger than two processing blocks in each direction, valid pixels all around
        m = np.zeros((rows, cols), dtype=bool)
        m[20:126, 20:126] = True
        return m
    if lat == 3:
        # sparse: a handful of isolated invalid pixels hugging the 50 / 100-pixel block boundaries, every other
        # block free of invalid pixels (a per-block shortcut "no invalid pixel here" must still see its halo)
        m = np.zeros((rows, cols), dtype=bool)
        for b in (49, 50, 51, 99, 100, 101, 149, 150):
            for k, o in enumerate((7, 40, 73, 120, 170)):
                if b < rows and o + k < cols:
                    m[b, o + k] = True
                if b < cols and o + 2 * k < rows:
                    m[o + 2 * k, b] = True
        return m
    m = (rr * 3 + cc * 7) % 11 == 0
    for b in (49, 50, 99, 100, 101, 150):
        m |= (rr == b) & (cc % 3 != 0)
        m |= (cc == b) & (rr % 4 != 1)
    return m


def block_map(rows, cols, lat, off, invk):
    rr, cc = np.meshgrid(np.arange(rows), np.arange(cols), indexing="ij")
    vals = (((rr * rr * 3 + cc * cc * 5 + rr * cc * 7 + off) % 17) / 2.0 - 3.0).astype(np.float32)
    if lat == 4:
        # flat map (whole processing blocks hold one single value) crossed by row 100 and column 100 at another
        # value: the pixels right after the crossing have a window that reaches into the row / column
        vals = np.full((rows, cols), 1.0, dtype=np.float32)
        vals[100, :] = 3.0
        vals[:, 100] = 3.0
        if rows > 201 and cols > 201:
            vals[200, :] = vals[:, 200] = -2.0
    inv = lattice(rows, cols, lat)
    vm = np.array(INFO_BITS, dtype=np.uint16)[(rr * 2 + cc) % len(INFO_BITS)]
    ib = np.array(INVALID_BITS, dtype=np.uint16)[(rr + 2 * cc) % 6]
    vm = np.where(inv, vm | ib, vm).astype(np.uint16)
    vals[inv] = INV_VALUES[invk]
    return vals, vm


def run_block(case):
    vals, vm = block_map(case["rows"], case["cols"], case["lat"], case["off"], case["inv"])
    lay = case.get("layout", "C")
    return _one_map(case["method"], case["cfg"], vals, vm,
                    f"{case['method']} {case['cfg']} on the {case['rows']}x{case['cols']} position-coded map "
                    f"(lattice {case['lat']}, offset {case['off']}, invalid value {INV_VALUES[case['inv']]}, "
                    f"memory layout {lay})", lay)


def _one_map(method, cfg, vals, vm, ctx, layout="C"):
    ds = D.disparity(vals, validity=vm, interval=[-3, 5])
    if layout != "C":
        ds["disparity_map"].data = relayout(ds["disparity_map"].data, layout)
        ds["validity_mask"].data = relayout(ds["validity_mask"].data, layout)
    before = snap(ds)
    viol, stats = [], {}
    if not _apply(method, cfg, ds, vals.shape, viol, ctx):
        return {"n": 1, "sigs": [], "viol": viol, "trivial": 1}
    after = snap(ds)
    check_filter(method, cfg, before, after, viol, ctx, stats)
    inv = (vm & INVALID_MASK) != 0
    nontrivial = bool(inv.any() and (~inv).any() and stats.get("changed"))
    sigs = [f"{method}|{sorted(cfg.items())}|{vals.shape}|{layout}|{_digest(vals, vm, after['disp'])}"] \
        if nontrivial else []
    return {"n": 1, "sigs": sigs, "viol": _dedup(viol), "trivial": 0 if nontrivial else 1}


def run_under(case):
    rows, cols, fs = case["rows"], case["cols"], case["fs"]
    rr, cc = np.meshgrid(np.arange(rows), np.arange(cols), indexing="ij")
    vals = ((rr * 3 + cc * 5) % 7 - 2).astype(np.float32)
    vm = np.where((rr + cc) % 3 == 2, 64, 0).astype(np.uint16)
    ds = D.disparity(vals, validity=vm, interval=[-2, 4])
    before = snap(ds)
    viol = []
    ctx = f"median filter_size {fs} on a {rows}x{cols} map"
    try:
        _apply("median", {"filter_size": fs}, ds, (rows, cols))
    except Exception as e:  # pylint: disable=broad-except
        viol.append({"clause": "totality",
                     "key": "C10/totality/MedianFilter.filter_disparity/image side < filter_size - 1",
                     "detail": f"{ctx}: every pixel is closer to a side than the radius {fs // 2}, so the map must come "
                               f"back unchanged; the filter raised {type(e).__name__}: {e}"})
        return {"n": 1, "sigs": [f"u|{rows}|{cols}|{fs}|raise"], "viol": viol}
    after = snap(ds)
    check_filter("median", {"filter_size": fs}, before, after, viol, ctx)
    return {"n": 1, "sigs": [f"u|{rows}|{cols}|{fs}|ok"], "viol": _dedup(viol)}


# ----------------------------------------------------------------------------------------------
# (v) median_for_intervals, (vi) machine level
# ----------------------------------------------------------------------------------------------
def _pair(rows, cols, seed, mk):
    left, right = D.stereo_pair(rows, cols, shift=1, seed=seed)
    lm = rm = None
    if mk:
        lm = np.zeros((rows, cols), dtype=np.int16)
        lm[rows // 2, cols // 3] = 1
        lm[rows - 3, cols - 3] = 2
        if mk == 2:
            rm = np.zeros((rows, cols), dtype=np.int16)
            rm[2, cols // 2] = 1
            rm[rows // 2 + 1, 1] = 2
    return D.image(left, disp=(-2, 2), msk=lm), D.image(right, msk=rm)


def _steps(obs, step):
    i = [k for k, s in enumerate(obs.steps) if s["step"] == step][-1]
    return obs.steps[i - 1], obs.steps[i]


def _run_error(obs, method, ctx):
    """pandora.run failed: a verdict only when the filter step is what raised (its record is then missing)"""
    phase, err = obs.error
    done = [s["step"] for s in obs.steps]
    if phase == "run" and "filter" not in done and "disparity" in done:
        return {"n": 1, "sigs": [], "trivial": 1, "viol": [{
            "clause": "totality", "key": f"C10/totality/{CLASS[method]}.filter_disparity/{type(err).__name__}",
            "detail": f"{ctx}: the filter step raised {type(err).__name__}: {err}"}]}
    raise err


def run_mfi(case):
    from mc.drivers import pipeline as P  # pylint: disable=import-outside-toplevel

    if case.get("prime_fs"):
        # a filter object with ANOTHER filter_size ran earlier in this process (other object, other run): the
        # case below must not depend on it (class-level or module-level state)
        prime = dict(case, fs=case["prime_fs"], rows=7, cols=8)
        prime.pop("prime_fs")
        run_mfi(prime)
    rows, cols = case["rows"], case["cols"]
    dl, dr = _pair(rows, cols, case["seed"], case["mask"])
    named = case["named"]
    amb = {"confidence_method": "ambiguity", "eta_max": 0.7, "eta_step": 0.01}
    itv = {"confidence_method": "interval_bounds"}
    fcfg = {"filter_method": "median_for_intervals", "filter_size": case["fs"], "regularization": case["reg"],
            "interval_indicator": "itv" if named else "", "ambiguity_indicator": "amb" if named else ""}
    pipe = {"matching_cost": P.mc("sad", case["win"], 1)}
    pipe["cost_volume_confidence.amb" if named else "cost_volume_confidence"] = amb
    pipe["cost_volume_confidence.itv" if named else "cost_volume_confidence.1"] = itv
    if not named:
        # the second confidence step is necessarily suffixed; its suffix is the interval indicator
        fcfg["interval_indicator"] = "1"
    pipe["disparity"] = dict(P.WTA)
    if case.get("val"):
        pipe["validation"] = dict(P.CROSS)
    pipe["filter"] = fcfg
    obs = P.run_observed(dl, dr, pipe, snapshot=("disp",))
    if obs.error:
        return _run_error(obs, "median_for_intervals", f"pandora.run {list(pipe)} on a {rows}x{cols} pair")
    prev, cur = _steps(obs, "filter")
    cfg = obs.cfg["pipeline"]["filter"]
    before, after = snap(prev["left_disp"]), snap(cur["left_disp"])
    viol, stats = [], {}
    ctx = (f"median_for_intervals {fcfg} after sad window {case['win']} + ambiguity + interval_bounds on a {rows}x{cols} "
           f"pair (mask pattern {case['mask']}), inside pandora.run")
    check_filter("median_for_intervals", cfg, before, after, viol, ctx, stats)
    # the same filter applied directly on a copy of the dataset the step received
    ds = prev["left_disp"].copy(deep=True)
    lay = LAYOUTS[(rows + cols + case["fs"] + int(case["reg"])) % 3]
    if lay != "C":
        ds["confidence_measure"].data = relayout(ds["confidence_measure"].data, lay)
        ds["disparity_map"].data = relayout(ds["disparity_map"].data, lay)
    dctx = ctx.replace("inside pandora.run", f"direct call (memory layout {lay})")
    same = True
    if _apply("median_for_intervals", {k: v for k, v in cfg.items() if k != "filter_method"}, ds, (rows, cols), viol,
              dctx):
        direct = snap(ds)
        check_filter("median_for_intervals", cfg, before, direct, viol, dctx)
        same = all(D.arr_eq(after[k], direct[k]) for k in ("disp", "vm", "conf"))
        # the filter applied once more on its own output (a pipeline with filter and filter.1): same clauses
        if case["reg"]:
            again = ds.copy(deep=True)
            actx = dctx + ", applied a second time"
            if _apply("median_for_intervals", {k: v for k, v in cfg.items() if k != "filter_method"}, again,
                      (rows, cols), viol, actx):
                check_filter("median_for_intervals", cfg, direct, snap(again), viol, actx)
    if not same:
        viol.append({"clause": "machine-binding", "key": "C10/machine-binding/filter_run/median_for_intervals",
                     "detail": f"{ctx}: the filter step of the machine and the direct call on the same dataset differ"})
    inv = (before["vm"] & INVALID_MASK) != 0
    nontrivial = bool(inv.any() and (~inv).any() and (case["reg"] or stats.get("changed")))
    sigs = [f"mfi|{case['fs']}|{case['reg']}|{named}|{case.get('prime_fs')}|{case.get('val')}|"
            f"{_digest(after['conf'], after['vm'])}"] \
        if nontrivial else []
    return {"n": 2, "sigs": sigs, "viol": _dedup(viol), "trivial": 0 if nontrivial else 2}


def run_machine(case):
    from mc.drivers import pipeline as P  # pylint: disable=import-outside-toplevel

    rows, cols, method = case["rows"], case["cols"], case["method"]
    dl, dr = _pair(rows, cols, case["seed"], case["mask"])
    steps = [("matching_cost", P.mc("sad", 3, 1)), ("disparity", P.WTA),
             ("filter", dict(case["cfg"], filter_method=method))]
    if case["cross"]:
        steps.append(("validation", P.CROSS))
    pipe = P.name_steps(steps)
    obs = P.run_observed(dl, dr, pipe, snapshot=("disp",))
    if obs.error:
        return _run_error(obs, method, f"pandora.run {list(pipe)} on a {rows}x{cols} pair")
    prev, cur = _steps(obs, "filter")
    viol, sigs = [], []
    n = trivial = 0
    for side in ("left_disp", "right_disp"):
        if side == "right_disp" and not case["cross"]:
            continue
        if cur[side] is None or prev[side] is None:
            viol.append({"clause": "machine-binding", "key": f"C10/machine-binding/filter_run/{side}",
                         "detail": f"no {side} around the filter step of {list(pipe)}"})
            continue
        before, after = snap(prev[side]), snap(cur[side])
        ctx = f"pandora.run {list(pipe)} {side}: {method} {case['cfg']} on a {rows}x{cols} pair (mask pattern {case['mask']})"
        stats = {}
        check_filter(method, case["cfg"], before, after, viol, ctx, stats)
        n += 1
        inv = (before["vm"] & INVALID_MASK) != 0
        if inv.any() and (~inv).any() and stats.get("changed"):
            sigs.append(f"m|{side}|{method}|{sorted(case['cfg'].items())}|{_digest(after['disp'])}")
        else:
            trivial += 1
    return {"n": n, "sigs": sigs, "viol": _dedup(viol), "trivial": trivial}


RUNNERS = {"single": run_single, "tiles": run_tiles, "block": run_block, "under": run_under, "mfi": run_mfi,
           "machine": run_machine}


def run_case(case):
    return RUNNERS[case["kind"]](case)


def init_worker():
    run_case({"kind": "block", "rows": 5, "cols": 5, "method": "median", "cfg": {"filter_size": 3}, "lat": 0,
              "off": 0, "inv": 0})
