"""
Reference model of cross-based cost aggregation (C11), written from the property statement and
docs/source/userguide/step_by_step/aggregation.rst.  Plain loops, no integral images, no sentinels.

  1. masked pixels of both images are removed (NaN); each image goes through a 3x3 median filter on valid pixels
     (border pixels and masked pixels keep their value, masked pixels are ignored in the windows);
     for a sub-pixel plane the right image is the linearly interpolated one (sample x stands for x + k/subpix,
     one column fewer), a sample being masked when either of its two source pixels is;
  2. arms of a valid pixel p in a direction: number of consecutive pixels q at distance 1 .. cbca_distance-1 that are
     inside the image, not masked and with |I(p) - I(q)| < cbca_intensity, stopping at the first that fails;
     one-pixel minimum: 1 when that count is 0 but the neighbour exists and is not masked; a masked pixel has no arms;
  3. at disparity d (column c' = c + floor(d) of the plane k = frac(d) * subpix of the right image) the combined
     arm of (r, c) in each direction is min(left arm at (r, c), right arm at (r, c'));
  4. region of (r, c) = for every pixel (r', c) of the combined vertical arm (anchor included), the pixels
     (r', c - l' .. c + r') of that pixel's combined horizontal arms;
     result = sum of the non-NaN input costs of the region / number of pixels of the region,
     NaN where the input cost is NaN.
With a window offset the images are cropped to the computable area (what the cost volume covers) before step 2.
"""
from __future__ import annotations

import math

import numpy as np

from mc.ref import filters as RF

LEFT, RIGHT, UP, DOWN = 0, 1, 2, 3
DIRS = {LEFT: (0, -1), RIGHT: (0, 1), UP: (-1, 0), DOWN: (1, 0)}


def masked_image(im, msk, valid_value=0):
    v = np.array(im, dtype=np.float64)
    if msk is not None:
        v[np.asarray(msk) != valid_value] = np.nan
    return v


def shifted_right(im, msk, subpix, valid_value=0):
    """list over k = 0..subpix-1 of the masked right image sampled at x + k/subpix (linear interpolation)"""
    im = np.asarray(im, dtype=np.float64)
    bad = np.zeros(im.shape, dtype=bool) if msk is None else (np.asarray(msk) != valid_value)
    out = []
    for k in range(subpix):
        if k == 0:
            v = im.copy()
            v[bad] = np.nan
        else:
            f = k / subpix
            v = im[:, :-1] * (1 - f) + im[:, 1:] * f
            v[bad[:, :-1] | bad[:, 1:]] = np.nan
        out.append(v)
    return out


def prefilter(v):
    """3x3 median on valid pixels"""
    return RF.median_loop(v, 3)[0]


def crop(v, offset):
    return v[offset: v.shape[0] - offset, offset: v.shape[1] - offset] if offset else v


def arms(img, distance, intensity):
    ny, nx = img.shape
    out = np.zeros((ny, nx, 4), dtype=np.int64)
    for r in range(ny):
        for c in range(nx):
            if np.isnan(img[r, c]):
                continue
            for d, (dr, dc) in DIRS.items():
                n = 0
                for k in range(1, distance):
                    rr, cc = r + k * dr, c + k * dc
                    if not (0 <= rr < ny and 0 <= cc < nx):
                        break
                    if np.isnan(img[rr, cc]) or abs(img[r, c] - img[rr, cc]) >= intensity:
                        break
                    n += 1
                if n == 0:
                    rr, cc = r + dr, c + dc
                    if 0 <= rr < ny and 0 <= cc < nx and not np.isnan(img[rr, cc]):
                        n = 1
                out[r, c, d] = n
    return out


def plane_of(d, subpix):
    fl = math.floor(d)
    k = int(round((d - fl) * subpix))
    return fl, k


class Model:
    """everything the oracle needs about one (image pair, parameters) configuration"""

    def __init__(self, left, lmsk, right, rmsk, subpix, offset, distance, intensity, valid_value=0):
        self.offset = offset
        self.subpix = subpix
        self.distance = distance
        self.left_f = crop(prefilter(masked_image(left, lmsk, valid_value)), offset)
        self.right_f = [crop(prefilter(v), offset) for v in shifted_right(right, rmsk, subpix, valid_value)]
        self.arms_left = arms(self.left_f, distance, intensity)
        self.arms_right = [arms(v, distance, intensity) for v in self.right_f]

    def region(self, r, c, d):
        """list of (row, col) of the combined support region of inner pixel (r, c) at disparity d, or None when the
        corresponding column does not exist"""
        fl, k = plane_of(d, self.subpix)
        cc = c + fl
        ar = self.arms_right[k]
        if not 0 <= cc < ar.shape[1]:
            return None
        al = self.arms_left
        top = min(al[r, c, UP], ar[r, cc, UP])
        bot = min(al[r, c, DOWN], ar[r, cc, DOWN])
        pix = []
        for r2 in range(r - top, r + bot + 1):
            lft = min(al[r2, c, LEFT], ar[r2, cc, LEFT])
            rgt = min(al[r2, c, RIGHT], ar[r2, cc, RIGHT])
            for c2 in range(c - lft, c + rgt + 1):
                pix.append((r2, c2))
        return pix

    def masked_near(self, r, c, d):
        """is there a masked pixel in the neighbourhood that can shape the support of (r, c) at d"""
        rad = max(1, self.distance - 1) + 1
        fl, k = plane_of(d, self.subpix)

        def near(img, r0, c0):
            a = img[max(0, r0 - rad): r0 + rad + 1, max(0, c0 - rad): c0 + rad + 1]
            return bool(np.isnan(a).any())

        cc = c + fl
        res = near(self.left_f, r, c)
        if 0 <= cc < self.right_f[k].shape[1]:
            res = res or near(self.right_f[k], r, cc)
        return res

    def aggregate(self, costs, disps):
        """
        :param costs: (row, col, disp) input costs of the full image (float32)
        :return: expected (float32, full size), undefined (bool: no corresponding column, nothing stated)
        """
        costs = np.asarray(costs, dtype=np.float32)
        off = self.offset
        exp = costs.copy()
        undefined = np.zeros(costs.shape, dtype=bool)
        inner = crop(costs, off)
        ny, nx, _ = inner.shape
        for di, d in enumerate(disps):
            for r in range(ny):
                for c in range(nx):
                    reg = self.region(r, c, float(d))
                    if reg is None:
                        undefined[r + off, c + off, di] = True
                        continue
                    if np.isnan(inner[r, c, di]):
                        continue
                    tot = 0.0
                    for (r2, c2) in reg:
                        x = inner[r2, c2, di]
                        if not np.isnan(x):
                            tot += float(x)
                    if float(np.float32(tot)) != tot:
                        raise AssertionError("reference sum not exact in float32: choose smaller costs")  # harness
                    exp[r + off, c + off, di] = np.float32(tot) / np.float32(len(reg))
        return exp, undefined
