"""
C17 - malformed inputs are refused up front; well-formed inputs never are (DESIGN.md section 3, C17).

Part 1, `check_configuration.check_datasets(left, right)`: well-formed dataset pairs (mono/multiband, +-msk,
+-classif/segm, scalar/grid disparities, +-right disparity, five shapes) and every single and every pair of
edits from an alphabet of contract violations AND of benign edits (one NaN pixel, right disparity removed,
extra disparity band, min == max, extra attribute, ...).  Oracle: accepted <=> mc.ref.contract.dataset_pair_ok
evaluated on the very datasets handed to Pandora (both directions).

Part 2, `check_configuration.check_input_section`: three well-formed bases (interval list; left grid; both
grids) x mono/multiband images x at most two keys departing from the base, values from a library of tiny
GeoTIFF / text / missing files and of nodata / interval values.  Oracle: mc.ref.contract.section_status over the
known properties of the library files (readable, size, band count, min <= max).
"""
from __future__ import annotations

import copy
import itertools
import json
import math

import numpy as np

from mc.ref import contract as R

ID = "C17"
LEVEL = "exploration"
BUDGET = {"quick": 300, "thorough": 3600}
CHUNK = 4
RULE = (
    "datasets: one case = (base variant, shape) with every single edit (level 1) or every pair of edits (level 2) "
    "of the alphabet applied, min>max / only-non-NaN pixel positions enumerated over all pixels; sections: one case = "
    "(base, first key) with every value of it and every (second key, value); non-trivial = at least one edit; "
    "distinct = distinct (base, edits, verdict)"
)
ASSUMPTIONS = [
    "refusal = any exception raised by check_datasets / check_input_section",
    "a variable 'on the image grid' = its last two dimensions have the image's numbers of rows and columns (xarray "
    "cannot hold two variables of different sizes on the same dimension names, so off-grid variables use other names)",
    "not asserted (left open by the statement): NaN inside disparity grids, a bool as nodata or interval bound, the "
    "string 'none' as a path, a readable 2-band grid file of the right size whose min exceeds max somewhere "
    "(statement: 'a 2-band grid of the image size'), multi-band masks, zero-sized images",
    "every input-section evaluation is preceded by one check of the well-formed list-form section (fixed immediate "
    "history of the module-level schema dictionary)",
    "left/right image files of different sizes are expected to be refused by check_input_section ('likewise')",
]

SHAPES_Q = [(1, 1), (1, 4), (3, 1), (3, 4)]
SHAPES_T = [(1, 1), (1, 4), (3, 1), (3, 4), (5, 5), (2, 7)]


# ----------------------------------------------------------------------------------------------
# part 1: datasets
# ----------------------------------------------------------------------------------------------
def bases(tier):
    out = []
    for multi in (0, 1):
        for msk in (0, 1):
            for cs in (0, 1):
                for grid in (0, 1):
                    for rdisp in (0, 1):
                        out.append({"multi": multi, "msk": msk, "cs": cs, "grid": grid, "rdisp": rdisp})
    if tier == "quick":
        # 8 variants in which every feature is on in four and off in four, and every pair of features meets in
        # all four on/off combinations (orthogonal array of strength 2)
        oa = [(0, 0, 0, 0, 0), (0, 0, 1, 1, 1), (0, 1, 0, 1, 1), (0, 1, 1, 0, 0), (1, 0, 0, 1, 0), (1, 0, 1, 0, 1),
              (1, 1, 0, 0, 1), (1, 1, 1, 1, 0)]
        out = [{"multi": a, "msk": b, "cs": c, "grid": d, "rdisp": e} for a, b, c, d, e in oa]
    return out


_PAIRS = {}


def build_pair(base, shape):
    """fresh deep copies of the (cached) well-formed pair"""
    key = (json.dumps(base, sort_keys=True), tuple(shape))
    if key not in _PAIRS:
        if len(_PAIRS) > 64:
            _PAIRS.clear()
        _PAIRS[key] = _build_pair(base, shape)
    left, right = _PAIRS[key]
    return left.copy(deep=True), right.copy(deep=True)


def _build_pair(base, shape):
    from mc.drivers import datasets as D  # pylint: disable=import-outside-toplevel

    ny, nx = shape
    rr, cc = np.meshgrid(np.arange(ny), np.arange(nx), indexing="ij")

    def img(variant):
        a = ((rr * 7 + cc * 3 + variant * 5) % 23).astype(np.float32)
        if base["multi"]:
            return np.stack([a, a + 1, a + 2]), ["r", "g", "b"]
        return a, None

    def disp(sign):
        if base["grid"]:
            lo = (-2 + (rr + cc) % 2).astype(np.float32)
            hi = lo + (rr % 2) + 1
            return (lo, hi) if sign > 0 else (-hi, -lo)
        return (-2, 1) if sign > 0 else (-1, 2)

    out = []
    for variant, sign, with_disp in ((0, 1, True), (1, -1, bool(base["rdisp"]))):
        a, bands = img(variant)
        kw = {}
        if base["msk"]:
            kw["msk"] = ((rr + cc + variant) % 3 == 0).astype(np.int16)
        if base["cs"]:
            kw["classif"] = np.stack([(rr % 2), (cc % 2)]).astype(np.int16)
            kw["segm"] = ((rr + 2 * cc) % 4).astype(np.int16)
        out.append(D.image(a, disp=disp(sign) if with_disp else None, bands=bands, **kw))
    return out[0], out[1]


EDITS_SIDE = (
    ["noim", "allnan", "bandnames", "bandnames_mixed"]
    + [f"grid:{v}:{h}" for v in ("msk", "classif", "segm", "disparity") for h in ("rows", "cols")]
    + [f"attr:{a}" for a in R.MANDATORY_ATTRS]
    + ["nodisp", "nobanddisp", "nomin", "nomax", "minmax"]
    # benign edits: the pair must stay accepted
    + ["onenan", "extraband", "mineqmax", "extraattr", "nanband", "int_image", "attr_none", "bandnames_object"]
)
EDITS_PAIR = ["size:rows", "size:cols", "size:both", "size:bands"]


def all_edits():
    return [f"{s}/{e}" for s in ("left", "right") for e in EDITS_SIDE] + [f"right/{e}" for e in EDITS_PAIR]


class NotApplicable(Exception):
    pass


def _off_grid(ds, var, how):
    import xarray as xr  # pylint: disable=import-outside-toplevel

    if var not in ds.data_vars:
        raise NotApplicable
    a = ds[var].values
    pad = [(0, 0)] * (a.ndim - 2) + ([(0, 1), (0, 0)] if how == "rows" else [(0, 0), (0, 1)])
    b = np.pad(a, pad, mode="edge")
    dims = list(ds[var].dims[:-2]) + [f"row_{var}", f"col_{var}"]
    ds = ds.drop_vars(var)
    ds[var] = xr.DataArray(b, dims=dims)
    return ds


def _rebuild_image(ds, im, bands):
    """same dataset with another `im` (other size / dtype): every other variable is dropped and re-added if it fits"""
    import xarray as xr  # pylint: disable=import-outside-toplevel

    ny, nx = im.shape[-2:]
    coords = {"row": np.arange(ny), "col": np.arange(nx)}
    if im.ndim == 3:
        coords["band_im"] = bands
    new = xr.Dataset({"im": (["band_im", "row", "col"] if im.ndim == 3 else ["row", "col"], im)}, coords=coords,
                     attrs=copy.deepcopy(ds.attrs))
    for name in ds.data_vars:
        if name == "im":
            continue
        a = ds[name].values
        # resize the companion variables with the image so that only the left/right size differs
        if a.shape[-2:] != (ny, nx):
            idx_r = np.arange(ny) % a.shape[-2]
            idx_c = np.arange(nx) % a.shape[-1]
            a = a[..., idx_r, :][..., idx_c]
        for c in ds[name].dims[:-2]:
            if c in ds.coords and c not in new.coords:
                new.coords[c] = ds.coords[c].values
        new[name] = xr.DataArray(a, dims=list(ds[name].dims[:-2]) + ["row", "col"])
    return new


def apply_edit(ds, edit, pos):
    """-> edited dataset (fresh objects); NotApplicable when the base lacks what the edit needs"""
    import xarray as xr  # pylint: disable=import-outside-toplevel

    ds = ds.copy(deep=True)
    ds.attrs = copy.deepcopy(ds.attrs)
    has_im = "im" in ds.data_vars
    if edit == "noim":
        if not has_im:
            raise NotApplicable
        return ds.drop_vars("im")
    if edit in ("allnan", "onenan", "nanband", "int_image", "bandnames", "bandnames_mixed",
                "bandnames_object") and not has_im:
        raise NotApplicable
    if edit == "allnan":
        ds["im"].values[...] = np.nan
        return ds
    if edit == "onenan":
        # every pixel NaN except the one at `pos` (single-band) / the image keeps one finite sample
        a = ds["im"].values
        keep = a[..., pos[0], pos[1]].copy()
        a[...] = np.nan
        a[..., pos[0], pos[1]] = keep
        return ds
    if edit == "nanband":
        if ds["im"].ndim != 3:
            raise NotApplicable
        ds["im"].values[0] = np.nan
        return ds
    if edit == "int_image":
        return _rebuild_image(ds, ds["im"].values.astype(np.int32), list(ds.coords["band_im"].values)
                              if "band_im" in ds.coords else None)
    if edit == "bandnames_object":
        # the same str names held in an object-typed coordinate (a pandas Index, a list given with dtype=object)
        if "band_im" not in ds.coords:
            raise NotApplicable
        return ds.assign_coords(band_im=np.array([str(b) for b in ds.coords["band_im"].values], dtype=object))
    if edit in ("bandnames", "bandnames_mixed"):
        if "band_im" not in ds.coords:
            raise NotApplicable
        n = ds.sizes["band_im"]
        names = list(range(n)) if edit == "bandnames" else np.array(["r"] + list(range(1, n)), dtype=object)
        return ds.assign_coords(band_im=names)
    if edit.startswith("grid:"):
        _, var, how = edit.split(":")
        return _off_grid(ds, var, how)
    if edit.startswith("attr:"):
        a = edit.split(":")[1]
        if a not in ds.attrs:
            raise NotApplicable
        del ds.attrs[a]
        return ds
    if edit == "attr_none":
        for a in R.MANDATORY_ATTRS:
            ds.attrs[a] = None
        return ds
    if edit == "extraattr":
        ds.attrs["something_else"] = 3
        return ds
    if edit.startswith("size:"):
        how = edit.split(":")[1]
        if not has_im:
            raise NotApplicable
        im = ds["im"].values
        bands = list(ds.coords["band_im"].values) if "band_im" in ds.coords else None
        if how == "bands":
            # same rows/cols, other number of bands: still the same size
            if im.ndim == 3:
                return _rebuild_image(ds, im[0], None)
            return _rebuild_image(ds, np.stack([im, im + 1]), ["r", "g"])
        pad = [(0, 0)] * (im.ndim - 2) + [(0, 1 if how in ("rows", "both") else 0),
                                          (0, 1 if how in ("cols", "both") else 0)]
        return _rebuild_image(ds, np.pad(im, pad, mode="edge"), bands)
    # the remaining edits need a disparity variable
    if "disparity" not in ds.data_vars:
        raise NotApplicable
    if edit == "nodisp":
        return ds.drop_vars("disparity")
    d = ds["disparity"]
    if edit == "nobanddisp":
        vals = d.values
        dims = d.dims
        ds = ds.drop_vars("disparity")
        if "band_disp" in ds.coords:
            ds = ds.drop_vars("band_disp")
        ds["disparity"] = xr.DataArray(vals, dims=dims)
        return ds
    if "band_disp" not in d.coords:
        raise NotApplicable
    names = [str(b) for b in d.coords["band_disp"].values]
    if edit in ("nomin", "nomax"):
        tgt = "min" if edit == "nomin" else "max"
        if tgt not in names:
            raise NotApplicable
        return ds.assign_coords(band_disp=[("other" if b == tgt else b) for b in names])
    if edit == "extraband":
        vals = d.values
        dims = d.dims
        ds = ds.drop_vars(["disparity", "band_disp"])
        ds.coords["band_disp"] = names + ["extra"]
        ds["disparity"] = xr.DataArray(np.concatenate([vals, vals[:1] - 50]), dims=dims)
        return ds
    if "min" not in names or "max" not in names:
        raise NotApplicable
    imin, imax = names.index("min"), names.index("max")
    if pos[0] >= d.shape[-2] or pos[1] >= d.shape[-1]:
        raise NotApplicable
    vals = d.values.astype(np.float32) if edit == "minmax" else d.values.copy()
    if edit == "minmax":
        vals[imin, pos[0], pos[1]] = vals[imax, pos[0], pos[1]] + 1
    elif edit == "mineqmax":
        vals[imin] = vals[imax]
    else:
        raise ValueError(edit)
    dims = d.dims
    ds = ds.drop_vars("disparity")
    ds["disparity"] = xr.DataArray(vals, dims=dims)
    return ds


POSITIONAL = ("minmax", "onenan")


def _evaluate(base, shape, edits, pos, viol, sigs):
    """apply `edits` (side/edit strings) in order, call the real check, compare with the reference predicate"""
    from pandora import check_configuration as cc  # pylint: disable=import-outside-toplevel

    left, right = build_pair(base, shape)
    try:
        for e in edits:
            side, name = e.split("/", 1)
            if side == "left":
                left = apply_edit(left, name, pos)
            else:
                right = apply_edit(right, name, pos)
    except NotApplicable:
        return 0
    reasons = R.dataset_pair_reasons(left, right)
    want = not reasons
    if not edits and not want:
        raise AssertionError(f"harness: base {base} {shape} is not well-formed: {reasons}")
    try:
        cc.check_datasets(left, right)
        got, exc = True, ""
    except Exception as e:  # pylint: disable=broad-except
        got, exc = False, type(e).__name__
    desc = f"base={json.dumps(base)} shape={list(shape)} edits={edits} pos={list(pos)}"
    if edits:
        sigs.append(f"ds|{json.dumps(base)}|{list(shape)}|{edits}|{list(pos) if _positional(edits) else ''}|{got}")
    if got != want:
        names = sorted({e.split("/", 1)[1].split(":")[0] + (":" + e.split(":")[1] if e.count(":") else "")
                        for e in edits}) or ["base"]
        sides = sorted({e.split("/")[0] for e in edits})
        if want and len(edits) == 2:
            # attribute a refused benign pair to the edit that is refused on its own, if there is one
            alone = []
            for e in edits:
                _evaluate(base, shape, [e], pos, alone, [])
            alone = [v for v in alone if v["clause"] == "refuses-well-formed"]
            if alone:
                viol.extend(alone)
                return 1
        if want:
            viol.append({"clause": "refuses-well-formed",
                         "key": f"C17/refuses-well-formed/check_datasets/{'+'.join(names)}@{'+'.join(sides) or '-'}",
                         "detail": f"refused ({exc}) although the pair satisfies every clause of the contract; {desc}"})
        else:
            viol.append({"clause": "accepts-malformed",
                         "key": f"C17/accepts-malformed/check_datasets/{_reason_class(reasons)}",
                         "detail": f"accepted although: {reasons}; {desc}"})
    return 1


def _positional(edits):
    return any(e.split("/", 1)[1] in POSITIONAL for e in edits)


def _reason_class(reasons):
    r = sorted({x.split(": ", 1)[-1] if ": " in x else x for x in reasons})
    r = [("variable off the image grid" if x.startswith("variable ") else x) for x in r]
    return "+".join(sorted(set(r)))


def _positions(shape, edits):
    if _positional(edits):
        return [(r, c) for r in range(shape[0]) for c in range(shape[1])]
    return [(0, 0)]


def _run_ds(case, viol, sigs):
    base, shape = case["base"], tuple(case["shape"])
    n = 0
    edits = all_edits()
    if case["level"] == 0:
        n += _evaluate(base, shape, [], (0, 0), viol, sigs)
        return n, n
    if case["level"] == 1:
        for e in edits:
            for pos in _positions(shape, [e]):
                n += _evaluate(base, shape, [e], pos, viol, sigs)
        return n, 0
    for e1, e2 in itertools.combinations(edits, 2):
        poss = _positions(shape, [e1, e2])
        if len(poss) > 1:
            poss = [poss[0], poss[-1]]
        for pos in poss:
            n += _evaluate(base, shape, [e1, e2], pos, viol, sigs)
    return n, 0


# ----------------------------------------------------------------------------------------------
# part 2: input sections
# ----------------------------------------------------------------------------------------------
OMIT = "$omit"
NAN = {"$": "nan"}
SIZE, OTHER = (6, 8), (7, 10)


def lib_props():
    ny, nx = SIZE
    p = {}

    def ras(size, count, minmax=True):
        return {"readable": True, "size": size, "count": count, "minmax": minmax}

    for role in ("img_l", "img_r"):
        p[role] = ras(SIZE, 1)
    for role in ("mb_l", "mb_r"):
        p[role] = ras(SIZE, 3)
    p["img_other"] = ras(OTHER, 1)
    p["img_rows"] = ras((ny + 1, nx), 1)
    p["img_cols"] = ras((ny, nx + 1), 1)
    p["mask"] = ras(SIZE, 1)
    p["mask_other"] = ras(OTHER, 1)
    p["classif"] = ras(SIZE, 2)
    p["classif_other"] = ras(OTHER, 2)
    p["segm"] = ras(SIZE, 1)
    p["segm_other"] = ras(OTHER, 1)
    p["grid2"] = ras(SIZE, 2)
    p["grid2_r"] = ras(SIZE, 2)
    p["grid_eq"] = ras(SIZE, 2)
    p["grid1"] = ras(SIZE, 1)
    p["grid3"] = ras(SIZE, 3)
    p["grid_other"] = ras(OTHER, 2)
    p["grid_minmax"] = ras(SIZE, 2, minmax=False)
    p["grid_u8"] = ras(SIZE, 2)
    p["grid_u8_minmax"] = ras(SIZE, 2, minmax=False)
    p["grid_i16_wide"] = ras(SIZE, 2)
    p["text"] = {"readable": False, "size": None, "count": 0, "minmax": True}
    p["missing"] = {"readable": False, "size": None, "count": 0, "minmax": True}
    return p


KEYS = [("left", "img"), ("right", "img"), ("left", "nodata"), ("right", "nodata"), ("left", "mask"),
        ("right", "mask"), ("left", "classif"), ("right", "classif"), ("left", "segm"), ("right", "segm"),
        ("left", "disp"), ("right", "disp")]

NODATA_VALUES = [OMIT, -9999, 0, 255, NAN, "NaN", 2.5, "x", None, [0], True]
VALUES = {
    "img": ["img_other", "img_rows", "img_cols", "missing", "text", 3, None, OMIT, "$swap"],
    "nodata": NODATA_VALUES,
    "mask": [OMIT, None, "mask", "mask_other", "missing", "text", 3],
    "classif": [OMIT, None, "classif", "classif_other", "missing", 3],
    "segm": [OMIT, None, "segm", "segm_other", "text", 3],
    "left.disp": [[-2, 2], [0, 0], [-3, -3], [2, -2], [1, 0], [1], [1, 2, 3], [], [-2.0, 2.0], [-2, 2.5], ["a", "b"],
                  [None, None], "grid2", "grid_eq", "grid1", "grid3", "grid_other", "grid_minmax", "missing", "text",
                  OMIT, None, 3, [True, True], "grid_u8", "grid_u8_minmax", "grid_i16_wide"],
    "right.disp": [OMIT, None, "grid2_r", "grid_eq", "grid1", "grid3", "grid_other", "grid_minmax", "missing", "text",
                   [-2, 2], 3, "grid_u8", "grid_u8_minmax", "grid_i16_wide"],
}


def key_values(side, key):
    if key == "disp":
        return VALUES[f"{side}.disp"]
    return VALUES[key]


def section_base(form, img):
    left = {"img": "img_l" if img == "mono" else "mb_l"}
    right = {"img": "img_r" if img == "mono" else "mb_r"}
    if form == "list":
        left["disp"] = [-2, 2]
    else:
        left["disp"] = "grid2"
        if form == "grids":
            right["disp"] = "grid2_r"
    return {"left": left, "right": right}


def set_key(section, side, key, value):
    sec = copy.deepcopy(section)
    if value == OMIT:
        sec[side].pop(key, None)
    elif value == "$swap":
        other = "right" if side == "left" else "left"
        sec[side][key] = section[other][key]
    else:
        sec[side][key] = value
    return sec


def materialise(section, lib):
    """role names -> scratch paths, NaN marker -> float"""
    out = {}
    for side, sec in section.items():
        out[side] = {}
        for k, v in sec.items():
            if isinstance(v, str) and v in lib:
                v = lib[v]
            elif v == NAN:
                v = math.nan
            else:
                v = copy.deepcopy(v)
            out[side][k] = v
    return out


def _ref_section(section):
    """decode the NaN marker for the reference"""
    out = {}
    for side, sec in section.items():
        out[side] = {k: (math.nan if v == NAN else v) for k, v in sec.items()}
    return out


_PROPS = None


def _eval_section(section, devs, lib, viol, sigs, base=None):
    from pandora import check_configuration as cc  # pylint: disable=import-outside-toplevel

    global _PROPS  # pylint: disable=global-statement
    if _PROPS is None:
        _PROPS = lib_props()
    want, reasons = R.section_status(_ref_section(section), _PROPS)
    user = {"input": materialise(section, lib)}
    try:
        # canonical immediate history (the input schema is a module-level dict that every call rewrites): a verdict
        # that wrongly depends on the previous call is then the same in a worker and on re-execution in the parent
        cc.check_input_section({"input": materialise(section_base("list", "mono"), lib)})
    except Exception:  # pylint: disable=broad-except
        pass
    try:
        cc.check_input_section(user)
        got, exc = "A", ""
    except Exception as e:  # pylint: disable=broad-except
        got, exc = "R", type(e).__name__
    shown = json.dumps(section)
    if devs:
        sigs.append(f"sec|{shown}|{got}")
    if want != "?" and got != want:
        if want == "A" and base is not None and len(devs) == 2:
            alone = []
            for s_, k_, v_ in devs:
                _eval_section(set_key(base, s_, k_, v_), [(s_, k_, v_)], lib, alone, [])
            alone = [v for v in alone if v["clause"] == "refuses-well-formed"]
            if alone:
                viol.extend(alone)
                return 1
        if want == "A":
            cls = "+".join(f"{s}.{k}={_vclass(v)}" for s, k, v in devs) or "base"
            viol.append({"clause": "refuses-well-formed",
                         "key": f"C17/refuses-well-formed/check_input_section/{cls}",
                         "detail": f"refused ({exc}) although the section has a documented form; section (file roles)="
                                   f"{shown}"})
        else:
            cls = "+".join(sorted(set(reasons)))
            viol.append({"clause": "accepts-malformed",
                         "key": f"C17/accepts-malformed/check_input_section/{cls}",
                         "detail": f"accepted although: {reasons}; section (file roles)={shown}"})
    return 1


def _vclass(v):
    return v if isinstance(v, str) else json.dumps(v)


def _run_sec(case, viol, sigs):
    from mc.drivers import files as F  # pylint: disable=import-outside-toplevel

    lib = F.library(*SIZE)
    base = section_base(case["form"], case["img"])
    n = 0
    if case["level"] == 0:
        n += _eval_section(base, [], lib, viol, sigs)
        return n, n
    s1, k1 = KEYS[case["k1"]]
    for v1 in key_values(s1, k1):
        sec1 = set_key(base, s1, k1, v1)
        if case["level"] == 1:
            n += _eval_section(sec1, [(s1, k1, v1)], lib, viol, sigs)
            continue
        for i2 in range(case["k1"] + 1, len(KEYS)):
            s2, k2 = KEYS[i2]
            for v2 in key_values(s2, k2):
                if v2 == "$swap":
                    continue
                sec2 = set_key(sec1, s2, k2, v2)
                n += _eval_section(sec2, [(s1, k1, v1), (s2, k2, v2)], lib, viol, sigs, base=base)
    return n, 0


# ----------------------------------------------------------------------------------------------
def spaces(tier, seed):
    shapes = SHAPES_Q if tier == "quick" else SHAPES_T
    bs = bases(tier)
    bs = bs[seed % len(bs):] + bs[:seed % len(bs)]  # the seed only rotates the order
    ds = {lvl: [{"sp": "ds", "level": lvl, "base": b, "shape": list(s)} for b in bs for s in shapes]
          for lvl in (0, 1, 2)}
    forms = [(f, i) for f in ("list", "lgrid", "grids") for i in ("mono", "rgb")]
    sec = {0: [{"sp": "sec", "level": 0, "form": f, "img": i} for f, i in forms]}
    for lvl in (1, 2):
        sec[lvl] = [{"sp": "sec", "level": lvl, "form": f, "img": i, "k1": k} for f, i in forms
                    for k in range(len(KEYS))]
    if tier == "quick":
        sec[2] = [c for c in sec[2] if c["img"] == ("mono" if c["form"] != "grids" else "rgb")]
        ds[2] = [c for c in ds[2] if c["shape"] in ([3, 4], [1, 4])]  # pairs of edits: two of the four shapes
    return [
        {"name": "well-formed dataset pairs", "level": 0, "cases": ds[0], "chunk": 8},
        {"name": "well-formed input sections", "level": 0, "cases": sec[0], "chunk": 2},
        {"name": "dataset pairs, one edit (violations and benign edits, all pixel positions)", "level": 1,
         "cases": ds[1], "chunk": 2},
        {"name": "input sections, one key off the base", "level": 1, "cases": sec[1], "chunk": 2},
        {"name": "dataset pairs, every pair of edits", "level": 2, "cases": ds[2], "chunk": 1},
        {"name": "input sections, two keys off the base", "level": 2, "cases": sec[2], "chunk": 1},
    ]


def run_case(case):
    viol, sigs = [], []
    n, trivial = (_run_ds if case["sp"] == "ds" else _run_sec)(case, viol, sigs)
    seen, out = set(), []
    for v in viol:
        if v["key"] not in seen:
            seen.add(v["key"])
            out.append(v)
    return {"n": n, "sigs": sigs, "viol": out[:40], "trivial": trivial}


def init_worker():
    run_case({"sp": "ds", "level": 0, "base": bases("quick")[0], "shape": [1, 1]})
