"""
Small deterministic stereo scenes for the whole-run differential properties C08 (mirror) and C13 (framing):
integer-valued radiometry, optional masks, bands, disparity grids as plain numpy arrays, and their conversion to
the datasets `pandora.run` takes - whole, cropped (coordinates restarted or kept, as a ROI read produces),
vertically flipped, or with the two views exchanged.

Everything is a pure function of small JSON-able parameters; `seed` only picks another table.
"""
from __future__ import annotations

import numpy as np

from mc.drivers import datasets as D

MASK_VARIANTS = ("none", "L", "R", "LR")


def _rng(*ints):
    h = 1469598103
    for i in ints:
        h = (h * 1000003 + int(i) + 77) % (2**31 - 1)
    return np.random.RandomState(h)


def radiometry(ny, nx, seed=0, hi=15, bands=1):
    """
    left: integers in [0, hi]; right: the left view displaced by a row-band dependent shift in {1, 0, 2, -1}
    with one sample in seven perturbed, so that interval ends, ties, mismatches and occlusions all occur.
    Returns float32 arrays (ny, nx) or (bands, ny, nx).
    """
    rng = _rng(1, seed, hi)
    pad = 3
    outl, outr = [], []
    shifts = (1, 0, 2, -1)
    band_h = max(1, ny // 4)
    for _ in range(bands):
        ext = rng.randint(0, hi + 1, size=(ny, nx + 2 * pad))
        left = ext[:, pad: pad + nx].copy()
        right = np.empty_like(left)
        for r in range(ny):
            s = shifts[(r // band_h) % 4]
            # left x matches right x + s   <=>   right(x) = left(x - s)
            right[r] = ext[r, pad - s: pad - s + nx]
        k = max(1, (ny * nx) // 7)
        idx = rng.choice(ny * nx, size=k, replace=False)
        flat = right.reshape(-1)
        flat[idx] = np.clip(flat[idx] + rng.randint(-3, 4, size=k), 0, hi)
        outl.append(left.astype(np.float32))
        outr.append(right.astype(np.float32))
    if bands == 1:
        return outl[0], outr[0]
    return np.stack(outl), np.stack(outr)


def masks(ny, nx, variant="none", seed=0):
    """
    (msk_left | None, msk_right | None), dataset convention 0 valid / 1 no-data / other invalid.  A handful of
    masked samples in the central part of the frame (deviation level 1); no-data and invalid both present.
    """
    if variant == "none":
        return None, None
    rng = _rng(2, seed, MASK_VARIANTS.index(variant))

    def one():
        m = np.zeros((ny, nx), dtype=np.int16)
        r_lo, r_hi = ny // 4, max(ny // 4 + 1, ny - ny // 4)
        c_lo, c_hi = nx // 4, max(nx // 4 + 1, nx - nx // 4)
        for val in (D.NODATA, D.INVALID, D.INVALID, 5):
            m[rng.randint(r_lo, r_hi), rng.randint(c_lo, c_hi)] = val
        return m

    ml = one() if "L" in variant else None
    mr = one() if "R" in variant else None
    return ml, mr


def grids(ny, nx, a, b, seed=0):
    """per-pixel integer (min, max) grids inside [a, b], min <= max, the extremes a and b both reached"""
    rng = _rng(3, seed, a + 50, b + 50)
    span = b - a
    lo = a + rng.randint(0, span // 2 + 1, size=(ny, nx))
    hi = b - rng.randint(0, span - span // 2 + 1, size=(ny, nx))
    hi = np.maximum(hi, lo)
    lo[0, 0], hi[0, 0] = a, b
    return lo.astype(np.float32), hi.astype(np.float32)


def arrays(ny, nx, seed=0, hi=15, bands=1, mask="none"):
    left, right = radiometry(ny, nx, seed, hi, bands)
    ml, mr = masks(ny, nx, mask, seed)
    return {"L": left, "R": right, "mL": ml, "mR": mr, "bands": bands}


def _win(a, window, flip):
    if a is None:
        return None
    if window is not None:
        r0, c0, h, w = window
        a = a[..., r0: r0 + h, c0: c0 + w]
    if flip:
        a = a[..., ::-1, :]
    return np.ascontiguousarray(a)


def datasets(arr, disp, rdisp="none", window=None, keep_coords=False, flip=False, swap=False, gridseed=0,
             layout="C"):
    """
    :param arr: result of `arrays`
    :param disp: [a, b] scalar interval, or {"grid": [a, b]} for per-pixel grids (then right grids inside
        [-b, -a] are supplied too)
    :param rdisp: "none" (the view in the right role carries no disparity: the library derives [-b, -a]) or
        "explicit" (it carries the negated, swapped interval, as `pandora.main` builds it); ignored for grids
    :param window: None or (r0, c0, h, w): crop of both views (and masks, grids)
    :param keep_coords: row/col coordinates of the crop start at (r0, c0) instead of 0
    :param flip: flip everything vertically
    :param swap: exchange the two views: the right image - with its mask and its disparities, i.e. the negated
        and swapped interval - becomes the left one and vice versa.  The images are NOT flipped left-right.
    :param layout: memory layout of the image and mask arrays handed over ("C", "F", "tile", "strided": see
        datasets.relayout) - the same values, as a caller who cuts tiles out of a large array without copying,
        or holds column-major arrays, would pass them
    :return: (left dataset, right dataset) for `pandora.run`
    """
    ny, nx = arr["L"].shape[-2:]
    origin = (window[0], window[1]) if (window is not None and keep_coords) else (0, 0)
    bands = ["r", "g"][: arr["bands"]] if arr["bands"] > 1 else None  # one-letter names: the band check iterates a str
    if isinstance(disp, dict):
        a, b = disp["grid"]
        gl = grids(ny, nx, a, b, gridseed)
        gr = grids(ny, nx, -b, -a, gridseed + 1)
        dl = (_win(gl[0], window, flip), _win(gl[1], window, flip))
        dr = (_win(gr[0], window, flip), _win(gr[1], window, flip))
    else:
        a, b = disp
        dl = (int(a), int(b))
        dr = (-int(b), -int(a))
        if rdisp == "none":
            if swap:
                dl = None
            else:
                dr = None
    left = D.image(_win(arr["L"], window, flip), disp=dl, msk=_win(arr["mL"], window, flip), bands=bands,
                   origin=origin)
    right = D.image(_win(arr["R"], window, flip), disp=dr, msk=_win(arr["mR"], window, flip), bands=bands,
                    origin=origin)
    D.relayout_dataset(left, layout)
    D.relayout_dataset(right, layout)
    if swap:
        return right, left
    return left, right
