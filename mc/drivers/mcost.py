"""
Driver shared by C02 and C09: builds a stereo pair from a small JSON spec and computes the cost volume with the
real classes, in exactly the order PandoraMachine.matching_cost_prepare / matching_cost_run use:

    AbstractMatchingCost(**cfg) -> allocate_cost_volume -> criteria.validity_mask -> compute_cost_volume -> cv_masked

spec (all keys optional but ny/nx):
    ny, nx          image size
    seed            generic radiometry table id            (or "tab": {"l": [[..]], "r": [[..]]} explicit samples)
    bands           1 | 2        band: selected band name ("r" | "g") when bands == 2
    rswap           right image stores its bands in the opposite order (names follow)
    dmin, dmax      scalar interval
    form            "scalar" (int grids as add_disparity builds them for [min, max]) | "grid" (float32 grids)
    grid            [[r, c, min, max], ...] per-pixel deviations from the constant grid (forces form "grid")
    lm, rm          [[r, c, value], ...] mask cells (1 = nodata, 2 = invalid, dataset convention of the driver)
    lmsk, rmsk      force a msk variable even without deviating cells
    origin          [row0, col0] first row / col coordinate
"""
from __future__ import annotations

import numpy as np

from mc.drivers import datasets as D

HI = 99  # radiometry range 0..HI keeps ssd window sums of quarter-pixel samples exact in float32


def arrays(spec):
    """-> dict(L=(nb,ny,nx), R=(nb,ny,nx), lnames, rnames) integer-valued float32 samples"""
    ny, nx = spec["ny"], spec["nx"]
    nb = spec.get("bands", 1)
    if "tab" in spec:
        left = np.asarray(spec["tab"]["l"], dtype=np.float32).reshape(1, ny, nx)
        right = np.asarray(spec["tab"]["r"], dtype=np.float32).reshape(1, ny, nx)
        if nb == 2:  # second band: a generic image, so that a wrong band is visible
            left = np.concatenate([left, D.generic_image(ny, nx, 5, 0, 0, HI)[None]])
            right = np.concatenate([right, D.generic_image(ny, nx, 6, 0, 0, HI)[None]])
    else:
        seed = spec.get("seed", 0)
        # band 1 gets a smaller dynamic range than band 0: a cmax or cost taken from the wrong band differs
        left = np.stack([D.generic_image(ny, nx, 2 * b, seed, 0, HI if b == 0 else 70) for b in range(nb)])
        right = np.stack([D.generic_image(ny, nx, 2 * b + 1, seed, 0, HI if b == 0 else 70) for b in range(nb)])
    if spec.get("gain"):
        # high radiometry (e.g. 12-bit sensors): the same integer samples scaled and shifted
        left = (left * np.float32(spec["gain"]) + np.float32(spec.get("offset", 0))).astype(np.float32)
        right = (right * np.float32(spec["gain"]) + np.float32(spec.get("offset", 0))).astype(np.float32)
    lnames = ["r", "g"][:nb]  # one-letter names: the machine's band check iterates over the characters of the name
    rnames = list(lnames)
    if nb == 2 and spec.get("rswap"):
        right = right[::-1].copy()
        rnames = rnames[::-1]
    return {"L": left, "R": right, "lnames": lnames, "rnames": rnames}


def mask_of(ny, nx, cells, force=False):
    if not cells and not force:
        return None
    m = np.zeros((ny, nx), dtype=np.int16)
    for r, c, v in cells or []:
        m[r, c] = v
    return m


def grids(spec):
    """-> (gmin, gmax) integer-valued (ny, nx) arrays; dtype as the dataset stores them"""
    ny, nx = spec["ny"], spec["nx"]
    cells = spec.get("grid")
    form = "grid" if cells else spec.get("form", "scalar")
    if form == "scalar":
        return np.full((ny, nx), spec["dmin"]), np.full((ny, nx), spec["dmax"]), "scalar"
    gmin = np.full((ny, nx), spec["dmin"], dtype=np.float32)
    gmax = np.full((ny, nx), spec["dmax"], dtype=np.float32)
    for r, c, mn, mx in cells or []:
        gmin[r, c] = mn
        gmax[r, c] = mx
    return gmin, gmax, "grid"


def build(spec, right_disp=False):
    """-> left dataset, right dataset, info dict for the reference model"""
    ny, nx = spec["ny"], spec["nx"]
    a = arrays(spec)
    nb = spec.get("bands", 1)
    lmsk = mask_of(ny, nx, spec.get("lm"), spec.get("lmsk", False))
    rmsk = mask_of(ny, nx, spec.get("rm"), spec.get("rmsk", False))
    gmin, gmax, form = grids(spec)
    origin = tuple(spec.get("origin", (0, 0)))
    disp = (spec["dmin"], spec["dmax"]) if form == "scalar" else (gmin, gmax)
    if nb == 1:
        left = D.image(a["L"][0], disp=disp, msk=lmsk, origin=origin)
        rdisp = None
        if right_disp:
            rdisp = (-spec["dmax"], -spec["dmin"]) if form == "scalar" else right_disp
        right = D.image(a["R"][0], disp=rdisp, msk=rmsk, origin=origin)
    else:
        left = D.image(a["L"], disp=disp, msk=lmsk, bands=a["lnames"], origin=origin)
        right = D.image(a["R"], disp=None, msk=rmsk, bands=a["rnames"], origin=origin)
    band = spec.get("band") if nb == 2 else None
    li = a["lnames"].index(band) if band else 0
    ri = a["rnames"].index(band) if band else 0
    info = {"L": a["L"][li], "R": a["R"][ri], "lmsk": lmsk, "rmsk": rmsk, "gmin": np.asarray(gmin, dtype=np.float64),
            "gmax": np.asarray(gmax, dtype=np.float64), "band": band}
    return left, right, info


def mc_cfg(measure, window, subpix, band=None):
    cfg = {"matching_cost_method": measure, "window_size": window, "subpix": subpix}
    if band is not None:
        cfg["band"] = band
    return cfg


def class_api(left, right, cfg, prepare_only=False):
    """the machine's matching_cost_prepare + matching_cost_run on the classes; returns (cv dataset, stage reached)"""
    from pandora import matching_cost  # pylint: disable=import-outside-toplevel
    from pandora.criteria import validity_mask  # pylint: disable=import-outside-toplevel

    gmin = left["disparity"].sel(band_disp="min").data
    gmax = left["disparity"].sel(band_disp="max").data
    mc_ = matching_cost.AbstractMatchingCost(**dict(cfg))
    cv = mc_.allocate_cost_volume(left, (gmin, gmax), {"pipeline": {"matching_cost": dict(cfg)}})
    cv = validity_mask(left, right, cv)
    if prepare_only:
        return cv
    cv = mc_.compute_cost_volume(left, right, cv)
    mc_.cv_masked(left, right, cv, gmin, gmax)
    return cv


def class_api_staged(left, right, cfg):
    """like class_api but reports the stage that raised: -> (cv or None, None or (stage, exception))"""
    from pandora import matching_cost  # pylint: disable=import-outside-toplevel
    from pandora.criteria import validity_mask  # pylint: disable=import-outside-toplevel

    gmin = left["disparity"].sel(band_disp="min").data
    gmax = left["disparity"].sel(band_disp="max").data
    stage = "constructor"
    cv = None
    try:
        mc_ = matching_cost.AbstractMatchingCost(**dict(cfg))
        stage = "allocate_cost_volume"
        cv = mc_.allocate_cost_volume(left, (gmin, gmax), {"pipeline": {"matching_cost": dict(cfg)}})
        stage = "validity_mask"
        cv = validity_mask(left, right, cv)
        stage = "compute_cost_volume"
        cv = mc_.compute_cost_volume(left, right, cv)
        stage = "cv_masked"
        mc_.cv_masked(left, right, cv, gmin, gmax)
    except Exception as e:  # pylint: disable=broad-except
        return None, (stage, e)
    return cv, None
