"""
Reference model of the margins a checked pipeline reports (C20), written from the property statement:

  cumulative      matching_cost      half the matching window  ( (w - 1) // 2 )
                  optimization       40
                  aggregation, disparity, refinement   0
  non-cumulative  filter median / median_for_intervals   filter_size x step
                  filter bilateral                       min(rows, cols, int(3 * sigma_space + 1)) x step
  no entry        cost_volume_confidence, semantic_segmentation, validation, multiscale
  global          per side, max( sum of the cumulative ones, each non-cumulative one )

`step` is the matching-cost step of the pipeline (1 unless pandora2d is loaded).  Entries are keyed by the step's
name in the pipeline.  All four sides carry the same value.
"""
from __future__ import annotations

SIDES = ("left", "up", "right", "down")

DEFAULTS = {"window_size": 5, "filter_size": 3, "sigma_space": 6.0, "step": 1}


def _uniform(v):
    return {s: int(v) for s in SIDES}


def expected(steps, shape):
    """
    :param steps: [(name, cfg), ...] user pipeline (parameters may be omitted: documented defaults apply)
    :param shape: (rows, cols) of the image
    :return: dict with the layout of GlobalMargins.to_dict()
    """
    rows, cols = shape
    cumulative, non_cumulative = {}, {}
    step = 1
    for name, cfg in steps:
        kind = name.split(".")[0]
        if kind == "matching_cost":
            w = cfg.get("window_size", DEFAULTS["window_size"])
            step = cfg.get("step", DEFAULTS["step"])
            cumulative[name] = _uniform((w - 1) // 2)
        elif kind == "optimization":
            cumulative[name] = _uniform(40)
        elif kind in ("aggregation", "disparity", "refinement"):
            cumulative[name] = _uniform(0)
        elif kind == "filter":
            method = cfg["filter_method"]
            if method in ("median", "median_for_intervals"):
                non_cumulative[name] = _uniform(cfg.get("filter_size", DEFAULTS["filter_size"]) * step)
            elif method == "bilateral":
                sigma = cfg.get("sigma_space", DEFAULTS["sigma_space"])
                non_cumulative[name] = _uniform(min(rows, cols, int(3 * sigma + 1)) * step)
            else:
                raise ValueError(f"no documented margin for filter {method}")
        elif kind in ("cost_volume_confidence", "semantic_segmentation", "validation", "multiscale"):
            pass
        else:
            raise ValueError(kind)
    glob = {}
    for s in SIDES:
        total = sum(m[s] for m in cumulative.values())
        glob[s] = max([total] + [m[s] for m in non_cumulative.values()])
    return {"cumulative margins": cumulative, "non-cumulative margins": non_cumulative, "global margins": glob}


def leq(a, b):
    """global margins a <= b on every side"""
    return all(a[s] <= b[s] for s in SIDES)
