"""
C01 - accepted pipelines are exactly the documented automaton and run as written (DESIGN.md section 3, C01).

Engines: E3 (TLA+ model checked by TLC; *every* maximal behaviour of the model is replayed against the
implementation) + E2 (explicit enumeration of step-name sequences and of check/run histories on the real
machine, compared with an independent Python automaton).  Three-way agreement TLC model / Python automaton /
implementation: a disagreement between the two oracles is a harness error, not a verdict.

What is executed on the real code:
  lang      every sequence over the ten step kinds up to length n through PandoraMachine.check_conf
            (check_pipeline_section), accept/reject compared with the automaton, end state checked;
  naming    the same for every suffix naming of the accepted sequences (first occurrence bare or 'kind.s');
  bad       every accepted sequence with one unregistered method name / one invalid parameter (must raise);
  deep      BFS over pipeline prefixes, one representative per canonical machine key, to depth 12;
  tlc       every terminal state of the TLC state graph: rejected pipelines must be rejected, accepted ones are
            run with call spies on the step classes and the log (step, scale, side, argument roles) is compared
            with the model's log;
  hist      every word over {check, run} of length <= 3 on ONE machine object for every accepted pipeline of
            length <= 3 (+ the validation/multiscale ones of length 4): the k-th repetition must behave as the first.
"""
from __future__ import annotations

import copy
import itertools
import json
import os
import re
import shutil
import subprocess
import tempfile

from mc.ref import automaton as A

ID = "C01"
LEVEL = "model_checking"
BUDGET = {"quick": 300, "thorough": 3600}
CHUNK = 4
RULE = (
    "states = distinct (history, canonical machine key) pairs reached on the real machine + TLC states; transitions = "
    "step triggers executed on the real machine (check and run) ; a case is non-trivial when the pipeline is non-empty; "
    "distinct = distinct (pipeline, verdict, log digest)"
)
ASSUMPTIONS = [
    "optimization / semantic_segmentation are identity stub plug-ins registered through the public registries",
    "observation through class-level call spies and instance-level callback wrappers (no source hook)",
    "histories mixing different pipelines on one machine are not claimed by C01 (the statement speaks of the same pipeline)",
    "TLC bounds: MaxLen 4 (quick) / 5 (thorough), MaxScales 3",
]

NY, NX = 24, 24
INTERVAL = (-4, 4)
MODELS = os.path.join(os.path.dirname(os.path.dirname(os.path.dirname(os.path.abspath(__file__)))), "models")


# ----------------------------------------------------------------------------------------------
# concrete step menus
# ----------------------------------------------------------------------------------------------
def step_cfg(kind, pos, nscales=2):
    from mc.drivers import stubs  # pylint: disable=import-outside-toplevel

    if kind == "matching_cost":
        return {"matching_cost_method": "sad", "window_size": 1, "subpix": 1}
    if kind == "aggregation":
        return {"aggregation_method": "cbca", "cbca_intensity": 30.0, "cbca_distance": 2}
    if kind == "optimization":
        return {"optimization_method": stubs.STUB, "p": 1}
    if kind == "semantic_segmentation":
        return {"segmentation_method": stubs.STUB, "RGB_bands": {}, "p": 1}
    if kind == "cost_volume_confidence":
        return {"confidence_method": "std_intensity"} if pos % 2 else {"confidence_method": "ambiguity", "eta_max": 0.7,
                                                                        "eta_step": 0.1}
    if kind == "disparity":
        return {"disparity_method": "wta", "invalid_disparity": -9999}
    if kind == "filter":
        return {"filter_method": "median", "filter_size": 3}
    if kind == "refinement":
        return {"refinement_method": "vfit"}
    if kind == "validation":
        d = {"validation_method": "cross_checking_accurate", "cross_checking_threshold": 1.0}
        if pos % 2:
            d["interpolated_disparity"] = "mc-cnn"
        return d
    if kind == "multiscale":
        return {"multiscale_method": "fixed_zoom_pyramid", "num_scales": nscales, "scale_factor": 2, "marge": 1}
    raise KeyError(kind)


METHOD_KEY = {
    "matching_cost": "matching_cost_method", "aggregation": "aggregation_method",
    "optimization": "optimization_method", "semantic_segmentation": "segmentation_method",
    "cost_volume_confidence": "confidence_method", "disparity": "disparity_method", "filter": "filter_method",
    "refinement": "refinement_method", "validation": "validation_method", "multiscale": "multiscale_method",
}
# one invalid parameter per kind (outside the documented domain)
BAD_PARAM = {
    "matching_cost": ("window_size", 4), "aggregation": ("cbca_distance", 0), "optimization": ("p", -1),
    "semantic_segmentation": ("p", -1), "cost_volume_confidence": ("eta_step", 0), "disparity": ("invalid_disparity", "x"),
    "filter": ("filter_size", 2), "refinement": None, "validation": ("cross_checking_threshold", "x"),
    "multiscale": ("num_scales", 1),
}


def names_std(kinds):
    """first occurrence bare, repeats 'kind.<position>'"""
    seen = set()
    out = []
    for i, k in enumerate(kinds):
        out.append(k if k not in seen else f"{k}.{i}")
        seen.add(k)
    return out


def all_namings(kinds):
    """every naming: each position bare or suffixed, names unique"""
    out = []
    for mask in itertools.product([0, 1], repeat=len(kinds)):
        names = [k if not s else f"{k}.s{i}" for i, (k, s) in enumerate(zip(kinds, mask))]
        if len(set(names)) == len(names):
            out.append(names)
    # the documentation allows any string after the first dot, dots included: one such naming per sequence
    if kinds:
        out.append([f"{k}.v{i}.2" for i, k in enumerate(kinds)])
        # ... and suffixes that spell the names of OTHER step kinds (substring tests on step names must not bite)
        out.append([f"{k}.multiscale_{i}" for i, k in enumerate(kinds)])
        out.append([f"{k}.validation_{i}" if k != "validation" else f"{k}.matching_cost_{i}"
                    for i, k in enumerate(kinds)])
    return out


def build_pipeline(kinds, names=None, nscales=2):
    names = names or names_std(kinds)
    pipe = {}
    for i, (k, n) in enumerate(zip(kinds, names)):
        cfg = step_cfg(k, i, nscales)
        if k == "cost_volume_confidence" and n == k and "confidence_method" in cfg:
            pass
        pipe[n] = cfg
    return pipe


# ----------------------------------------------------------------------------------------------
# TLC
# ----------------------------------------------------------------------------------------------
def run_tlc(maxlen, maxscales):
    """returns (terminal_states, n_states, n_transitions); raises if TLC reports an error"""
    tmp = tempfile.mkdtemp(prefix="mcverif_tlc_")
    try:
        shutil.copy(os.path.join(MODELS, "PandoraMachine.tla"), tmp)
        with open(os.path.join(tmp, "PandoraMachine.cfg"), "w", encoding="utf8") as f:
            f.write(
                "SPECIFICATION Spec\nCONSTANTS\n  MaxLen = %d\n  MaxScales = %d\nINVARIANTS\n  TypeOK\n"
                "  NoSequencingErrorAtRun\n  EndsInBegin\n  ExactlyOnce\n  InOrder\n" % (maxlen, maxscales)
            )
        r = subprocess.run(
            ["tlc", "-workers", "1", "-noGenerateSpecTE", "-deadlock", "-metadir", os.path.join(tmp, "meta"),
             "-dump", "dot,actionlabels", os.path.join(tmp, "g.dot"), "PandoraMachine"],
            cwd=tmp, capture_output=True, text=True, check=False, timeout=1200,
        )
        if "No error has been found" not in r.stdout:
            raise RuntimeError("TLC did not finish cleanly:\n" + r.stdout[-3000:] + r.stderr[-1000:])
        m = re.search(r"(\d+) states generated, (\d+) distinct states found", r.stdout)
        nstates = int(m.group(2))
        nodes = {}
        succ = {}
        ntrans = 0
        with open(os.path.join(tmp, "g.dot"), encoding="utf8") as f:
            for line in f:
                em = re.match(r"^(-?\d+) -> (-?\d+) \[label=\"(\w+)\"", line)
                if em:
                    succ.setdefault(em.group(1), []).append(em.group(2))
                    ntrans += 1
                    continue
                nm = re.match(r'^(-?\d+) \[label="((?:[^"\\]|\\.)*)"', line)
                if nm:
                    nodes[nm.group(1)] = nm.group(2)
        if len(nodes) != nstates:
            raise RuntimeError(f"dot dump has {len(nodes)} nodes, TLC reported {nstates} states")
        terminals = []
        for nid, label in nodes.items():
            if nid in succ:
                continue
            terminals.append(parse_state(label))
        terminals.sort(key=lambda s: (len(s["pipe"]), s["pipe"], s["nscales"]))
        return terminals, nstates, ntrans
    finally:
        shutil.rmtree(tmp, ignore_errors=True)


def parse_state(label):
    txt = label.replace("\\n", "\n").replace('\\"', '"').replace("\\\\", "\\")
    st = {}
    # conjuncts start with "/\ name = "; values may be wrapped over several lines
    parts = re.split(r"(?:^|\n)/\\ (\w+) = ", txt)
    for name, val in zip(parts[1::2], parts[2::2]):
        st[name] = parse_value(val.replace("\n", " "))
    return st


def parse_value(v):
    v = v.strip()
    py = v.replace("<<", "[").replace(">>", "]")
    return json.loads(py)


# ----------------------------------------------------------------------------------------------
# spaces
# ----------------------------------------------------------------------------------------------
_TLC_INFO = {}


def spaces(tier, seed):
    nlang = 4 if tier == "quick" else 6
    maxlen = 4 if tier == "quick" else 5
    # (a) language: a case = one 2-step prefix, the worker enumerates all its extensions
    lang = [{"kind": "lang", "prefix": [], "exact": True, "maxlen": 1}]
    for a in A.KINDS:
        for b in A.KINDS:
            lang.append({"kind": "lang", "prefix": [a, b], "maxlen": nlang})
    acc = [list(s) for s in A.accepted_sequences(4 if tier == "quick" else 5)]
    naming = [{"kind": "naming", "seq": s} for s in acc if 1 <= len(s) <= 4]
    bad = [{"kind": "bad", "seq": s} for s in acc if 1 <= len(s) <= (3 if tier == "quick" else 4)]
    deep = [{"kind": "deep", "depth": 12}]
    terminals, nstates, ntrans = run_tlc(maxlen, 3)
    _TLC_INFO.update({"tlc_states": nstates, "tlc_transitions": ntrans, "tlc_terminal_states": len(terminals),
                      "tlc_maxlen": maxlen, "tlc_maxscales": 3})
    tlc = [{"kind": "tlc", "pipe": t["pipe"], "phase": t["phase"], "nscales": t["nscales"], "log": t["log"]}
           for t in terminals]
    hseqs = [s for s in acc if 1 <= len(s) <= 3]
    hseqs += [s for s in acc if len(s) == 4 and ("validation" in s or "multiscale" in s)]
    words = [w for n in (1, 2, 3) for w in itertools.product("CR", repeat=n)]
    hist = [{"kind": "hist", "seq": s, "words": ["".join(w) for w in words]} for s in hseqs]
    nrun = [{"kind": "hist", "seq": s, "names": nm, "words": ["R", "CR"]}
            for s in acc if 1 <= len(s) <= 4 and ("validation" in s or "multiscale" in s)
            for nm in all_namings(s) if nm != names_std(s)]
    others = [["matching_cost", "disparity", "validation"],
              ["matching_cost", "disparity", "multiscale"],
              ["matching_cost", "cost_volume_confidence", "disparity", "filter"],
              ["matching_cost", "disparity", "refinement", "filter"],
              ["matching_cost", "disparity", "filter", "refinement"],
              ["matching_cost", "aggregation", "optimization", "disparity"]]
    mixed = [{"kind": "mixed", "P": s, "Q": q} for s in hseqs + [o for o in others if o not in hseqs]
             for q in others if list(s) != q]
    return [
        {"name": "language: all step sequences vs automaton", "level": 0, "cases": lang, "chunk": 2},
        {"name": "mixed histories: pipeline P after another pipeline Q on the same machine", "level": 2,
         "cases": mixed, "chunk": 4},
        {"name": "TLC terminal states replayed on the implementation", "level": 0, "cases": tlc, "chunk": 4},
        {"name": "suffix namings of accepted sequences", "level": 1, "cases": naming, "chunk": 8},
        {"name": "one unregistered method / invalid parameter", "level": 1, "cases": bad, "chunk": 8},
        {"name": "deep prefixes with state merging", "level": 1, "cases": deep, "chunk": 1},
        {"name": "check/run histories on one machine", "level": 2, "cases": hist, "chunk": 2},
        {"name": "runs of suffix namings (validation / multiscale pipelines)", "level": 2, "cases": nrun, "chunk": 4},
    ]


def finalize(tier, seed, ctx):
    tlc_space = [s for s in ctx["per_space"] if s["name"].startswith("TLC")][0]
    cov = dict(_TLC_INFO)
    cov["states"] = int(_TLC_INFO.get("tlc_states", 0)) + int(ctx["distinct"])
    cov["transitions"] = int(_TLC_INFO.get("tlc_transitions", 0)) + int(ctx["evaluations"])
    cov["traces_validated_against_impl"] = int(tlc_space["cases"]) if tlc_space["complete"] else int(tlc_space["cases"])
    cov["explanation"] = (
        "states = TLC distinct states + distinct (pipeline, verdict, log) outcomes observed on the real machine; "
        "transitions = TLC transitions + step triggers/ops executed on the real machine; traces = terminal states "
        "of the TLC graph (each determines its whole behaviour because the pipeline and the log are state variables) "
        "replayed against PandoraMachine/pandora.run"
    )
    return {"coverage": cov}


# ----------------------------------------------------------------------------------------------
# worker side
# ----------------------------------------------------------------------------------------------
_IMG = {}


def images():
    if not _IMG:
        from mc.drivers import datasets as D  # pylint: disable=import-outside-toplevel

        left, right = D.stereo_pair(NY, NX, shift=1, seed=5)
        _IMG["L"] = D.image(left, disp=INTERVAL)
        _IMG["R"] = D.image(right, disp=None)
    return _IMG["L"], _IMG["R"]


def init_worker():
    from mc.drivers import stubs  # pylint: disable=import-outside-toplevel

    stubs.install_spies()
    images()


def fresh_machine():
    from pandora.state_machine import PandoraMachine  # pylint: disable=import-outside-toplevel

    return PandoraMachine()


def machine_clean(m):
    """state begin, no registered event"""
    if m.state != "begin":
        return f"state {m.state!r} instead of 'begin'"
    if len(m.events) != 0:
        return f"leftover transitions {sorted(m.events)}"
    return None


def do_check(m, pipe):
    """returns (verdict, cfg or exception)"""
    from transitions import MachineError  # pylint: disable=import-outside-toplevel

    from mc.drivers import pipeline as P  # pylint: disable=import-outside-toplevel

    left, right = images()
    try:
        cfg = P.check(m, left, right, pipe)
        return "accepted", cfg
    except MachineError as e:
        return "sequencing-error", e
    except Exception as e:  # pylint: disable=broad-except
        return "other-error:" + type(e).__name__, e


def first_suffixed(kinds, names):
    """kinds whose FIRST occurrence carries a '.suffix'"""
    seen = set()
    out = []
    for k, n in zip(kinds, names):
        if k not in seen and "." in n:
            out.append(k)
        seen.add(k)
    return out


def culprit_kinds(kinds, names):
    """
    narrow classification of a refused suffix naming: the kinds whose first-occurrence suffix alone (all other
    names standard) already gets the pipeline refused; the whole set when no single one does
    """
    cands = first_suffixed(kinds, names)
    alone = []
    for k in cands:
        first = list(kinds).index(k)
        trial = names_std(kinds)
        trial[first] = f"{k}.s{first}"
        if len(set(trial)) != len(trial):
            continue
        v, _ = do_check(fresh_machine(), build_pipeline(kinds, trial))
        if v != "accepted":
            alone.append(k)
    return sorted(alone) if alone else sorted(cands) or ["repeated-only"]


def check_sequence(kinds, names, viol, tag):
    """one sequence on a fresh machine; returns (verdict, signature)"""
    pipe = build_pipeline(kinds, names)
    m = fresh_machine()
    verdict, res = do_check(m, pipe)
    exp = A.accepts(kinds)
    namecls = "std-names"
    if exp and verdict != "accepted" and list(names) != names_std(kinds):
        namecls = "suffixed-first:" + ",".join(culprit_kinds(kinds, names))
    if exp and verdict != "accepted":
        viol.append({"clause": "accepts-documented-paths", "key": f"C01/accept/{tag}/{namecls}/{verdict.split(':')[0]}",
                     "detail": f"pipeline {names} spells a path of the documented machine but was refused: "
                               f"{verdict} {res!r}", "case": {"kind": "one", "seq": list(kinds), "names": list(names), "tag": tag}})
    elif not exp and verdict == "accepted":
        viol.append({"clause": "rejects-non-paths", "key": f"C01/reject/{tag}/accepted-non-path",
                     "detail": f"pipeline {names} is not a path of the documented machine but was accepted",
                     "case": {"kind": "one", "seq": list(kinds), "names": list(names), "tag": tag}})
    elif not exp and verdict != "sequencing-error":
        viol.append({"clause": "rejects-with-sequencing-error", "key": f"C01/reject/{tag}/{verdict.split(':')[0]}",
                     "detail": f"pipeline {names} refused with {verdict} ({res!r}) instead of a sequencing error",
                     "case": {"kind": "one", "seq": list(kinds), "names": list(names), "tag": tag}})
    if verdict == "accepted":
        err = machine_clean(m)
        if err:
            viol.append({"clause": "idle-after-check", "key": f"C01/idle-after-check/{tag}", "detail": f"{names}: {err}",
                         "case": {"kind": "one", "seq": list(kinds), "names": list(names), "tag": tag}})
        got = list(res["pipeline"])
        if got != list(names):
            viol.append({"clause": "not-reordered", "key": f"C01/reordered/{tag}",
                         "detail": f"checked pipeline has steps {got}, configured {names}",
                         "case": {"kind": "one", "seq": list(kinds), "names": list(names), "tag": tag}})
    return verdict


# ---- expected calls --------------------------------------------------------------------------
def expected_calls(names, pipe, nscales, has_val):
    """documented run semantics expressed as the spy log: list of (step, scale, method, roles)"""
    out = []
    for (name, scale, side) in A.expected_run_log(names, nscales, False):
        kind = A.kind_of(name)
        L = {"img": "Limg", "oimg": "Rimg", "cv": "Lcv", "disp": "Ldisp", "odisp": "Rdisp"}
        R = {"img": "Rimg", "oimg": "Limg", "cv": "Rcv", "disp": "Rdisp", "odisp": "Ldisp"}
        sides = [L, R] if has_val else [L]

        def add(method, *roles, _n=name, _s=scale):
            out.append((_n, _s, method, tuple(roles)))

        if kind == "matching_cost":
            for s in sides:
                add("allocate_cost_volume", s["img"])
            for s in sides:
                add("compute_cost_volume", s["img"], s["oimg"], s["cv"])
                add("cv_masked", s["img"], s["oimg"], s["cv"])
        elif kind == "aggregation":
            for s in sides:
                add("cost_volume_aggregation", s["img"], s["oimg"], s["cv"])
        elif kind == "optimization":
            for s in sides:
                add("optimize_cv", s["cv"], s["img"], s["oimg"])
        elif kind == "semantic_segmentation":
            for s in sides:
                add("compute_semantic_segmentation", s["cv"], s["img"], s["oimg"])
        elif kind == "cost_volume_confidence":
            for s in sides:
                add("confidence_prediction", "*", s["img"], s["oimg"], s["cv"])
        elif kind == "disparity":
            for s in sides:
                add("to_disp", s["cv"], s["img"], s["oimg"])
        elif kind == "filter":
            for s in sides:
                add("filter_disparity", s["disp"])
        elif kind == "refinement":
            for s in sides:
                add("subpixel_refinement", s["cv"], s["disp"])
        elif kind == "validation":
            add("disparity_checking", "Ldisp", "Rdisp")
            add("disparity_checking", "Rdisp", "Ldisp")
            if "interpolated_disparity" in pipe[name]:
                add("interpolated_disparity", "Ldisp")
                add("interpolated_disparity", "Rdisp")
        elif kind == "multiscale":
            for s in sides:
                add("disparity_range", s["disp"])
    return out


def run_logged(m, cfg):
    """real pandora.run with spies armed; returns (log or None, error)"""
    import pandora  # pylint: disable=import-outside-toplevel

    from mc.drivers import stubs  # pylint: disable=import-outside-toplevel

    left, right = images()
    stubs.arm(m)
    err = None
    out = None
    try:
        out = pandora.run(m, left, right, cfg)
    except Exception as e:  # pylint: disable=broad-except
        err = e
    log = stubs.disarm(m)
    # the first argument of confidence_prediction is the (still empty / None) disparity dataset: not a product role
    norm = [(e["step"], e["scale"], e["method"],
             tuple("*" if (e["method"] == "confidence_prediction" and i == 0) else r for i, r in enumerate(e["roles"])))
            for e in log]
    return norm, err, out


def compare_log(names, pipe, nscales, log, err, viol, tag, case):
    has_val = any(A.kind_of(n) == "validation" for n in names)
    seqcls = ("multiscale" if nscales > 1 else "single-scale") + ("+validation" if has_val else "")
    if err is not None:
        viol.append({"clause": "runs-without-error", "key": f"C01/run-error/{tag}/{seqcls}/{type(err).__name__}",
                     "detail": f"accepted pipeline {names} (num_scales={nscales}) raised {err!r}", "case": case})
        return
    exp = expected_calls(names, pipe, nscales, has_val)
    got = [(s, sc, mth, tuple("*" if (mth == "confidence_prediction" and i == 0) else r for i, r in enumerate(roles)))
           for (s, sc, mth, roles) in log]
    if got == exp:
        return
    # classify the first difference
    k = 0
    while k < min(len(got), len(exp)) and got[k] == exp[k]:
        k += 1
    g = got[k] if k < len(got) else None
    e = exp[k] if k < len(exp) else None
    if g is None:
        cls = "missing-execution/" + A.kind_of(e[0])
    elif e is None:
        cls = "extra-execution/" + A.kind_of(g[0])
    elif g[:3] == e[:3]:
        cls = "wrong-arguments/" + A.kind_of(g[0]) + "/" + g[2]
    elif g[0] == e[0] and g[2] == e[2]:
        cls = "wrong-scale/" + A.kind_of(g[0])
    else:
        cls = "order-or-count/" + A.kind_of(e[0])
    viol.append({"clause": "each-step-once-per-scale-in-order-both-sides",
                 "key": f"C01/run-log/{tag}/{seqcls}/{cls}",
                 "detail": f"pipeline {names} num_scales={nscales}: execution log differs from the documented run at "
                           f"entry {k}: expected {e}, observed {g} (expected {len(exp)} calls, observed {len(got)})",
                 "case": case})


def run_case(case):
    from mc.drivers import pipeline as P  # pylint: disable=import-outside-toplevel

    viol = []
    sigs = []
    n = 0
    kind = case["kind"]
    if kind == "one":  # replay of a single sequence
        check_sequence(case["seq"], case["names"], viol, case["tag"])
        return {"n": 1, "sigs": [], "viol": viol}
    if kind == "lang":
        prefix = case["prefix"]
        lens = range(0, case["maxlen"] + 1) if case.get("exact") else range(len(prefix), case["maxlen"] + 1)
        for ln in lens:
            for ext in itertools.product(A.KINDS, repeat=ln - len(prefix)) if ln >= len(prefix) else []:
                seq = list(prefix) + list(ext)
                verdict = check_sequence(seq, names_std(seq), viol, "lang")
                n += max(1, len(seq))
                if seq:
                    sigs.append(f"L|{seq}|{verdict}")
        return {"n": n, "sigs": sigs, "viol": viol[:20]}
    if kind == "naming":
        seq = case["seq"]
        for names in all_namings(seq):
            verdict = check_sequence(seq, names, viol, "naming")
            n += len(seq)
            sigs.append(f"N|{names}|{verdict}")
        return {"n": n, "sigs": sigs, "viol": viol[:20]}
    if kind == "bad":
        seq = case["seq"]
        names = names_std(seq)
        for i, k in enumerate(seq):
            for what in ("method", "param"):
                pipe = build_pipeline(seq, names)
                if what == "method":
                    pipe[names[i]][METHOD_KEY[k]] = "no_such_method"
                else:
                    if BAD_PARAM[k] is None:
                        continue
                    pipe[names[i]][BAD_PARAM[k][0]] = BAD_PARAM[k][1]
                m = fresh_machine()
                verdict, _ = do_check(m, pipe)
                n += len(seq)
                sigs.append(f"B|{names}|{i}|{what}|{verdict}")
                if verdict == "accepted":
                    viol.append({"clause": "registered-method-and-valid-parameters",
                                 "key": f"C01/bad-{what}-accepted/{k}",
                                 "detail": f"pipeline {names} with {what} of step {names[i]} invalid "
                                           f"({pipe[names[i]]}) was accepted"})
                    continue
                # the same invalid pipeline on a machine that already checked and ran the valid one
                m = fresh_machine()
                v0, cfg0 = do_check(m, build_pipeline(seq, names))
                if v0 != "accepted":
                    continue
                _, err0, _ = run_logged(m, cfg0)
                if err0 is not None or machine_clean(m):
                    continue  # judged by the history spaces
                verdict, _ = do_check(m, pipe)
                n += len(seq)
                sigs.append(f"B|{names}|{i}|{what}|after-run|{verdict}")
                if verdict == "accepted":
                    viol.append({"clause": "registered-method-and-valid-parameters",
                                 "key": f"C01/bad-{what}-accepted/{k}/on a machine that already ran",
                                 "detail": f"pipeline {names} with {what} of step {names[i]} invalid "
                                           f"({pipe[names[i]]}) was accepted by a machine that had checked and run "
                                           f"the valid pipeline before (a fresh machine refuses it)"})
        return {"n": n, "sigs": sigs, "viol": viol}
    if kind == "deep":
        return deep_bfs(case["depth"])
    if kind == "tlc":
        return replay_tlc(case)
    if kind == "hist":
        return histories(case)
    if kind == "mixed":
        return mixed_histories(case)
    raise KeyError(kind)


def deep_bfs(depth):
    """
    BFS over pipeline prefixes; canonical key = (machine.state just before check_conf resets it, right_disp_map,
    step, number of margin entries capped) observed on the real machine through an instance-level wrapper of
    remove_transitions; one representative per key and depth is extended by each of the ten kinds.
    """
    viol = []
    sigs = []
    n = 0
    frontier = {("begin", None): []}
    for d in range(1, depth + 1):
        nxt = {}
        for _, seq in sorted(frontier.items(), key=lambda kv: str(kv[0])):
            for k in A.KINDS:
                s2 = seq + [k]
                names = names_std(s2)
                pipe = build_pipeline(s2, names)
                m = fresh_machine()
                seen = {}
                orig = m.remove_transitions

                def spy_remove(tl, _orig=orig, _m=m, _seen=seen):
                    _seen.setdefault("state", _m.state)
                    return _orig(tl)

                m.remove_transitions = spy_remove
                verdict, _ = do_check(m, pipe)
                n += len(s2)
                check_sequence(s2, names, viol, "deep")
                if verdict == "accepted":
                    st = seen.get("state")
                    if st != A.final_state(s2):
                        viol.append({"clause": "deep-state", "key": "C01/deep/state-mismatch",
                                     "detail": f"{names}: machine state before reset {st}, automaton {A.final_state(s2)}",
                                     "case": {"kind": "deep", "depth": depth}})
                    key = (st, m.right_disp_map)
                    nxt.setdefault(key, s2)
                    sigs.append(f"D|{d}|{key}")
        frontier = nxt
    return {"n": n, "sigs": sigs, "viol": viol[:10]}


def replay_tlc(case):
    viol = []
    kinds = case["pipe"]
    names = names_std(kinds)
    nscales = case["nscales"]
    pipe = build_pipeline(kinds, names, max(nscales, 2))
    m = fresh_machine()
    verdict, cfg = do_check(m, pipe)
    n = len(kinds)
    rcase = dict(case)
    if case["phase"] == "rejected":
        if A.accepts(kinds):
            raise AssertionError("TLC model and Python automaton disagree (rejected)")
        if verdict != "sequencing-error":
            viol.append({"clause": "model-rejected-behaviour", "key": f"C01/tlc/rejected-by-model/{verdict.split(':')[0]}",
                         "detail": f"model rejects {names}; implementation: {verdict}", "case": rcase})
        return {"n": n, "sigs": [f"T|{kinds}|rej|{verdict}"], "viol": viol}
    if not A.accepts(kinds):
        raise AssertionError("TLC model and Python automaton disagree (accepted)")
    # three-way agreement of the two oracles on the run log
    model_log = [(names[i - 1], s) for (i, s) in case["log"]]
    py_log = [(nm, s) for (nm, s, _side) in A.expected_run_log(names, nscales, False)]
    if model_log != py_log:
        raise AssertionError(f"TLC log {model_log} != Python automaton log {py_log}")
    if verdict != "accepted":
        viol.append({"clause": "model-accepted-behaviour", "key": f"C01/tlc/accepted-by-model/{verdict.split(':')[0]}",
                     "detail": f"model accepts {names}; implementation: {verdict} {cfg!r}", "case": rcase})
        return {"n": n, "sigs": [f"T|{kinds}|{nscales}|{verdict}"], "viol": viol}
    log, err, _ = run_logged(m, cfg)
    n += len(log)
    compare_log(names, pipe, nscales, log, err, viol, "tlc", rcase)
    if err is None:
        e2 = machine_clean(m)
        if e2:
            viol.append({"clause": "idle-after-run", "key": "C01/idle-after-run/tlc", "detail": f"{names}: {e2}",
                         "case": rcase})
    return {"n": n, "sigs": [f"T|{kinds}|{nscales}|ok|{len(log)}"], "viol": viol}


def histories(case):
    from mc.drivers import pipeline as P  # pylint: disable=import-outside-toplevel

    viol = []
    sigs = []
    n = 0
    kinds = case["seq"]
    names = case.get("names") or names_std(kinds)
    nscales = 2 if "multiscale" in kinds else 1
    pipe = build_pipeline(kinds, names, 2)
    ref_m = fresh_machine()
    ref_verdict, ref_cfg = do_check(ref_m, pipe)
    if ref_verdict != "accepted":
        return {"n": 1, "sigs": [], "viol": [], "trivial": 1}  # reported by the language spaces
    ref_log, ref_err, ref_out = run_logged(ref_m, copy.deepcopy(ref_cfg))
    tag = "hist" if list(names) == names_std(kinds) else "naming-run:" + ",".join(first_suffixed(kinds, names))
    compare_log(names, pipe, nscales, ref_log, ref_err, viol, tag, dict(case, words=[]))
    ref_dig = None if ref_err else (P.digest(ref_out[0]), P.digest(ref_out[1]))
    for word in case["words"]:
        m = fresh_machine()
        cfg = None
        for pos, op in enumerate(word):
            n += 1
            where = f"op {pos} of history {word}"
            hcase = {"kind": "hist", "seq": kinds, "names": list(names), "words": [word]}
            if op == "C":
                verdict, res = do_check(m, pipe)
                if verdict != "accepted":
                    viol.append({"clause": "repeat-check-identical", "key": f"C01/history/check-refused/{verdict.split(':')[0]}",
                                 "detail": f"{names}: {where}: check gave {verdict} {res!r} (fresh machine: accepted)",
                                 "case": hcase})
                    break
                if json.dumps(res, sort_keys=True, default=str) != json.dumps(ref_cfg, sort_keys=True, default=str):
                    viol.append({"clause": "repeat-check-identical", "key": "C01/history/check-config-differs",
                                 "detail": f"{names}: {where}: completed configuration differs from the first check",
                                 "case": hcase})
                cfg = res
                e2 = machine_clean(m)
                if e2:
                    viol.append({"clause": "idle-after-check", "key": "C01/idle-after-check/history",
                                 "detail": f"{names}: {where}: {e2}", "case": hcase})
            else:
                use = copy.deepcopy(cfg if cfg is not None else ref_cfg)
                log, err, out = run_logged(m, use)
                if (err is None) != (ref_err is None) or (err is not None and type(err) is not type(ref_err)):
                    viol.append({"clause": "repeat-run-identical", "key": "C01/history/run-error-differs",
                                 "detail": f"{names}: {where}: run error {err!r} vs first run {ref_err!r}", "case": hcase})
                    break
                if err is None:
                    if log != ref_log:
                        viol.append({"clause": "repeat-run-identical", "key": "C01/history/run-log-differs",
                                     "detail": f"{names}: {where}: execution log differs from the first run "
                                               f"({len(log)} vs {len(ref_log)} calls)", "case": hcase})
                    dig = (P.digest(out[0]), P.digest(out[1]))
                    if dig != ref_dig:
                        viol.append({"clause": "repeat-run-identical", "key": "C01/history/products-differ",
                                     "detail": f"{names}: {where}: products differ from the first run", "case": hcase})
                    e2 = machine_clean(m)
                    if e2:
                        viol.append({"clause": "idle-after-run", "key": "C01/idle-after-run/history",
                                     "detail": f"{names}: {where}: {e2}", "case": hcase})
        sigs.append(f"H|{names}|{word}")
    return {"n": n, "sigs": sigs, "viol": viol[:10]}


def mixed_histories(case):
    """
    one machine object first used for pipeline Q (check / run / check+run), then for pipeline P (check / run with a
    configuration checked elsewhere / check+run): everything observed for P must equal what a fresh machine gives
    """
    viol = []
    sigs = []
    n = 0
    pk, qk = case["P"], case["Q"]
    pn, qn = names_std(pk), names_std(qk)
    ppipe = build_pipeline(pk, pn, 2)
    qpipe = build_pipeline(qk, qn, 2)
    ref_m = fresh_machine()
    ref_verdict, ref_cfg = do_check(ref_m, ppipe)
    if ref_verdict != "accepted":
        return {"n": 1, "sigs": [], "viol": [], "trivial": 1}
    ref_log, ref_err, _ = run_logged(ref_m, copy.deepcopy(ref_cfg))
    qm = fresh_machine()
    qv, qcfg = do_check(qm, qpipe)
    if qv != "accepted" or ref_err is not None:
        return {"n": 1, "sigs": [], "viol": [], "trivial": 1}
    qcls = "+".join(sorted({k for k in qk if k not in pk})) or "same-kinds"
    for prefix in ("C", "R", "CR"):
        for suffix in ("C", "R", "CR"):
            m = fresh_machine()
            hcase = {"kind": "mixed", "P": pk, "Q": qk}
            where = f"history {prefix.lower()}(Q){suffix}(P) with Q={qn} P={pn}"
            ok = True
            for op in prefix:
                n += 1
                if op == "C":
                    v, _ = do_check(m, qpipe)
                    ok = ok and v == "accepted"
                else:
                    _, e, _ = run_logged(m, copy.deepcopy(qcfg))
                    ok = ok and e is None
            if not ok:
                continue  # Q itself misbehaving is judged by the single-pipeline spaces
            cfg = None
            for op in suffix:
                n += 1
                if op == "C":
                    v, res = do_check(m, ppipe)
                    if v != "accepted":
                        viol.append({"clause": "check-after-other-pipeline", "key": f"C01/mixed/check-refused/after-{qcls}",
                                     "detail": f"{where}: check of P gave {v} {res!r}", "case": hcase})
                        break
                    if list(res["pipeline"]) != list(ref_cfg["pipeline"]):
                        extra = [x for x in res["pipeline"] if x not in ref_cfg["pipeline"]]
                        cls = "extra-steps" if extra else "reordered"
                        viol.append({"clause": "checked-pipeline-is-the-configured-one",
                                     "key": f"C01/mixed/checked-pipeline-{cls}/after-{qcls}",
                                     "detail": f"{where}: checked pipeline has steps {list(res['pipeline'])}, the "
                                               f"configured pipeline is {list(ref_cfg['pipeline'])}", "case": hcase})
                        break
                    if json.dumps(res, sort_keys=True, default=str) != json.dumps(ref_cfg, sort_keys=True, default=str):
                        viol.append({"clause": "checked-pipeline-is-the-configured-one",
                                     "key": f"C01/mixed/checked-parameters-differ/after-{qcls}",
                                     "detail": f"{where}: completed configuration differs from a fresh machine's",
                                     "case": hcase})
                        break
                    cfg = res
                else:
                    log, err, _ = run_logged(m, copy.deepcopy(cfg if cfg is not None else ref_cfg))
                    if err is not None:
                        viol.append({"clause": "run-after-other-pipeline",
                                     "key": f"C01/mixed/run-error/after-{qcls}/{type(err).__name__}",
                                     "detail": f"{where}: run of P raised {err!r}", "case": hcase})
                        break
                    if log != ref_log:
                        k = 0
                        while k < min(len(log), len(ref_log)) and log[k] == ref_log[k]:
                            k += 1
                        viol.append({"clause": "run-after-other-pipeline",
                                     "key": f"C01/mixed/run-log-differs/after-{qcls}",
                                     "detail": f"{where}: execution log of P differs from a fresh machine's at entry {k}: "
                                               f"fresh {ref_log[k:k + 1]}, here {log[k:k + 1]} ({len(ref_log)} vs {len(log)} "
                                               f"calls)", "case": hcase})
                        break
                    e2 = machine_clean(m)
                    if e2:
                        viol.append({"clause": "idle-after-run", "key": "C01/idle-after-run/mixed",
                                     "detail": f"{where}: {e2}", "case": hcase})
            sigs.append(f"X|{pn}|{qn}|{prefix}|{suffix}")
    return {"n": n, "sigs": sigs, "viol": viol[:8]}
