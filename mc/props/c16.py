"""
C16 - image datasets faithfully encode input rasters, masks, nodata and ROI (DESIGN.md section 3, C16).

Enumerated on the real `img_tools.get_window` and `img_tools.create_dataset_from_inputs`, on GeoTIFFs written by the
harness (mc/drivers/files_io.py), against mc/ref/dataset.py:
  * windows   : EVERY ROI (first <= last in [-3, n+2] per axis) x margins in {0,1,2}^4 on a 4x5 and a 1x1 image through
                the pure function get_window: window == [first-margin, last+margin] clipped, refusal <=> empty;
  * tiny      : every assignment of (no-data sample?, mask value) to the pixels of 1x1, 1x2, 2x1 (thorough: 2x2, 1x3)
                images x dtype x nodata value x with/without mask file, and every per-band no-data pattern of a 1x1
                2/3-band image;
  * rasters   : every shape 1-4 x 1-5 x 1-3 bands x dtype x nodata x mask mode, position-coded content in which
                every (no-data pattern, mask value) pair occurs, with disparity interval / grids, classification and
                segmentation rasters rotated (thorough: all of them);
  * roi reads : create_dataset_from_inputs for EVERY ROI x margins in {0,2}^4 on 4x5 and 1x1 file sets that carry a
                mask, no-data samples and (quick: one of, rotating over the ROIs; thorough: also all of) a disparity
                grid, a classification, a segmentation: ROI read == crop of Pandora's own full read (coordinates
                included), refusal <=> empty intersection.
"""
from __future__ import annotations

import hashlib
import itertools
import math

import numpy as np

from mc.drivers import files_io as F
from mc.ref import dataset as REF

ID = "C16"
LEVEL = "exploration"
BUDGET = {"quick": 300, "thorough": 3600}
CHUNK = 16
RULE = (
    "windows: one case per (image, column ROI), looping every row ROI x margins {0,1,2}^4, non-trivial when the window "
    "is clipped or refused, distinct = (image, resulting window | refused); tiny/rasters: one "
    "create_dataset_from_inputs call per case, non-trivial when at least one pixel is no-data or invalid, distinct = "
    "(dtype, nodata, bands, digest of the expected class map, digest of im, which optional variables); roi reads: one "
    "case per (image, column ROI, first row), looping last row x margins {0,2}^4, non-trivial when clipped or refused, "
    "distinct = (variant, window | refused, digest of the ROI dataset)"
)
ASSUMPTIONS = [
    "refusal = any exception raised by get_window / create_dataset_from_inputs; a returned empty window or dataset is "
    "not a refusal",
    "nodata = +inf (-inf): images never hold a sample -inf (+inf), the statement does not say whether +-inf nodata "
    "matches both signs",
    "a mask file that flags nothing together with no no-data sample: msk may be present (all valid) or absent",
    "ROI read without msk is accepted when the crop of the full read's msk flags nothing (both readings of 'no mask "
    "variable when there is nothing to flag' vs 'ROI read equals the crop')",
    "ROI read is compared with the crop of Pandora's own full read (differential); the full read of the same files is "
    "compared with the reference model, so a defect of the full read is reported once, under the full-read key",
    "attribute no_data_img is compared between ROI and full read only for finite nodata values",
    "the [min,max] interval disparity is compared by value, not by dtype (statement silent); grid bands by value "
    "against the float32 file samples",
    "mask values {0,1,2,255,-1}; sizes 1-4 x 1-5; ROI bounds in [-3, n+2]; margins {0,1,2} (windows) / {0,2} (reads)",
]

NODATAS = [-9999, 0, 7, "NaN", "inf", "-inf"]
MASKVALS = [0, 1, 2, 255, -1]
DTYPES = ["uint8", "int16", "float32"]
EXTRAS = [  # (disparity mode, classification bands, segmentation)
    ("list", 0, 0), ("grid32", 2, 1), ("grid16", 1, 0), (None, 0, 1), ("list", 2, 1), ("grid32", 0, 0),
    ("grid16", 2, 1), (None, 1, 0), ("list", 1, 0), ("grid32", 1, 1), ("grid16", 0, 1), (None, 2, 0),
]
ROI_VARIANTS = [  # (bands, dtype, nodata, disparity mode, mask dtype)
    (1, "float32", "NaN", "grid32", "int16"), (2, "int16", 7, "grid16", "int16"), (3, "uint8", 0, "list", "uint8"),
    (1, "float32", "-inf", "grid32", "int16"), (2, "float32", "inf", "list", "int16"),
    (1, "int16", -9999, "grid16", "uint8"), (3, "float32", 7, "grid32", "int16"), (1, "uint8", 7, "list", "int16"),
    (2, "float32", "NaN", "grid16", "uint8"), (1, "int16", 0, "grid32", "int16"), (3, "int16", -9999, "list", "int16"),
    (2, "uint8", 7, "grid32", "uint8"),
]
SITE = "create_dataset_from_inputs"


def nodata_value(nd):
    return {"NaN": math.nan, "inf": math.inf, "-inf": -math.inf}.get(nd, nd) if isinstance(nd, str) else nd


def representable(nd, dtype) -> bool:
    v = nodata_value(nd)
    if dtype == "float32":
        return True
    if isinstance(v, float):
        return False
    info = np.iinfo(dtype)
    return info.min <= v <= info.max


# ----------------------------------------------------------------------------------------------
# spaces
# ----------------------------------------------------------------------------------------------
def roi_pairs(n):
    """every first <= last in [-3, n+2], the ones closest to the image origin first (simplest witnesses first)"""
    return sorted(((f, l) for f in range(-3, n + 3) for l in range(f, n + 3)), key=lambda p: (abs(p[0]) + abs(p[1]), p))


def spaces(tier, seed):
    images = [(5, 4), (1, 1)]  # (width, height)
    windows = [{"kind": "win", "w": w, "h": h, "cf": cf, "cl": cl} for (w, h) in images for cf, cl in roi_pairs(w)]

    tiny_shapes = [(1, 1), (1, 2), (2, 1)] + ([(2, 2), (1, 3)] if tier == "thorough" else [])

    def tiny():
        for (h, w) in tiny_shapes:
            n = h * w
            for dtype in DTYPES:
                for nd in NODATAS:
                    for maskmode in ("none", "file"):
                        mvals = MASKVALS if maskmode == "file" else [None]
                        for cells in itertools.product(itertools.product([0, 1], mvals), repeat=n):
                            yield {"kind": "tiny", "h": h, "w": w, "dtype": dtype, "nodata": nd,
                                   "cells": [list(c) for c in cells], "seed": seed}
        # per-band no-data patterns of a single multiband pixel
        for nb in (2, 3):
            for dtype in DTYPES:
                for nd in NODATAS:
                    for pattern in itertools.product([0, 1], repeat=nb):
                        for mv in [None] + MASKVALS:
                            yield {"kind": "tiny", "h": 1, "w": 1, "dtype": dtype, "nodata": nd, "bands": nb,
                                   "cells": [[list(pattern), mv]], "seed": seed}

    def rasters():
        for h in range(1, 5):
            for w in range(1, 6):
                n = h * w
                for nb in (1, 2, 3):
                    for di, dtype in enumerate(DTYPES):
                        for ni, nd in enumerate(NODATAS):
                            for mi, maskmode in enumerate(("none", "int16", "uint8", "zeros")):
                                for off in range(seed, seed + 15, n):
                                    k = h * 7 + w * 3 + nb * 5 + di * 11 + ni * 13 + mi * 17 + off + seed
                                    extras = range(len(EXTRAS)) if tier == "thorough" else [k % len(EXTRAS)]
                                    for e in extras:
                                        yield {"kind": "raster", "h": h, "w": w, "bands": nb, "dtype": dtype,
                                               "nodata": nd, "mask": maskmode, "off": off, "extra": e, "seed": seed,
                                               "georef": (k // 3) % 2, "tag": (k // 5) % 2}

    def rois():
        for (w, h) in images:
            for cf, cl in roi_pairs(w):
                for rf in sorted(range(-3, h + 3), key=lambda x: (abs(x), x)):
                    k = (cf + 3) * 7 + (cl + 3) * 3 + (rf + 3) + seed + w
                    nvar = len(ROI_VARIANTS)
                    variants = [(k + j * 2) % nvar for j in range(6)] if tier == "thorough" else [k % nvar]
                    for j, v in enumerate(variants):
                        # quick: the optional rasters (disparity grid | classification | segmentation) rotate over
                        # the ROIs, the mask and the no-data samples are always there; thorough: all of them at once
                        yield {"kind": "roi", "w": w, "h": h, "cf": cf, "cl": cl, "rf": rf, "variant": v,
                               "ex": "all" if tier == "thorough" and j % 2 == 0 else (k + j) % 3, "seed": seed}

    # (h, w, bands, dtype, nodata, mask mode, offset, extra, seed) of build_raster
    specs = [(2, 3, 1, "uint8", -9999, "none", 0, 0, seed), (3, 2, 1, "float32", "NaN", "int16", 1, 1, seed),
             (2, 3, 2, "int16", 7, "uint8", 2, 2, seed), (4, 5, 1, "uint8", 0, "int16", 3, 0, seed),
             (2, 3, 3, "float32", -9999, "none", 4, 3, seed)]
    rewrites = [{"kind": "rewrite", "a": list(a), "b": list(b), "roi_first": rf}
                for a in specs for b in specs if a is not b for rf in (0, 1)]
    return [
        {"name": "the same paths written twice with different rasters: the second read describes the second file",
         "level": 1, "cases": rewrites, "chunk": 2},
        {"name": "get_window: every ROI x margins {0,1,2}^4 on 4x5 and 1x1", "level": 0, "cases": windows, "chunk": 2},
        {"name": "tiny images: every (no-data?, mask value) assignment", "level": 0, "cases": tiny(), "chunk": 64},
        {"name": "rasters: shapes x bands x dtype x nodata x mask mode, position-coded", "level": 1,
         "cases": rasters(), "chunk": 32},
        {"name": "ROI reads: every ROI x margins {0,2}^4 vs crop of the full read", "level": 2, "cases": rois(),
         "chunk": 2},
    ]


# ----------------------------------------------------------------------------------------------
# content generators (deterministic functions of the case)
# ----------------------------------------------------------------------------------------------
def ordinary_values(dtype, nd, seed):
    """sample values that are NOT the nodata value: generic, plus the other nodata candidates and float specials"""
    v = nodata_value(nd)
    rng = np.random.RandomState(97 + seed)
    if dtype == "uint8":
        vals = [int(x) for x in rng.permutation(np.arange(1, 256))[:24]] + [0, 7, 255]
    elif dtype == "int16":
        vals = [int(x) for x in rng.permutation(np.arange(-300, 301))[:22]] + [0, 7, -9999, -32768, 32767]
    else:
        vals = [float(x) / 2 for x in rng.permutation(np.arange(-300, 301))[:20]] + [0.0, 7.0, -9999.0, 7.5, 1e30]
        if isinstance(v, (int, float)) and math.isfinite(v):
            # samples NEAR the nodata value but different from it in float32 ("equals the nodata value" is exact):
            # the next float32 and a value half-way inside numpy's default isclose tolerance
            near = [float(np.nextafter(np.float32(v), np.float32(np.inf))),
                    float(np.float32(v + 0.5 * (1e-8 + 1e-5 * abs(v))))]
            vals = near + vals
        if not (isinstance(v, float) and math.isnan(v)):
            vals.append(math.nan)
        if not (isinstance(v, float) and math.isinf(v)):
            vals += [math.inf, -math.inf]
    out = []
    for x in vals:
        if isinstance(x, float) and math.isnan(x):
            out.append(x)
        elif not REF.is_nodata_sample(np.float32(x), v):
            out.append(x)
    return out


def build_tiny(case):
    h, w, dtype = case["h"], case["w"], case["dtype"]
    nb = case.get("bands", 1)
    nd = nodata_value(case["nodata"])
    can = representable(case["nodata"], dtype)
    ords = ordinary_values(dtype, case["nodata"], case["seed"])
    samples = np.zeros((nb, h, w), dtype=dtype)
    mask = None
    has_mask = any(c[1] is not None for c in case["cells"])
    if has_mask:
        mask = np.zeros((h, w), dtype=np.int16)
    for i, (s, m) in enumerate(case["cells"]):
        r, c = divmod(i, w)
        pattern = s if isinstance(s, list) else [s] * nb
        for b in range(nb):
            if pattern[b] and can:
                samples[b, r, c] = nd
            else:
                samples[b, r, c] = ords[(i * 3 + b * 5 + (1 if pattern[b] else 0)) % len(ords)]
        if mask is not None:
            mask[r, c] = m if m is not None else 0
    return {"samples": samples, "nodata": nd, "mask": mask, "mask_given": mask is not None,
            "mask_dtype": "int16", "bands": [f"band{b}" for b in range(nb)], "disp": [-2, 3], "classif": None,
            "classif_names": [], "segm": None, "georef": 0, "tag": 0, "dtype": dtype}


def build_raster(h, w, nb, dtype, nodata, maskmode, off, extra, seed, georef=0, tag=0):
    nd = nodata_value(nodata)
    can = representable(nodata, dtype)
    ords = ordinary_values(dtype, nodata, seed)
    samples = np.zeros((nb, h, w), dtype=dtype)
    mvals = {"int16": MASKVALS, "uint8": [0, 1, 2, 255, 3], "zeros": [0] * 5}.get(maskmode)
    mask = np.zeros((h, w), dtype=np.int16) if mvals else None
    for r in range(h):
        for c in range(w):
            k = r * w + c + off
            pat = (k // 5) % 3  # 0: no no-data, 1: no-data in one band, 2: none
            for b in range(nb):
                if pat == 1 and can and b == k % nb:
                    samples[b, r, c] = nd
                else:
                    samples[b, r, c] = ords[(k * 7 + b * 3) % len(ords)]
            if mask is not None:
                mask[r, c] = mvals[k % 5]
    dmode, ncl, seg = EXTRAS[extra] if isinstance(extra, int) else extra
    rr, cc = np.meshgrid(np.arange(h), np.arange(w), indexing="ij")
    disp = None
    if dmode == "list":
        disp = [-2, 3]
    elif dmode == "grid32":
        dmin = (-((rr * 2 + cc) % 4) - 0.5).astype(np.float32)
        disp = np.array([dmin, dmin + ((rr + cc * 3) % 3) + 0.25], dtype=np.float32)
    elif dmode == "grid16":
        dmin = (-((rr + cc * 2) % 3) - 1).astype(np.int16)
        disp = np.array([dmin, dmin + ((rr * 3 + cc) % 4)], dtype=np.int16)
    classif = None
    if ncl:
        classif = np.array([((rr * (j + 2) + cc + j) % 3 == 0).astype(np.int16) * (1 if j == 0 else 3 - 4 * j)
                            for j in range(ncl)], dtype=np.int16)
    segm = ((rr * 5 + cc * 3) % 7 * 60 - 100).astype(np.int16) if seg else None
    return {"samples": samples, "nodata": nd, "mask": mask, "mask_given": mask is not None,
            "mask_dtype": "uint8" if maskmode in ("uint8", "zeros") else "int16",
            "bands": [f"b{b}" for b in range(nb)], "disp": disp, "disp_dtype": "int16" if dmode == "grid16" else "float32",
            "classif": classif, "classif_names": [f"class{j}" for j in range(ncl)], "segm": segm,
            "georef": georef, "tag": tag, "dtype": dtype}


def write_inputs(d, spec) -> dict:
    """writes the files of a spec into directory d, returns the input section"""
    tagval = None
    if spec.get("tag"):
        # GDAL nodata tag deliberately different from the configured nodata: Pandora must not look at it
        tagval = 1
    F.write_tif(f"{d}/img.tif", spec["samples"], spec["dtype"], descriptions=spec["bands"] if len(spec["bands"]) > 1
                else None, georef=bool(spec.get("georef")), nodata=tagval)
    conf = {"img": f"{d}/img.tif", "nodata": spec["nodata"]}
    if spec["mask"] is not None:
        F.write_tif(f"{d}/mask.tif", spec["mask"], spec["mask_dtype"])
        conf["mask"] = f"{d}/mask.tif"
    if spec["disp"] is not None:
        if isinstance(spec["disp"], list):
            conf["disp"] = list(spec["disp"])
        else:
            F.write_tif(f"{d}/disp.tif", spec["disp"], spec["disp_dtype"])
            conf["disp"] = f"{d}/disp.tif"
    if spec["classif"] is not None:
        F.write_tif(f"{d}/classif.tif", spec["classif"], "int16", descriptions=spec["classif_names"])
        conf["classif"] = f"{d}/classif.tif"
    if spec["segm"] is not None:
        F.write_tif(f"{d}/segm.tif", spec["segm"], "int16")
        conf["segm"] = f"{d}/segm.tif"
    return conf


# ----------------------------------------------------------------------------------------------
# case runners
# ----------------------------------------------------------------------------------------------
def _viol(out, clause, cls, detail, site=SITE, rank=(0,)):
    """record a violation; `out` keeps, per key, the witness of lowest rank (simplest input)"""
    key = f"C16/{clause}/{site}/{cls}".rstrip("/")
    cur = out.get(key)
    if cur is None or rank < cur[0]:
        out[key] = (rank, {"clause": clause, "key": key, "detail": F.scrub(detail)})


def _viol_list(out):
    return [v for _, (_, v) in sorted(out.items())]


def _rank(roi, reasons=()):
    return (len(reasons), sum(roi["margins"]), abs(roi["col"]["first"]) + abs(roi["col"]["last"])
            + abs(roi["row"]["first"]) + abs(roi["row"]["last"]))


def _dig(a) -> str:
    a = np.ascontiguousarray(np.nan_to_num(np.asarray(a, dtype=np.float64), nan=-7.25e300, posinf=7e300, neginf=-7e300))
    return hashlib.sha1(a.tobytes() + str(a.shape).encode()).hexdigest()[:10]


def run_windows(case):
    from pandora import img_tools  # pylint: disable=import-outside-toplevel

    w, h, cf, cl = case["w"], case["h"], case["cf"], case["cl"]
    viol, sigs = {}, set()
    n = trivial = 0
    margins = list(itertools.product((0, 1, 2), repeat=4))
    for rf, rl in roi_pairs(h):
        for m in margins:
            roi = {"col": {"first": cf, "last": cl}, "row": {"first": rf, "last": rl}, "margins": list(m)}
            exp = REF.window(roi, w, h)
            n += 1
            try:
                win = img_tools.get_window(roi, w, h)
                got = (int(win.col_off), int(win.col_off + win.width - 1), int(win.row_off),
                       int(win.row_off + win.height - 1))
                raw = (win.col_off, win.row_off, win.width, win.height)
            except Exception as e:  # pylint: disable=broad-except
                got, raw = None, f"{type(e).__name__}: {e}"
            clipped = exp is None or exp != (cf - m[0], cl + m[2], rf - m[1], rl + m[3])
            if clipped:
                sigs.add(f"w|{w}x{h}|{exp}")
            else:
                trivial += 1
            if got == exp:
                continue
            if exp is None:
                reasons = REF.empty_reason(roi, w, h)
                for reason in reasons:
                    _viol(viol, "roi-refusal", reason, f"get_window({roi}, width={w}, height={h}) returned Window"
                          f"(col_off, row_off, width, height)={raw}; [first-margin, last+margin] does not meet the "
                          "image, the ROI must be refused", "get_window", _rank(roi, reasons))
            elif got is None:
                _viol(viol, "roi-spurious-refusal", "", f"get_window({roi}, width={w}, height={h}) raised {raw}; "
                      f"expected columns {exp[0]}..{exp[1]} rows {exp[2]}..{exp[3]}", "get_window", _rank(roi))
            else:
                sides = [s for s, a, b in (("left", exp[0], got[0]), ("right", exp[1], got[1]), ("up", exp[2], got[2]),
                                           ("down", exp[3], got[3])) if a != b]
                _viol(viol, "roi-window", "+".join(sides), f"get_window({roi}, width={w}, height={h}) = columns "
                      f"{got[0]}..{got[1]} rows {got[2]}..{got[3]} (Window {raw}); expected columns {exp[0]}..{exp[1]} "
                      f"rows {exp[2]}..{exp[3]}", "get_window", _rank(roi))
    return {"n": n, "sigs": sorted(sigs), "viol": _viol_list(viol), "trivial": trivial}


def _read(conf, roi=None):
    from pandora import img_tools  # pylint: disable=import-outside-toplevel

    try:
        if roi is None:
            return img_tools.create_dataset_from_inputs(conf), None
        return img_tools.create_dataset_from_inputs(conf, roi), None
    except Exception as e:  # pylint: disable=broad-except
        return None, f"{type(e).__name__}: {e}"


def _describe(spec):
    return (f"image {spec['dtype']} samples {np.asarray(spec['samples']).tolist()} nodata {spec['nodata']!r} mask "
            f"{None if spec['mask'] is None else spec['mask'].tolist()}")


def run_full(case):
    if case["kind"] == "tiny":
        spec = build_tiny(case)
    else:
        spec = build_raster(case["h"], case["w"], case["bands"], case["dtype"], case["nodata"], case["mask"],
                            case["off"], case["extra"], case["seed"], case.get("georef", 0), case.get("tag", 0))
    viol = {}
    with F.case_dir() as d:
        conf = write_inputs(d, spec)
        ds, err = _read(conf)
    if ds is None:
        _viol(viol, "full-read-refused", "", f"create_dataset_from_inputs raised {err} on well-formed inputs: "
              + _describe(spec))
        return {"n": 1, "sigs": [], "viol": _viol_list(viol)}
    for clause, cls, detail in REF.compare_full(ds, spec):
        _viol(viol, clause, cls, detail + " | " + _describe(spec))
    _, classes, flagged = REF.image_model(spec["samples"], spec["nodata"], spec["mask"])
    if not flagged:
        return {"n": 1, "sigs": [], "viol": _viol_list(viol), "trivial": 1}
    sig = (f"f|{spec['dtype']}|{case['nodata']}|{len(spec['bands'])}|{''.join(classes.reshape(-1))}|{classes.shape}|"
           f"{_dig(ds['im'].data)}|{'msk' in ds}|{'disparity' in ds}|{'classif' in ds}|{'segm' in ds}")
    return {"n": 1, "sigs": [sig], "viol": _viol_list(viol)}


def run_rewrite(case):
    """
    the same paths are written twice with different rasters (a scratch left.tif reused by a caller): the second
    read must describe the second file, whatever was read from that path before in this process
    """
    a = build_raster(*case["a"])
    b = build_raster(*case["b"])
    viol = {}
    with F.case_dir() as d:
        conf_a = write_inputs(d, a)
        _read(conf_a)
        if case.get("roi_first"):
            _read(conf_a, {"col": {"first": 0, "last": 1}, "row": {"first": 0, "last": 0}, "margins": [0, 0, 0, 0]})
        import os  # pylint: disable=import-outside-toplevel

        for fn in os.listdir(d):
            os.remove(os.path.join(d, fn))
        conf = write_inputs(d, b)
        ds, err = _read(conf)
    if ds is None:
        _viol(viol, "full-read-refused", "path read before with another raster", f"second read raised {err}")
        return {"n": 1, "sigs": [], "viol": _viol_list(viol)}
    want = tuple(np.asarray(b["samples"]).shape[-2:])
    got = tuple(int(ds.sizes[k]) for k in ("row", "col"))
    nb_got = int(ds.sizes.get("band_im", 1))
    if got != want or nb_got != len(b["bands"]):
        _viol(viol, "im-shape", "path read before with another raster",
              f"the dataset has {nb_got} band(s) of {got} pixels, the file now at that path has {len(b['bands'])} "
              f"band(s) of {want} pixels | " + _describe(b))
        return {"n": 1, "sigs": [], "viol": _viol_list(viol)}
    for clause, cls, detail in REF.compare_full(ds, b):
        _viol(viol, clause, cls + "/path read before with another raster", detail + " | " + _describe(b))
    return {"n": 1, "sigs": [f"w|{case['a']}|{case['b']}|{_dig(ds['im'].data)}"], "viol": _viol_list(viol)}


def run_roi(case):
    w, h, cf, cl, rf = case["w"], case["h"], case["cf"], case["cl"], case["rf"]
    nb, dtype, nodata, dmode, mdtype = ROI_VARIANTS[case["variant"]]
    extras = {"all": (dmode, 2, 1), 0: (dmode, 0, 0), 1: ("list", 2, 0), 2: (None, 0, 1)}[case.get("ex", "all")]
    spec = build_raster(h, w, nb, dtype, nodata, mdtype, (case["seed"] + cf + 3) % 15, extras, case["seed"],
                        georef=(cf + cl) % 2, tag=0)
    viol, sigs = {}, set()
    n = trivial = 0
    with F.case_dir() as d:
        conf = write_inputs(d, spec)
        full, err = _read(conf)
        n += 1
        if full is None:
            _viol(viol, "full-read-refused", "", f"create_dataset_from_inputs raised {err}: " + _describe(spec))
            return {"n": n, "sigs": [], "viol": _viol_list(viol)}
        for clause, cls, detail in REF.compare_full(full, spec):
            _viol(viol, clause, cls, detail + " | " + _describe(spec))
        for rl in range(rf, h + 3):
            for m in itertools.product((0, 2), repeat=4):
                roi = {"col": {"first": cf, "last": cl}, "row": {"first": rf, "last": rl}, "margins": list(m)}
                exp = REF.window(roi, w, h)
                ds, err = _read(conf, roi)
                n += 1
                clipped = exp is None or exp != (cf - m[0], cl + m[2], rf - m[1], rl + m[3])
                if clipped:
                    sigs.add(f"r|{w}x{h}|{case['variant']}|{case.get('ex')}|{exp}|" + ("refused" if ds is None else
                                                                     _dig(ds["im"].data) + str(sorted(ds.data_vars))))
                else:
                    trivial += 1
                if exp is None:
                    if ds is not None:
                        reasons = REF.empty_reason(roi, w, h)
                        for reason in reasons:
                            _viol(viol, "roi-refusal", reason, f"create_dataset_from_inputs(roi={roi}) on a {h}x{w} "
                                  f"image returned a dataset of sizes {dict(ds.sizes)} instead of refusing a ROI that "
                                  "does not meet the image", rank=_rank(roi, reasons))
                    continue
                if ds is None:
                    _viol(viol, "roi-spurious-refusal", "", f"create_dataset_from_inputs(roi={roi}) on a {h}x{w} image "
                          f"raised {err}; expected columns {exp[0]}..{exp[1]} rows {exp[2]}..{exp[3]}", rank=_rank(roi))
                    continue
                for clause, cls, detail in REF.compare_crop(ds, full, exp, spec["nodata"]):
                    _viol(viol, clause, cls, f"roi={roi} on a {h}x{w} image ({nb} band(s), {dtype}, nodata "
                          f"{nodata}): {detail}", rank=_rank(roi))
    return {"n": n, "sigs": sorted(sigs), "viol": _viol_list(viol), "trivial": trivial}


def run_case(case):
    if case["kind"] == "win":
        return run_windows(case)
    if case["kind"] == "roi":
        return run_roi(case)
    if case["kind"] == "rewrite":
        return run_rewrite(case)
    return run_full(case)


def init_worker():
    run_case({"kind": "tiny", "h": 1, "w": 1, "dtype": "uint8", "nodata": 0, "cells": [[0, None]], "seed": 0})


def finalize(tier, seed, ctx):  # pylint: disable=unused-argument
    # workers that were killed cannot clean up after themselves
    F.sweep_stale()
    return {}
